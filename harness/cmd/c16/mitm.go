package main

// The stream between the real renter functions (rhp4.RPCFormContract, ...) and
// the real host is relayed message by message.  According to the fault plan the
// relay cuts the stream at one of the four message boundaries or rewrites a
// message; towards the host this is a scripted renter on the raw stream
// (corrupted requests and signatures, aborts after every message), towards the
// renter it is a lossy network or a misbehaving host.

import (
	"bytes"
	"context"
	"errors"
	"net"
	"sync"

	proto4 "go.sia.tech/core/rhp/v4"
	"go.sia.tech/core/types"
)

type plan struct {
	Cut        int  // 0: none; i in 1..4: message i is dropped and the stream is closed
	DialFail   bool // DialStream fails
	Write1Fail bool // the stream is dead when the renter writes its request
	// Trunc i: only the first half of the bytes of message i is forwarded, then the stream dies
	Trunc int
	// HoldContinue: like Hold, but the exchange goes on when it is released
	HoldContinue   bool
	Hold           bool   // park the exchange once the renter's signatures were read (the host waits with its inputs reserved) until released, then cut
	T1, T2, T3, T4 string // rewriting of message i
}

type wire struct {
	id              types.Specifier
	req, r1, r2, r3 proto4.Object
}

func newWire(kind string, partial bool) *wire {
	switch kind {
	case "form":
		return &wire{proto4.RPCFormContractID, &proto4.RPCFormContractRequest{}, &proto4.RPCFormContractResponse{}, &proto4.RPCFormContractSecondResponse{}, &proto4.RPCFormContractThirdResponse{}}
	case "renew":
		return &wire{proto4.RPCRenewContractID, &proto4.RPCRenewContractRequest{}, &proto4.RPCRenewContractResponse{}, &proto4.RPCRenewContractSecondResponse{}, &proto4.RPCRenewContractThirdResponse{}}
	}
	id := proto4.RPCRefreshContractID
	if partial {
		id = proto4.RPCRefreshPartialID
	}
	return &wire{id, &proto4.RPCRefreshContractRequest{}, &proto4.RPCRefreshContractResponse{}, &proto4.RPCRefreshContractSecondResponse{}, &proto4.RPCRefreshContractThirdResponse{}}
}

// reqView is the kind-independent part of a request.
type reqView struct {
	Basis    *types.ChainIndex
	Inputs   *[]types.SiacoinElement
	Parents  *[]types.V2Transaction
	MinerFee *types.Currency
	Prices   *proto4.HostPrices
}

func viewReq(o proto4.Object) reqView {
	switch r := o.(type) {
	case *proto4.RPCFormContractRequest:
		return reqView{&r.Basis, &r.RenterInputs, &r.RenterParents, &r.MinerFee, &r.Prices}
	case *proto4.RPCRenewContractRequest:
		return reqView{&r.Basis, &r.RenterInputs, &r.RenterParents, &r.MinerFee, &r.Prices}
	case *proto4.RPCRefreshContractRequest:
		return reqView{&r.Basis, &r.RenterInputs, &r.RenterParents, &r.MinerFee, &r.Prices}
	}
	panic("unknown request type")
}

func viewInputs(o proto4.Object) *[]types.V2SiacoinInput {
	switch r := o.(type) {
	case *proto4.RPCFormContractResponse:
		return &r.HostInputs
	case *proto4.RPCRenewContractResponse:
		return &r.HostInputs
	case *proto4.RPCRefreshContractResponse:
		return &r.HostInputs
	}
	panic("unknown response type")
}

type sigView struct {
	Contract *types.Signature
	Renewal  *types.Signature // nil for form
	Policies *[]types.SatisfiedPolicy
}

func viewSigs(o proto4.Object) sigView {
	switch r := o.(type) {
	case *proto4.RPCFormContractSecondResponse:
		return sigView{&r.RenterContractSignature, nil, &r.RenterSatisfiedPolicies}
	case *proto4.RPCRenewContractSecondResponse:
		return sigView{&r.RenterContractSignature, &r.RenterRenewalSignature, &r.RenterSatisfiedPolicies}
	case *proto4.RPCRefreshContractSecondResponse:
		return sigView{&r.RenterContractSignature, &r.RenterRenewalSignature, &r.RenterSatisfiedPolicies}
	}
	panic("unknown signature response type")
}

type finalView struct {
	Basis *types.ChainIndex
	Set   *[]types.V2Transaction
}

func viewFinal(o proto4.Object) finalView {
	switch r := o.(type) {
	case *proto4.RPCFormContractThirdResponse:
		return finalView{&r.Basis, &r.TransactionSet}
	case *proto4.RPCRenewContractThirdResponse:
		return finalView{&r.Basis, &r.TransactionSet}
	case *proto4.RPCRefreshContractThirdResponse:
		return finalView{&r.Basis, &r.TransactionSet}
	}
	panic("unknown final response type")
}

type mitm struct {
	inner   *tcpClient
	kind    string
	partial bool
	plan    plan
	tamper  func(stage int, name string, wr *wire) // rewrites wr.req / r1 / r2 / r3 in place

	mu        sync.Mutex
	dialed    int           // DialStream calls by the renter
	hostConns int           // streams opened to the host
	cliReq    proto4.Object // request as the renter wrote it
	fwdReq    proto4.Object // request as forwarded to the host (nil: none)
	dlvR1     proto4.Object // host inputs as delivered to the renter
	fwdR2     proto4.Object // signatures as forwarded to the host
	gotR3     proto4.Object // final response as the host sent it
	dlvR3     proto4.Object // final response as delivered to the renter
	hostErr   string        // RPC error the host answered with
	done      chan struct{}
	reached   chan struct{} // closed when a held exchange is parked
	release   chan struct{} // closed to let a held exchange go
}

func (m *mitm) FrameSize() int           { return m.inner.FrameSize() }
func (m *mitm) PeerKey() types.PublicKey { return m.inner.PeerKey() }
func (m *mitm) Close() error             { return nil }

func (m *mitm) DialStream(ctx context.Context) (net.Conn, error) {
	m.mu.Lock()
	m.dialed++
	m.mu.Unlock()
	if m.plan.DialFail {
		return nil, errDialRefused
	}
	c1, c2 := net.Pipe()
	if m.plan.Write1Fail {
		c2.Close()
		return c1, nil
	}
	m.done = make(chan struct{})
	go func() {
		defer close(m.done)
		defer c2.Close()
		m.relay(c2)
	}()
	return c1, nil
}

func (m *mitm) wait() {
	if m.done != nil {
		<-m.done
	}
}

// relayErr forwards an RPC error of the host to the renter.
func (m *mitm) relayErr(cli net.Conn, err error) bool {
	var re *proto4.RPCError
	if errors.As(err, &re) {
		m.mu.Lock()
		m.hostErr = re.Description
		m.mu.Unlock()
		proto4.WriteResponse(cli, re)
		return true
	}
	return false
}

func (m *mitm) relay(cli net.Conn) {
	wr := newWire(m.kind, m.partial)
	id, err := proto4.ReadID(cli)
	if err != nil || id != wr.id {
		return
	}
	if err := proto4.ReadRequest(cli, wr.req); err != nil {
		return
	}
	m.mu.Lock()
	m.cliReq = cloneObject(m.kind, m.partial, 0, wr.req)
	m.mu.Unlock()

	host, err := m.inner.DialStream(context.Background())
	if err != nil {
		return
	}
	defer host.Close()
	m.mu.Lock()
	m.hostConns++
	m.mu.Unlock()
	if m.plan.Cut == 1 {
		return
	}
	if m.plan.Trunc == 1 {
		writeHalf(host, &wr.id, wr.req)
		return
	}
	if m.plan.T1 != "" {
		m.tamper(1, m.plan.T1, wr)
	}
	if err := proto4.WriteRequest(host, wr.id, wr.req); err != nil {
		return
	}
	m.mu.Lock()
	m.fwdReq = wr.req
	m.mu.Unlock()

	if err := proto4.ReadResponse(host, wr.r1); err != nil {
		m.relayErr(cli, err)
		return
	}
	if m.plan.Cut == 2 {
		return
	}
	if m.plan.Trunc == 2 {
		writeHalf(cli, nil, wr.r1)
		return
	}
	if m.plan.T2 != "" {
		m.tamper(2, m.plan.T2, wr)
	}
	m.mu.Lock()
	m.dlvR1 = wr.r1
	m.mu.Unlock()
	if err := proto4.WriteResponse(cli, wr.r1); err != nil {
		return
	}

	if err := proto4.ReadResponse(cli, wr.r2); err != nil {
		return
	}
	if m.plan.Hold || m.plan.HoldContinue {
		close(m.reached)
		<-m.release
		if !m.plan.HoldContinue {
			return
		}
	}
	if m.plan.Cut == 3 {
		return
	}
	if m.plan.Trunc == 3 {
		writeHalf(host, nil, wr.r2)
		return
	}
	if m.plan.T3 != "" {
		m.tamper(3, m.plan.T3, wr)
	}
	if err := proto4.WriteResponse(host, wr.r2); err != nil {
		return
	}
	m.mu.Lock()
	m.fwdR2 = wr.r2
	m.mu.Unlock()

	if err := proto4.ReadResponse(host, wr.r3); err != nil {
		m.relayErr(cli, err)
		return
	}
	m.mu.Lock()
	m.gotR3 = cloneObject(m.kind, m.partial, 3, wr.r3)
	m.mu.Unlock()
	if m.plan.Cut == 4 {
		return
	}
	if m.plan.Trunc == 4 {
		writeHalf(cli, nil, wr.r3)
		return
	}
	if m.plan.T4 != "" {
		m.tamper(4, m.plan.T4, wr)
	}
	m.mu.Lock()
	m.dlvR3 = wr.r3
	m.mu.Unlock()
	proto4.WriteResponse(cli, wr.r3)
}

// writeHalf sends the first half of the encoding of a message (a request when id is set).
func writeHalf(dst net.Conn, id *types.Specifier, o proto4.Object) {
	var buf bytes.Buffer
	if id != nil {
		proto4.WriteRequest(&buf, *id, o)
	} else {
		proto4.WriteResponse(&buf, o)
	}
	b := buf.Bytes()
	dst.Write(b[:len(b)/2])
}

// cloneObject copies a message through its wire encoding.
func cloneObject(kind string, partial bool, stage int, o proto4.Object) proto4.Object {
	c1, c2 := net.Pipe()
	defer c1.Close()
	defer c2.Close()
	wr := newWire(kind, partial)
	var dst proto4.Object
	go func() {
		if stage == 0 {
			proto4.WriteRequest(c1, wr.id, o)
		} else {
			proto4.WriteResponse(c1, o)
		}
	}()
	switch stage {
	case 0:
		dst = wr.req
		proto4.ReadID(c2)
		proto4.ReadRequest(c2, dst)
	case 1:
		dst = wr.r1
		proto4.ReadResponse(c2, dst)
	case 2:
		dst = wr.r2
		proto4.ReadResponse(c2, dst)
	default:
		dst = wr.r3
		proto4.ReadResponse(c2, dst)
	}
	return dst
}
