package main

// One attempt: a script (kind, basis relation, fault) is run through the real
// renter function and the real host; what both sides did is collected.

import (
	"bytes"
	"context"
	"errors"
	"fmt"
	"os"
	"strings"
	"time"

	"go.sia.tech/core/consensus"
	proto4 "go.sia.tech/core/rhp/v4"
	"go.sia.tech/core/types"
	rhp4 "go.sia.tech/coreutils/rhp/v4"
	"go.sia.tech/coreutils/wallet"
)

type script struct {
	Kind     string `json:"kind"`     // form | renew | refresh
	Partial  bool   `json:"partial"`  // refresh: partial rollover RPC
	Relation string `json:"relation"` // same | behind | fork-ok | fork-stale | unknown | wallet-behind
	Unconf   bool   `json:"unconfirmed"`
	Large    bool   `json:"large"` // amounts that need two outputs on each side
	Fault    string `json:"fault"`
	// Zero: the host's share is zero (collateral 0): it funds and reserves nothing
	Zero bool `json:"zero,omitempty"`
	// Mid: something happens while the exchange is parked between the host's inputs and
	// the renter's signatures, then it goes on: "block" = two blocks are mined on the host
	Mid string `json:"mid,omitempty"`
	// Unmined: renew / refresh a contract whose formation transaction is still in the
	// pool: the host knows the contract but has no state element for it yet
	Unmined bool `json:"unmined,omitempty"`
}

func (s script) String() string {
	x := fmt.Sprintf("%s/%s/%s", s.Kind, s.Relation, s.Fault)
	if s.Kind == "refresh" && s.Partial {
		x += "/partial"
	}
	if s.Unconf {
		x += "/unconfirmed"
	}
	if s.Large {
		x += "/large"
	}
	if s.Unmined {
		x += "/unmined"
	}
	if s.Zero {
		x += "/zero-host-cost"
	}
	if s.Mid != "" {
		x += "/mid-" + s.Mid
	}
	return x
}

var allFaults = []string{
	"none", "cut1", "cut2", "cut3", "cut4",
	"dial-fail", "txset-fail", "write1-fail",
	"req-wrong-basis", "req-unknown-basis", "req-missing-parents", "req-underfund", "req-dup-inputs",
	"req-invalid-params", "req-bad-challenge", "req-unknown-contract", "req-wrong-renter-key", "req-foreign-input",
	"sig-bad-contract", "sig-bad-renewal", "sig-bad-input", "sig-policy-count",
	"host-not-accepting", "host-no-funds", "elem-lookup-fail",
	"trunc1", "trunc2", "trunc3", "trunc4",
	"req-inputs-overflow", "req-huge-allowance", "req-no-inputs", "req-zero-fee", "resp-inputs-overflow",
	"with-parked",
	"host-store-broadcast-fail",
	"resp-inputs-short", "final-empty", "final-bad-sig", "final-bad-renewal-sig", "final-txid",
}

// applicable says whether a fault makes sense for a script.
func applicable(s script) bool {
	switch s.Fault {
	case "req-bad-challenge", "req-unknown-contract", "sig-bad-renewal", "final-bad-renewal-sig", "elem-lookup-fail":
		return s.Kind != "form"
	case "req-wrong-renter-key", "final-txid":
		return s.Kind == "form"
	case "req-missing-parents":
		return s.Unconf
	case "req-underfund":
		return !s.Unconf
	case "req-foreign-input", "with-parked":
		// needs a second exchange whose host inputs stay reserved meanwhile
		return s.Relation == "same" || s.Relation == "behind" || s.Relation == "fork-ok" || s.Relation == "wallet-behind"
	}
	return true
}

func planOf(s script) plan {
	var p plan
	switch s.Fault {
	case "cut1":
		p.Cut = 1
	case "cut2":
		p.Cut = 2
	case "cut3":
		p.Cut = 3
	case "cut4":
		p.Cut = 4
	case "trunc1":
		p.Trunc = 1
	case "trunc2":
		p.Trunc = 2
	case "trunc3":
		p.Trunc = 3
	case "trunc4":
		p.Trunc = 4
	case "req-inputs-overflow", "req-huge-allowance", "req-no-inputs", "req-zero-fee":
		p.T1 = s.Fault
	case "resp-inputs-overflow":
		p.T2 = s.Fault
	case "dial-fail":
		p.DialFail = true
	case "write1-fail":
		p.Write1Fail = true
	case "req-wrong-basis", "req-unknown-basis", "req-missing-parents", "req-underfund", "req-dup-inputs", "req-bad-challenge", "req-unknown-contract", "req-foreign-input":
		p.T1 = s.Fault
		if s.Fault == "req-dup-inputs" || s.Fault == "req-foreign-input" {
			p.T3 = "dup-policy"
		}
	case "sig-bad-contract", "sig-bad-renewal", "sig-bad-input", "sig-policy-count":
		p.T3 = s.Fault
	case "resp-inputs-short":
		p.T2 = s.Fault
	case "final-empty", "final-bad-sig", "final-bad-renewal-sig", "final-txid":
		p.T4 = s.Fault
	}
	return p
}

// recSigner is the renter's FormContractSigner with a record of what it did.
type recSigner struct {
	w       *wallet.SingleAddressWallet
	key     types.PrivateKey
	calls   []string
	funded  []types.SiacoinOutputID
	fundErr error
}

func (s *recSigner) FundV2Transaction(txn *types.V2Transaction, amount types.Currency) (types.ChainIndex, []int, error) {
	n0 := len(txn.SiacoinInputs)
	basis, toSign, err := s.w.FundV2Transaction(txn, amount, true)
	if err != nil {
		s.fundErr = err
		s.calls = append(s.calls, "RFundFail")
		return basis, toSign, err
	}
	for _, in := range txn.SiacoinInputs[n0:] {
		s.funded = append(s.funded, in.Parent.ID)
	}
	s.calls = append(s.calls, fmt.Sprintf("RFund %d", len(txn.SiacoinInputs)-n0))
	return basis, toSign, nil
}
func (s *recSigner) RecommendedFee() types.Currency { return s.w.RecommendedFee() }
func (s *recSigner) ReleaseInputs(txns []types.V2Transaction) {
	s.w.ReleaseInputs(nil, txns)
	n := 0
	seen := map[types.SiacoinOutputID]bool{}
	for _, txn := range txns {
		for _, in := range txn.SiacoinInputs {
			for _, f := range s.funded {
				if f == in.Parent.ID && !seen[f] {
					seen[f] = true
					n++
				}
			}
		}
	}
	s.calls = append(s.calls, fmt.Sprintf("RRelease %d", n))
}
func (s *recSigner) SignV2Inputs(txn *types.V2Transaction, toSign []int) {
	s.w.SignV2Inputs(txn, toSign)
}
func (s *recSigner) SignHash(h types.Hash256) types.Signature { return s.key.SignHash(h) }

type failingPool struct {
	inner rhp4.TxPool
	fail  bool
}

func (p *failingPool) V2TransactionSet(basis types.ChainIndex, txn types.V2Transaction) (types.ChainIndex, []types.V2Transaction, error) {
	if p.fail {
		return types.ChainIndex{}, nil, errors.New("transaction pool unavailable (fault plan)")
	}
	return p.inner.V2TransactionSet(basis, txn)
}

type balances struct{ Spendable, Confirmed, Immature types.Currency }

type outcome struct {
	Script        script
	No            int
	Settings      proto4.HostSettings
	CS            consensus.State // renter's view
	HostCS        consensus.State
	HostWalletTip types.ChainIndex

	// parameters
	FormParams    proto4.RPCFormContractParams
	RenewParams   proto4.RPCRenewContractParams
	RefreshParams proto4.RPCRefreshContractParams
	Existing      liveContract

	HostBefore, HostAfter     []availOut
	RenterBefore, RenterAfter []availOut
	HostBal0, HostBal1        balances
	RenterBal0, RenterBal1    balances

	Log       logData
	M         *mitm
	Signer    *recSigner
	RenterErr error
	Streams   int // host streams opened during the attempt
	// RenterPanic: the renter function panicked (recovered by the harness)
	RenterPanic any
	HostTipEnd  types.ChainIndex // the host chain manager's tip when the attempt was over
	// a second exchange that was parked with its host inputs reserved while
	// this attempt ran (fault req-foreign-input)
	Held                  *held
	HeldBefore, HeldAfter []availOut

	// renter result
	ResContract rhp4.ContractRevision
	ResSet      rhp4.TransactionSet
	RenterCost  types.Currency
}

// known returns the ids of all matured outputs the wallet's store holds (reserved or not).
func (n *walletNode) known() map[types.SiacoinOutputID]bool {
	tip, utxos, err := n.ws.UnspentSiacoinElements()
	must(err)
	m := map[types.SiacoinOutputID]bool{}
	for _, u := range utxos {
		if u.MaturityHeight <= tip.Height { // (immature payouts are not reservations either)
			m[u.ID] = true
		}
	}
	return m
}

func onlyKnown(av []availOut, known map[types.SiacoinOutputID]bool) []availOut {
	var r []availOut
	for _, a := range av {
		if a.Unconf || known[a.ID] {
			r = append(r, a)
		}
	}
	return r
}

func bal(n *walletNode) balances {
	b, err := n.w.Balance()
	must(err)
	return balances{b.Spendable, b.Confirmed, b.Immature}
}

func (w *world) renterNode(s script) *walletNode {
	if s.Unconf {
		return w.R2
	}
	return w.R
}

func maxValue(av []availOut) types.Currency {
	var m types.Currency
	for _, a := range av {
		if a.Value.Cmp(m) > 0 {
			m = a.Value
		}
	}
	return m
}

// amounts picks allowance and collateral for a script.
func (w *world) amounts(s script, existing types.V2FileContract) (allowance, collateral types.Currency) {
	allowance, collateral = types.Siacoins(10), types.Siacoins(20)
	if s.Kind != "form" {
		// the host must put in new funds, not only roll over
		collateral = existing.HostOutput.Value.Add(existing.TotalCollateral).Add(types.Siacoins(20))
	}
	if s.Large || s.Fault == "req-underfund" {
		// more than the largest output: two outputs on each side
		collateral = collateral.Add(maxValue(w.H.avail())).Add(types.Siacoins(500))
		if !s.Unconf {
			allowance = maxValue(w.renterNode(s).avail()).Add(types.Siacoins(500))
		}
	}
	if s.Zero && s.Fault != "req-underfund" {
		collateral = types.ZeroCurrency
	}
	if s.Fault == "host-no-funds" {
		b, _ := w.H.w.Balance()
		collateral = b.Confirmed.Mul64(2).Add(types.Siacoins(1000))
	}
	if min := proto4.MinRenterAllowance(w.base.Prices, collateral).Add(types.Siacoins(1)); allowance.Cmp(min) < 0 {
		allowance = min
	}
	return
}

// held is a formation exchange of the honest renter that is parked after the
// renter signed: the host handler waits for the signatures with its inputs
// reserved.
type held struct {
	m      *mitm
	signer *recSigner
	inputs []types.V2SiacoinInput // the host inputs it reserved
	done   chan error
}

func (w *world) startHeld(ctx context.Context, settings proto4.HostSettings) *held {
	hb := &held{done: make(chan error, 1)}
	hb.signer = &recSigner{w: w.R.w, key: w.renterKey}
	hb.m = &mitm{inner: w.client, kind: "form", plan: plan{Hold: true}, reached: make(chan struct{}), release: make(chan struct{})}
	p := proto4.RPCFormContractParams{
		RenterPublicKey: w.renterKey.PublicKey(),
		RenterAddress:   w.R.w.Address(),
		Allowance:       types.Siacoins(10),
		Collateral:      types.Siacoins(20),
		ProofHeight:     w.cmH.Tip().Height + 300,
	}
	go func() {
		_, err := rhp4.RPCFormContract(ctx, hb.m, w.cmR, hb.signer, w.cmR.TipState(), settings.Prices, w.hostKey.PublicKey(), settings.WalletAddress, p)
		hb.done <- err
	}()
	select {
	case <-hb.m.reached:
		hb.inputs = *viewInputs(hb.m.dlvR1)
		// the form handler rebases after it sent its inputs: let it get to the
		// point where it waits for the signatures before the next attempt starts
		for deadline := time.Now().Add(5 * time.Second); time.Now().Before(deadline); time.Sleep(100 * time.Microsecond) {
			calls := strings.Join(w.log.snapshot().calls, ";")
			if strings.Contains(calls, "CFund") && (w.rel == "same" || strings.Contains(calls, "CUpdate")) {
				break
			}
		}
		time.Sleep(time.Millisecond)
	case err := <-hb.done:
		hb.done <- err // the exchange ended before it could be parked
		return nil
	case <-time.After(10 * time.Second):
		panic("held exchange did not reach its parking point")
	}
	return hb
}

func (hb *held) finish() {
	close(hb.m.release)
	<-hb.done
	hb.m.wait()
}

// settle waits until the parked host handler has made the calls it makes before it
// reads the renter's signatures.
func (w *world) settle() {
	for deadline := time.Now().Add(5 * time.Second); time.Now().Before(deadline); time.Sleep(100 * time.Microsecond) {
		calls := strings.Join(w.log.snapshot().calls, ";")
		if (strings.Contains(calls, "CFund") || strings.Contains(calls, "CElement false")) && (w.rel == "same" || strings.Contains(calls, "CUpdate")) {
			break
		}
	}
	time.Sleep(time.Millisecond)
}

// call runs the real renter function of the script's kind; a panic in it is recovered
// and recorded (the caller's reservations are judged like after any failed call).
func (w *world) call(ctx context.Context, o *outcome, rn *walletNode, m *mitm, pool rhp4.TxPool, signer rhp4.FormContractSigner, settings proto4.HostSettings, allowance, collateral types.Currency) {
	s := o.Script
	defer func() {
		if p := recover(); p != nil {
			o.RenterPanic = p
			o.RenterErr = fmt.Errorf("the renter function panicked: %v", p)
		}
	}()
	switch s.Kind {
	case "form":
		p := proto4.RPCFormContractParams{
			RenterPublicKey: w.renterKey.PublicKey(),
			RenterAddress:   rn.w.Address(),
			Allowance:       allowance,
			Collateral:      collateral,
			ProofHeight:     w.cmH.Tip().Height + 300,
		}
		if s.Fault == "req-invalid-params" {
			p.ProofHeight = w.cmH.Tip().Height + 1 // below the minimum contract duration
		}
		if s.Fault == "req-wrong-renter-key" {
			p.RenterPublicKey = w.otherKey.PublicKey() // the renter signs with a key the contract does not name
		}
		o.FormParams = p
		res, err := rhp4.RPCFormContract(ctx, m, pool, signer, o.CS, settings.Prices, w.hostKey.PublicKey(), settings.WalletAddress, p)
		o.RenterErr, o.ResContract, o.ResSet, o.RenterCost = err, res.Contract, res.FormationSet, res.Cost
	case "renew":
		p := proto4.RPCRenewContractParams{
			ContractID:  o.Existing.ID,
			Allowance:   allowance,
			Collateral:  collateral,
			ProofHeight: o.Existing.Revision.ProofHeight + 10,
		}
		if s.Fault == "req-invalid-params" {
			p.ProofHeight = o.Existing.Revision.ProofHeight // must be greater than the existing one
		}
		o.RenewParams = p
		res, err := rhp4.RPCRenewContract(ctx, m, pool, signer, o.CS, settings.Prices, settings.WalletAddress, o.Existing.Revision, p)
		o.RenterErr, o.ResContract, o.ResSet, o.RenterCost = err, res.Contract, res.RenewalSet, res.Cost
	case "refresh":
		p := proto4.RPCRefreshContractParams{
			ContractID: o.Existing.ID,
			Allowance:  allowance,
			Collateral: collateral,
		}
		if s.Fault == "req-invalid-params" {
			p.Allowance = types.ZeroCurrency
		}
		o.RefreshParams = p
		var res rhp4.RPCRefreshContractResult
		var err error
		if s.Partial {
			res, err = rhp4.RPCRefreshContractPartialRollover(ctx, m, pool, signer, o.CS, settings.Prices, settings.WalletAddress, o.Existing.Revision, p)
		} else {
			res, err = rhp4.RPCRefreshContractFullRollover(ctx, m, pool, signer, o.CS, settings.Prices, settings.WalletAddress, o.Existing.Revision, p)
		}
		o.RenterErr, o.ResContract, o.ResSet, o.RenterCost = err, res.Contract, res.RenewalSet, res.Cost
	}
}

// run executes one attempt; the world must already be in the script's relation.
func (w *world) run(s script) *outcome {
	w.attemptNo++
	o := &outcome{Script: s, No: w.attemptNo}
	ctx, cancel := context.WithTimeout(context.Background(), 20*time.Second)
	defer cancel()

	settings, err := rhp4.RPCSettings(ctx, w.client)
	must(err)
	w.trk.waitIdle(0)
	o.Settings = settings
	rn := w.renterNode(s)
	o.CS, o.HostCS = w.cmR.TipState(), w.cmH.TipState()
	o.HostWalletTip, _ = w.H.ws.Tip()

	if s.Kind != "form" {
		o.Existing = w.contracts[len(w.contracts)-1]
	}
	allowance, collateral := w.amounts(s, o.Existing.Revision)

	if s.Fault == "host-store-broadcast-fail" {
		// the host wallet's store cannot record the set it broadcasts (bookkeeping for
		// rebroadcasts): whatever the wallet makes of that, the attempt must end as a
		// whole - committed on both sides or without a contract and reservations
		w.H.hs.failBroadcasted = true
		defer func() { w.H.hs.failBroadcasted = false }()
	}
	if s.Fault == "elem-lookup-fail" {
		w.rc.failElement = true
		defer func() { w.rc.failElement = false }()
	}
	if s.Fault == "host-not-accepting" {
		hs := w.base
		hs.AcceptingContracts = false
		w.settings.Update(hs)
		defer w.settings.Update(w.base)
	}

	signer := &recSigner{w: rn.w, key: w.renterKey}
	pool := &failingPool{inner: w.cmR, fail: s.Fault == "txset-fail"}
	m := &mitm{inner: w.client, kind: s.Kind, partial: s.Partial, plan: planOf(s)}
	m.tamper = func(stage int, name string, wr *wire) { w.tamper(o, stage, name, wr) }
	o.M, o.Signer = m, signer

	outstanding := 0
	if s.Fault == "req-foreign-input" || s.Fault == "with-parked" {
		o.HeldBefore = w.H.avail()
		w.log.reset()
		if o.Held = w.startHeld(ctx, settings); o.Held != nil {
			outstanding = 1
		}
	}
	o.HostBefore, o.RenterBefore = w.H.avail(), rn.avail()
	o.HostBal0, o.RenterBal0 = bal(w.H), bal(rn)
	hostKnown, renterKnown := w.H.known(), rn.known()
	w.log.reset()
	n0 := w.trk.count()

	if s.Mid != "" {
		m.plan.HoldContinue = true
		m.reached, m.release = make(chan struct{}), make(chan struct{})
		done := make(chan struct{})
		go func() {
			defer close(done)
			w.call(ctx, o, rn, m, pool, signer, settings, allowance, collateral)
		}()
		select {
		case <-m.reached:
			// the host has sent its inputs and waits for the signatures
			w.settle()
			if s.Mid == "block" {
				for i := 0; i < 2; i++ {
					w.mineHost(types.VoidAddress, w.rel == "same" || w.rel == "wallet-behind")
				}
			}
			close(m.release)
			<-done
		case <-done: // the exchange ended before it could be parked
		}
	} else {
		w.call(ctx, o, rn, m, pool, signer, settings, allowance, collateral)
	}
	m.wait()
	m.mu.Lock()
	o.Streams = m.hostConns
	m.mu.Unlock()
	if !w.trk.waitIdle(n0+o.Streams, outstanding) {
		panic("host handler did not return")
	}
	o.Log = w.log.snapshot()
	o.HostTipEnd = w.cmH.Tip()
	if os.Getenv("C16_DEBUG") != "" {
		fmt.Fprintf(os.Stderr, "%d %s host=%v hosterr=%q rentererr=%v renter=%v\n", o.No, s, o.Log.calls, m.hostErr, o.RenterErr, signer.calls)
	}
	o.HostAfter, o.RenterAfter = w.H.avail(), rn.avail()
	o.HostBal1, o.RenterBal1 = bal(w.H), bal(rn)
	if s.Mid != "" {
		// blocks were mined meanwhile: outputs the wallets did not own before (matured or
		// newly confirmed ones) are no reservations given back, and balances moved
		o.HostAfter, o.RenterAfter = onlyKnown(o.HostAfter, hostKnown), onlyKnown(o.RenterAfter, renterKnown)
		o.HostBal1, o.RenterBal1 = o.HostBal0, o.RenterBal0
	}
	if o.Held != nil {
		o.Held.finish()
		if !w.trk.waitIdle(0) {
			panic("held host handler did not return")
		}
		o.HeldAfter = w.H.avail()
	}
	return o
}

// tamper rewrites one message according to the fault plan.
func (w *world) tamper(o *outcome, stage int, name string, wr *wire) {
	switch stage {
	case 1:
		v := viewReq(wr.req)
		switch name {
		case "req-unknown-basis":
			v.Basis.ID[0] ^= 0xff
			v.Basis.ID[7] ^= 0x5a
		case "req-wrong-basis":
			// claim a basis the renter's proofs were not made for: the host's
			// tip, or (when the renter is on the host's tip) an older block
			if *v.Basis != w.cmH.Tip() {
				*v.Basis = w.cmH.Tip()
			} else {
				idx, _ := w.cmH.BestIndex(w.cmH.Tip().Height - 2)
				*v.Basis = idx
			}
		case "req-missing-parents":
			*v.Parents = nil
		case "req-underfund":
			if n := len(*v.Inputs); n > 1 {
				*v.Inputs = (*v.Inputs)[:n-1]
			}
		case "req-dup-inputs":
			*v.Inputs = append(*v.Inputs, (*v.Inputs)[0].Copy())
		case "req-no-inputs":
			*v.Inputs = nil
		case "req-zero-fee":
			*v.MinerFee = types.ZeroCurrency
		case "req-inputs-overflow":
			// two inputs whose values cannot be summed in 128 bits
			if len(*v.Inputs) > 0 {
				if len(*v.Inputs) == 1 {
					e := (*v.Inputs)[0].Copy()
					e.ID[0] ^= 0x55
					*v.Inputs = append(*v.Inputs, e)
				}
				(*v.Inputs)[0].SiacoinOutput.Value = types.MaxCurrency
				(*v.Inputs)[1].SiacoinOutput.Value = types.MaxCurrency
			}
		case "req-huge-allowance":
			switch r := wr.req.(type) {
			case *proto4.RPCFormContractRequest:
				r.Contract.Allowance = types.MaxCurrency
			case *proto4.RPCRenewContractRequest:
				r.Renewal.Allowance = types.MaxCurrency
			case *proto4.RPCRefreshContractRequest:
				r.Refresh.Allowance = types.MaxCurrency
			}
		case "req-foreign-input":
			// name outputs the host has reserved for another exchange as renter inputs
			if o.Held != nil {
				for _, in := range o.Held.inputs {
					*v.Inputs = append(*v.Inputs, in.Parent.Copy())
				}
			}
		case "req-bad-challenge":
			switch r := wr.req.(type) {
			case *proto4.RPCRenewContractRequest:
				r.ChallengeSignature[3] ^= 1
			case *proto4.RPCRefreshContractRequest:
				r.ChallengeSignature[3] ^= 1
			}
		case "req-unknown-contract":
			switch r := wr.req.(type) {
			case *proto4.RPCRenewContractRequest:
				r.Renewal.ContractID[5] ^= 1
			case *proto4.RPCRefreshContractRequest:
				r.Refresh.ContractID[5] ^= 1
			}
		}
	case 2:
		in := viewInputs(wr.r1)
		if name == "resp-inputs-short" && len(*in) > 0 {
			*in = (*in)[:len(*in)-1]
		}
		if name == "resp-inputs-overflow" {
			// the host answers with inputs whose values cannot be summed in 128 bits
			for len(*in) < 2 {
				x := types.V2SiacoinInput{SatisfiedPolicy: types.SatisfiedPolicy{Policy: types.PolicyPublicKey(w.hostKey.PublicKey())}}
				if len(*in) > 0 {
					x = (*in)[0]
					x.Parent = (*in)[0].Parent.Copy()
				}
				x.Parent.ID[0] ^= byte(0x33 + len(*in))
				*in = append(*in, x)
			}
			(*in)[0].Parent.SiacoinOutput.Value = types.MaxCurrency
			(*in)[1].Parent.SiacoinOutput.Value = types.MaxCurrency
		}
	case 3:
		v := viewSigs(wr.r2)
		switch name {
		case "sig-bad-contract":
			v.Contract[9] ^= 1
		case "sig-bad-renewal":
			if v.Renewal != nil {
				v.Renewal[9] ^= 1
			}
		case "sig-bad-input":
			if len(*v.Policies) > 0 && len((*v.Policies)[0].Signatures) > 0 {
				(*v.Policies)[0].Signatures[0][9] ^= 1
			}
		case "sig-policy-count":
			if n := len(*v.Policies); n > 0 {
				*v.Policies = (*v.Policies)[:n-1]
			}
		case "dup-policy":
			// as many policies as the (rewritten) request has inputs
			want := len(*v.Policies) + 1
			if o.M.fwdReq != nil {
				want = len(*viewReq(o.M.fwdReq).Inputs)
			}
			for len(*v.Policies) < want && len(*v.Policies) > 0 {
				*v.Policies = append(*v.Policies, (*v.Policies)[0])
			}
		}
	case 4:
		v := viewFinal(wr.r3)
		set := *v.Set
		if len(set) == 0 {
			return
		}
		last := &set[len(set)-1]
		switch name {
		case "final-empty":
			*v.Set = nil
		case "final-txid":
			last.MinerFee = last.MinerFee.Add(types.NewCurrency64(1))
		case "final-bad-sig":
			if len(last.FileContracts) == 1 {
				last.FileContracts[0].HostSignature[11] ^= 1
			} else if len(last.FileContractResolutions) == 1 {
				if r, ok := last.FileContractResolutions[0].Resolution.(*types.V2FileContractRenewal); ok {
					r.NewContract.HostSignature[11] ^= 1
				}
			}
		case "final-bad-renewal-sig":
			if len(last.FileContractResolutions) == 1 {
				if r, ok := last.FileContractResolutions[0].Resolution.(*types.V2FileContractRenewal); ok {
					r.HostSignature[11] ^= 1
				}
			}
		}
	}
}

// contractOf extracts the contract a formation / renewal set creates.
func contractOf(set []types.V2Transaction) (id types.FileContractID, fc types.V2FileContract, renewal *types.V2FileContractRenewal, ok bool) {
	if len(set) == 0 {
		return
	}
	txn := set[len(set)-1]
	if len(txn.FileContracts) == 1 {
		return txn.V2FileContractID(txn.ID(), 0), txn.FileContracts[0], nil, true
	}
	if len(txn.FileContractResolutions) == 1 {
		if r, isR := txn.FileContractResolutions[0].Resolution.(*types.V2FileContractRenewal); isR {
			return types.FileContractID(txn.FileContractResolutions[0].Parent.ID).V2RenewalID(), r.NewContract, r, true
		}
	}
	return
}

func encodeContract(fc types.V2FileContract) []byte {
	var buf bytes.Buffer
	e := types.NewEncoder(&buf)
	fc.EncodeTo(e)
	e.Flush()
	return buf.Bytes()
}
