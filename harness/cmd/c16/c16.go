package main

// C16: contract formation / renewal / refresh yields a confirmable contract or
// leaves no trace.
//
// The real rhp4.Server (host) is driven by the real renter functions through a
// relay that cuts the stream after every message or rewrites messages, for
// every basis relation between the renter's node and the host's node.  The
// monitors compare wallet, contractor and chain before and after each attempt;
// the same runs are written as cases for the Coq model RHP/Form.v.

import (
	"encoding/json"
	"fmt"
	"os"
	"strings"

	"go.sia.tech/core/types"
	"verif/harness/internal/hx"
)

func main() { hx.Main("C16", runC16) }

type Ctx = hx.Ctx

type harness struct {
	c       *Ctx
	w       *world
	cases   []string
	noCases bool
	shrink  bool
	fails   map[string]int
	// keepLeaks: do not clean up leaked host reservations (the repeated-failure run)
	keepLeaks bool
	leaked    []types.SiacoinOutputID
	// deferConfirm: a committed attempt is not mined at once; pending holds the
	// rest of its judgement (mining, on-chain checks)
	deferConfirm bool
	pending      func() []failure
	pendingOf    *outcome
}

var relations = []string{"same", "behind", "fork-ok", "fork-stale", "unknown", "wallet-behind"}
var kinds = []string{"form", "renew", "refresh"}

func (h *harness) usableContract() bool {
	if len(h.w.contracts) == 0 {
		return false
	}
	lc := h.w.contracts[len(h.w.contracts)-1]
	// not too close to its proof window, and small enough that renewing it stays cheap
	return lc.Revision.ProofHeight > h.w.cmH.Tip().Height+60 && lc.Revision.HostOutput.Value.Cmp(types.Siacoins(400)) < 0
}

// prepare brings the world into the state a script needs.
func (h *harness) prepare(s *script) {
	w := h.w
	if s.Unmined && s.Kind != "form" {
		// form a contract and leave its formation transaction in the pool
		s.Relation, s.Unconf = "same", false
		w.topUp()
		w.resync()
		h.deferConfirm = true
		h.attempt(script{Kind: "form", Relation: "same", Fault: "none"})
		h.deferConfirm = false
		if h.pending == nil {
			panic("could not form a contract to renew unconfirmed")
		}
		return
	}
	s.Unmined = false
	if !h.keepLeaks {
		w.topUp()
	}
	if s.Kind != "form" && !h.usableContract() {
		w.resync()
		h.attempt(script{Kind: "form", Relation: "same", Fault: "none"})
		if !h.usableContract() {
			panic("could not form a contract to renew")
		}
	}
	if s.Relation == "wallet-behind" && (w.rel != "wallet-behind" || !w.hasFreshOutput()) {
		// a successful formation first (the host then holds a fresh change output
		// next to the fresh output it is paid), then let its wallet fall behind
		w.resync()
		h.attempt(script{Kind: "form", Relation: "same", Fault: "none"})
		w.rel = ""
	}
	if s.Mid != "" && s.Relation != "same" && s.Relation != "wallet-behind" {
		s.Mid = ""
	}
	if s.Mid == "block" && s.Relation == "same" && !w.hasFreshOutput() {
		// a fresh output for the host: its proof changes with the blocks mined meanwhile
		w.resync()
		w.payValue(w.H.w.Address(), 1, freshOutputValue)
		w.mineHost(types.VoidAddress, true)
	}
	w.setRelation(s.Relation)
	if s.Unconf {
		if s.Relation != "same" && s.Relation != "behind" {
			s.Unconf = false
		} else if !w.ensureUnconfirmed() {
			s.Unconf = false
		}
	}
}

// flushPending mines a formation that was left unconfirmed and finishes its judgement.
func (h *harness) flushPending() {
	if h.pending == nil || h.deferConfirm {
		return
	}
	pfs, po := h.pending(), h.pendingOf
	h.pending, h.pendingOf = nil, nil
	if len(pfs) > 0 && h.shrink && po != nil {
		h.report(po.Script, po, pfs)
	}
}

// attempt prepares, runs, judges and records one script; it returns the
// kinds of the monitor failures it saw.
func (h *harness) attempt(s script) []string {
	if s.Kind == "form" {
		s.Unmined = false
	}
	if s.Unmined {
		s.Relation, s.Unconf = "same", false
		if !applicable(s) {
			return nil
		}
	}
	h.prepare(&s)
	if !applicable(s) {
		h.flushPending()
		return nil
	}
	o := h.w.run(s)
	fs := h.judge(o)
	if h.deferConfirm && h.pending != nil {
		h.pendingOf = o
	}
	if s.Unmined {
		// now confirm the formation the attempt ran against
		h.flushPending()
	}
	h.c.Res.Count("kind:" + s.Kind)
	h.c.Res.Count("relation:" + s.Relation)
	h.c.Res.Count("fault:" + s.Fault)
	if s.Unconf {
		h.c.Res.Count("unconfirmed-inputs")
	}
	if s.Zero {
		h.c.Res.Count("size:zero-host-cost")
	}
	if s.Large {
		h.c.Res.Count("size:two-outputs")
	}
	if s.Mid != "" {
		h.c.Res.Count("mid:" + s.Mid)
	}
	if s.Unmined {
		h.c.Res.Count("state:formation-unconfirmed")
	}
	if o.RenterPanic != nil {
		h.c.Res.Count("renter-panics")
	}
	committed := len(o.Log.broadcast) > 0
	switch {
	case committed && o.RenterErr == nil:
		h.c.Res.Count("outcome:success")
	case committed:
		h.c.Res.Count("outcome:host-committed-renter-failed")
	default:
		h.c.Res.Count("outcome:failed")
	}
	h.c.Res.Eval(s.String()+"|"+strings.Join(o.Log.calls, ","), o.Streams > 0)
	if !h.noCases {
		h.cases = append(h.cases, h.project(o)...)
	}
	var kindsSeen []string
	for _, f := range fs {
		kindsSeen = append(kindsSeen, f.kind)
	}
	if len(fs) > 0 && h.shrink {
		h.report(s, o, fs)
	}
	return kindsSeen
}

// report shrinks a failing script (simpler variants that still fail the same
// way) and writes the replay.
func (h *harness) report(s script, o *outcome, fs []failure) {
	for _, f := range fs {
		h.fails[f.kind]++
		if h.fails[f.kind] > 3 {
			h.c.Res.Count("fail:" + f.kind)
			continue
		}
		small, detail := s, f.detail
		saveShrink, saveNo := h.shrink, h.noCases
		h.shrink, h.noCases = false, true
		try := func(v script) {
			if v == small {
				return
			}
			ks := h.attempt(v)
			for _, k := range ks {
				if k == f.kind {
					small = v
				}
			}
		}
		v := small
		v.Large = false
		try(v)
		v = small
		v.Unconf = false
		try(v)
		v = small
		v.Partial = false
		try(v)
		h.shrink, h.noCases = saveShrink, saveNo
		if small != s {
			// re-run the shrunk script for its own detail
			h.shrink, h.noCases = false, true
			h.prepare(&small)
			o2 := h.w.run(small)
			for _, f2 := range h.judge(o2) {
				if f2.kind == f.kind {
					detail = f2.detail
				}
			}
			h.shrink, h.noCases = saveShrink, saveNo
		}
		h.c.Res.Fail(f.kind, detail, map[string]any{"script": small, "original": s, "host_calls": o.Log.calls, "renter_calls": o.Signer.calls})
	}
}

func runC16(c *Ctx) {
	res := c.Res
	res.Rule = "one attempt = (form|renew|refresh) x basis relation (same tip, renter 3 blocks behind, stale fork the host applied once, stale fork the host only stored, unknown fork, host wallet 3 blocks behind its own chain manager) x fault (stream cut after each of the 4 messages, dial/pool/write failure, corrupted request: wrong/unknown basis, missing parents, underfunded, duplicated inputs, invalid parameters, bad challenge, unknown contract, wrong key; corrupted signatures; host not accepting / out of funds / contract element lookup failing or the contract's formation still unconfirmed; corrupted host answers) with confirmed or unconfirmed renter inputs and one- or two-output funding; real renter functions against the real host over loopback TCP with separate wallets; non-trivial := the host handler was reached; distinct by script and host call trace"
	h := &harness{c: c, shrink: true, fails: map[string]int{}}

	if c.Replay != "" {
		var rp struct {
			Replay struct {
				Script     script   `json:"script"`
				Repeat     int      `json:"repeat"`
				Batch      []script `json:"batch"`
				Concurrent bool     `json:"concurrent"`
			} `json:"replay"`
		}
		b, err := os.ReadFile(c.Replay)
		must(err)
		must(json.Unmarshal(b, &rp))
		h.w = newWorld(c)
		defer h.w.close()
		if len(rp.Replay.Batch) > 0 {
			h.batch(rp.Replay.Batch, rp.Replay.Concurrent)
		} else if rp.Replay.Repeat > 1 {
			s := rp.Replay.Script
			h.prepare(&s)
			h.keepLeaks = true
			start := len(confirmedOnly(h.w.H.avail()))
			for i := 0; i < rp.Replay.Repeat; i++ {
				h.attempt(rp.Replay.Script)
			}
			end := len(confirmedOnly(h.w.H.avail()))
			if end < start {
				res.Fail("host-funds-shrink-under-repeated-failures",
					fmt.Sprintf("%d consecutive failing attempts left the host with %d spendable outputs instead of %d", rp.Replay.Repeat, end, start),
					map[string]any{"script": rp.Replay.Script, "repeat": rp.Replay.Repeat})
			}
		} else {
			h.attempt(rp.Replay.Script)
		}
		res.WriteCases("Run.Run_C16", h.cases)
		return
	}

	h.w = newWorld(c)
	defer func() { h.w.close() }()

	// corpus: the reproduced defects first
	for _, s := range []script{
		{Kind: "form", Relation: "unknown", Fault: "none"},
		{Kind: "renew", Relation: "unknown", Fault: "none"},
		{Kind: "refresh", Relation: "unknown", Fault: "none", Partial: true},
		{Kind: "form", Relation: "same", Fault: "req-unknown-basis"},
		{Kind: "renew", Relation: "same", Fault: "dial-fail"},
		{Kind: "refresh", Relation: "same", Fault: "dial-fail"},
		{Kind: "renew", Relation: "same", Fault: "none", Unmined: true},
		{Kind: "refresh", Relation: "same", Fault: "none", Unmined: true, Partial: true},
		{Kind: "renew", Relation: "same", Fault: "elem-lookup-fail"},
		{Kind: "form", Relation: "wallet-behind", Fault: "none"},
		{Kind: "renew", Relation: "wallet-behind", Fault: "none"},
		{Kind: "refresh", Relation: "wallet-behind", Fault: "none", Partial: true},
	} {
		h.attempt(s)
	}

	// every fault x relation x kind
	// a long chain of instantly mined blocks drives the difficulty up: every
	// round (and every few hundred random scripts) starts from a fresh world
	fresh := func() {
		h.w.close()
		h.w = newWorld(c)
	}
	rounds := c.Scale(1, 6)
	for round := 0; round < rounds; round++ {
		if round > 0 {
			fresh()
		}
		for _, rel := range relations {
			for _, kind := range kinds {
				for _, fault := range allFaults {
					s := script{Kind: kind, Relation: rel, Fault: fault,
						Partial: c.R.Bool(), Unconf: c.R.Chance(1, 4), Large: c.R.Chance(1, 3)}
					if !s.Large && c.R.Chance(1, 6) {
						s.Zero = true
					}
					if fault == "req-missing-parents" {
						s.Unconf = true
					}
					h.attempt(s)
				}
			}
		}
	}

	// more committed runs: every kind in every relation that can succeed, with
	// one- and two-output funding, confirmed and unconfirmed renter inputs, the
	// final response delivered, lost or corrupted
	for _, rel := range []string{"same", "behind", "fork-ok", "wallet-behind"} {
		for _, kind := range kinds {
			for i, fault := range []string{"none", "none", "cut4", "none", "final-bad-sig", "none"} {
				h.attempt(script{Kind: kind, Relation: rel, Fault: fault, Partial: i%2 == 0, Large: i == 1 || i == 2, Unconf: i == 3 && rel == "same"})
			}
		}
	}

	// a contract whose formation is still unconfirmed (no state element yet): renewing
	// or refreshing it must fail and release everything; once mined it succeeds
	for _, kind := range []string{"renew", "refresh"} {
		for i := 0; i < 3; i++ {
			h.attempt(script{Kind: kind, Relation: "same", Fault: "none", Unmined: true, Partial: i%2 == 0, Large: i == 1})
			h.attempt(script{Kind: kind, Relation: "same", Fault: "none", Partial: i%2 == 0})
		}
	}

	// something happens between the host's inputs and the renter's signatures: blocks are
	// mined on the host (its tip, its wallet and its contractor move on), then the exchange
	// goes on and has to end like any other - delivered, lost or corrupted final response
	for _, rel := range []string{"same", "wallet-behind"} {
		for _, kind := range kinds {
			for i, fault := range []string{"none", "cut4", "sig-bad-input", "none"} {
				h.attempt(script{Kind: kind, Relation: rel, Fault: fault, Mid: "block", Partial: i%2 == 0, Zero: i == 3})
			}
		}
	}
	// the host's share is zero: it reserves nothing, in every relation
	for _, rel := range relations {
		for _, kind := range kinds {
			h.attempt(script{Kind: kind, Relation: rel, Fault: "none", Zero: true, Partial: true})
			h.attempt(script{Kind: kind, Relation: rel, Fault: "cut3", Zero: true})
			if rel == "same" || rel == "behind" {
				h.attempt(script{Kind: kind, Relation: rel, Fault: "sig-bad-input", Zero: true, Partial: true})
				h.attempt(script{Kind: kind, Relation: rel, Fault: "req-dup-inputs", Zero: true})
			}
		}
	}
	// the renter is further behind than a transaction set is rebased over
	for _, kind := range kinds {
		h.attempt(script{Kind: kind, Relation: "behind-far", Fault: "none", Partial: true})
	}
	// the renter lost the final response and tries again before anything is mined: its
	// inputs are spent by the pooled set, the second attempt must fail without a trace and
	// the first contract must still be mined as recorded
	for _, kind := range kinds {
		lost := script{Kind: kind, Relation: "same", Fault: "cut4", Partial: true}
		h.prepare(&lost) // (forms the contract to renew, if needed, before confirmation is deferred)
		h.deferConfirm = true
		h.attempt(lost)
		h.deferConfirm = false
		if h.pending != nil {
			h.c.Res.Count("history:retry-after-lost-final")
			h.attempt(script{Kind: "form", Relation: "same", Fault: "none"})
			h.flushPending()
			h.w.resync()
		}
	}
	// batches judged only at the end: exchanges served concurrently, and sequences of
	// exchanges with no look at any wallet, pool or contractor in between
	nb := c.Scale(3, 12)
	for b := 0; b < nb; b++ {
		for _, conc := range []bool{true, false} {
			n := 4 + c.R.Intn(4)
			var ss []script
			for i := 0; i < n; i++ {
				ss = append(ss, script{Kind: kinds[c.R.Intn(3)], Fault: batchFaults[c.R.Intn(len(batchFaults))],
					Partial: c.R.Bool(), Unconf: c.R.Chance(1, 5), Zero: c.R.Chance(1, 6)})
			}
			h.batch(ss, conc)
		}
	}

	// repeated failures must not exhaust the host's spendable outputs: 50
	// failing attempts in a row, spendable set compared with the start
	h.w.setRelation("unknown")
	h.w.topUp()
	h.w.setRelation("unknown")
	h.keepLeaks = true
	start := len(confirmedOnly(h.w.H.avail()))
	failing := []string{"none", "cut2", "cut3", "req-unknown-basis", "sig-bad-contract", "sig-bad-input", "req-dup-inputs"}
	for i := 0; i < 50; i++ {
		rel := "unknown"
		if i%5 == 4 {
			rel = relations[c.R.Intn(len(relations))]
		}
		f := failing[c.R.Intn(len(failing))]
		if rel != "unknown" && rel != "fork-stale" && f == "none" {
			f = "cut3"
		}
		h.attempt(script{Kind: kinds[c.R.Intn(3)], Relation: rel, Fault: f, Partial: c.R.Bool(), Large: c.R.Chance(1, 3)})
	}
	end := len(confirmedOnly(h.w.H.avail()))
	h.keepLeaks = false
	releaseIDs(h.w.H, h.leaked)
	res.Count("fifty-failures-runs")
	if end < start {
		res.Fail("host-funds-shrink-under-repeated-failures",
			fmt.Sprintf("50 consecutive failing attempts left the host with %d spendable outputs instead of %d", end, start),
			map[string]any{"script": script{Kind: "form", Relation: "unknown", Fault: "none"}, "repeat": 50})
	}

	// random scripts
	nrand := c.Scale(80, 3000)
	for i := 0; i < nrand; i++ {
		if i%400 == 399 {
			fresh()
		}
		s := script{Kind: kinds[c.R.Intn(3)], Relation: relations[c.R.Intn(len(relations))],
			Fault: allFaults[c.R.Intn(len(allFaults))], Partial: c.R.Bool(), Unconf: c.R.Chance(1, 3), Large: c.R.Chance(1, 3)}
		s.Unmined = s.Kind != "form" && c.R.Chance(1, 10)
		s.Zero = !s.Large && c.R.Chance(1, 6)
		if c.R.Chance(1, 8) {
			s.Mid = "block"
		}
		if i < 3 {
			res.Sample(map[string]any{"script": s.String()})
		}
		h.attempt(s)
	}
	res.Explored = map[string]any{"relations": relations, "kinds": kinds, "faults": len(allFaults), "rounds": rounds, "random": nrand}
	res.WriteCases("Run.Run_C16", h.cases)
}
