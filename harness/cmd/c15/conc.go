package main

// The concurrent section of the C15 harness: "the implementation's debit is one atomic
// step" (theorem C15_debit_atomic is about one step of the model; here the real
// Contractor and the real host are put under concurrent load).
//
// N parallel debits draw on funds that cover exactly k < N of them:
//   - N goroutines calling Contractor.DebitAccount for one account (what N concurrent
//     read / write / verify streams carrying the same account token do on the host),
//   - the same for two accounts that share one pool,
//   - N real RPCVerifySector calls on parallel siamux streams (same account; two accounts
//     sharing a pool).
// The accounts and pools are created through the real RPCs (fund, replenish, attach).
// Monitors per round: exactly k debits succeed (never more than the funds cover), the
// amount removed from the ledger is successes x price, nothing is left negative or
// unaccounted, and on the RPC level every success is one DebitAccount and one ReadSector.

import (
	"bytes"
	"context"
	"fmt"
	"sync"
	"sync/atomic"
	"time"

	proto4 "go.sia.tech/core/rhp/v4"
	"go.sia.tech/core/types"
	rhp4 "go.sia.tech/coreutils/rhp/v4"
	"verif/harness/internal/rng"
)

type concFail struct {
	kind, detail string
	replay       map[string]any
}

func randAccount(r *rng.R) proto4.Account {
	var a proto4.Account
	r.Bytes(a[:])
	return a
}

// race releases n goroutines at once on each of the given debit functions and returns the
// number of nil results.
func race(n int, debit func(i int) error) int {
	var ok atomic.Int32
	var wg sync.WaitGroup
	start := make(chan struct{})
	for i := 0; i < n; i++ {
		wg.Add(1)
		go func(i int) {
			defer wg.Done()
			<-start
			if debit(i) == nil {
				ok.Add(1)
			}
		}(i)
	}
	close(start)
	wg.Wait()
	return int(ok.Load())
}

func concurrentSection(h *hostEnv, r *rng.R, nAccounts, nPools, nRPC int) (fails []concFail, counts map[string]int, err error) {
	counts = map[string]int{}
	ctx := context.Background()
	cs := h.cm.TipState()
	usage := h.prices.RPCReadSectorCost(4096)
	price := usage.RenterCost()
	report := func(variant string, n, k, succ int, removed, funded types.Currency) {
		counts["concurrent:"+variant+":rounds"]++
		if succ == k && removed.Equals(price.Mul64(uint64(succ))) {
			return
		}
		counts["concurrent:"+variant+":broken"]++
		if len(fails) < 3 {
			fails = append(fails, concFail{"concurrent-debits-not-atomic",
				fmt.Sprintf("%s: %d concurrent debits of %v each on funds of %v (= %d x price): %d succeeded, %v was removed from the ledger (successes x price = %v)",
					variant, n, price, funded, k, succ, removed, price.Mul64(uint64(succ))),
				map[string]any{"section": "concurrent", "variant": variant, "n": n, "k": k, "successes": succ}})
		}
	}

	// A. one account, 8 concurrent DebitAccount calls, funds for k = 1..3
	const nA = 8
	for base := 0; base < nAccounts; base += 1000 {
		m := min(1000, nAccounts-base)
		accts := make([]proto4.Account, m)
		deps := make([]proto4.AccountDeposit, m)
		for i := range accts {
			accts[i] = randAccount(r)
			deps[i] = proto4.AccountDeposit{Account: accts[i], Amount: price.Mul64(uint64(1 + (base+i)%3))}
		}
		res, ferr := rhp4.RPCFundAccounts(ctx, h.transport, cs, h.renter[0], h.contracts[0], deps)
		if ferr != nil {
			return nil, counts, fmt.Errorf("concurrent section: fund: %w", ferr)
		}
		h.contracts[0].Revision = res.Revision
		for i, a := range accts {
			succ := race(nA, func(int) error { return h.ec.DebitAccount(a, usage) })
			left, _ := h.ec.AccountBalance(a)
			removed, under := deps[i].Amount.SubWithUnderflow(left)
			if under {
				removed = types.ZeroCurrency
			}
			report("same-account", nA, 1+(base+i)%3, succ, removed, deps[i].Amount)
		}
	}

	// B. two accounts sharing one pool, 4 + 4 concurrent DebitAccount calls, pool funds for k
	for base := 0; base < nPools; base += 500 {
		m := min(500, nPools-base)
		k := 1 + (base/500)%3
		keys := make([]types.PrivateKey, m)
		pools := make([]proto4.Account, m)
		a1, a2 := make([]proto4.Account, m), make([]proto4.Account, m)
		var in []rhp4.PoolAttachInput
		for i := range keys {
			keys[i] = keyFrom(r)
			pools[i] = proto4.Account(keys[i].PublicKey())
			a1[i], a2[i] = randAccount(r), randAccount(r)
			in = append(in, rhp4.PoolAttachInput{Account: a1[i], PoolKey: keys[i]}, rhp4.PoolAttachInput{Account: a2[i], PoolKey: keys[i]})
		}
		funded := price.Mul64(uint64(k))
		res, rerr := rhp4.RPCReplenishPools(ctx, h.transport, rhp4.RPCReplenishPoolsParams{Pools: pools, Target: funded, Contract: h.contracts[0]}, cs, h.renter[0])
		if rerr != nil {
			return nil, counts, fmt.Errorf("concurrent section: replenish pools: %w", rerr)
		}
		h.contracts[0].Revision = res.Revision
		if aerr := rhp4.RPCAttachPools(ctx, h.transport, in, time.Hour); aerr != nil {
			return nil, counts, fmt.Errorf("concurrent section: attach: %w", aerr)
		}
		for i := range pools {
			succ := race(8, func(j int) error {
				if j%2 == 0 {
					return h.ec.DebitAccount(a1[i], usage)
				}
				return h.ec.DebitAccount(a2[i], usage)
			})
			left, _ := h.ec.PoolBalances([]proto4.Account{pools[i]})
			removed, under := funded.SubWithUnderflow(left[0])
			if under {
				removed = types.ZeroCurrency
			}
			report("shared-pool", 8, k, succ, removed, funded)
		}
	}

	// C. real RPCs on parallel streams
	if nRPC > 0 {
		hostPub := h.hostKey.PublicKey()
		vcost := h.prices.RPCVerifySectorCost().RenterCost()
		data := make([]byte, 4096)
		r.Bytes(data)
		wkey := keyFrom(r)
		wcost := h.prices.RPCWriteSectorCost(uint64(len(data))).RenterCost()
		res, ferr := rhp4.RPCFundAccounts(ctx, h.transport, cs, h.renter[0], h.contracts[0], []proto4.AccountDeposit{{Account: proto4.Account(wkey.PublicKey()), Amount: wcost}})
		if ferr != nil {
			return nil, counts, fmt.Errorf("concurrent section: fund writer: %w", ferr)
		}
		h.contracts[0].Revision = res.Revision
		wres, werr := rhp4.RPCWriteSector(ctx, h.transport, h.prices, proto4.NewAccountToken(wkey, hostPub), bytes.NewReader(data), uint64(len(data)))
		if werr != nil {
			return nil, counts, fmt.Errorf("concurrent section: write: %w", werr)
		}
		const nC = 6
		for round := 0; round < nRPC; round++ {
			k := 1 + round%3
			funded := vcost.Mul64(uint64(k))
			k1, k2 := keyFrom(r), keyFrom(r)
			acc1, acc2 := proto4.Account(k1.PublicKey()), proto4.Account(k2.PublicKey())
			variant := "rpc-same-account"
			var poolKey types.PrivateKey
			if round%2 == 1 {
				variant = "rpc-shared-pool"
				poolKey = keyFrom(r)
				pres, perr := rhp4.RPCReplenishPools(ctx, h.transport, rhp4.RPCReplenishPoolsParams{Pools: []proto4.Account{proto4.Account(poolKey.PublicKey())}, Target: funded, Contract: h.contracts[0]}, cs, h.renter[0])
				if perr != nil {
					return nil, counts, fmt.Errorf("concurrent section: replenish: %w", perr)
				}
				h.contracts[0].Revision = pres.Revision
				if aerr := rhp4.RPCAttachPools(ctx, h.transport, []rhp4.PoolAttachInput{{Account: acc1, PoolKey: poolKey}, {Account: acc2, PoolKey: poolKey}}, time.Hour); aerr != nil {
					return nil, counts, fmt.Errorf("concurrent section: attach: %w", aerr)
				}
			} else {
				fres, ferr := rhp4.RPCFundAccounts(ctx, h.transport, cs, h.renter[0], h.contracts[0], []proto4.AccountDeposit{{Account: acc1, Amount: funded}})
				if ferr != nil {
					return nil, counts, fmt.Errorf("concurrent section: fund: %w", ferr)
				}
				h.contracts[0].Revision = fres.Revision
				k2 = k1
			}
			h.rec.quiesce()
			h.rec.take()
			t1, t2 := proto4.NewAccountToken(k1, hostPub), proto4.NewAccountToken(k2, hostPub)
			succ := race(nC, func(j int) error {
				tok := t1
				if j%2 == 1 {
					tok = t2
				}
				c2, cancel := context.WithTimeout(ctx, 30*time.Second)
				defer cancel()
				_, err := rhp4.RPCVerifySector(c2, h.transport, h.prices, tok, wres.Root)
				return err
			})
			h.rec.settle()
			debits, reads := 0, 0
			for _, c := range h.rec.take() {
				if c.Kind == "debit" && c.Err == nil {
					debits++
				} else if c.Kind == "read" {
					reads++
				}
			}
			var left types.Currency
			if poolKey != nil {
				b, _ := h.ec.PoolBalances([]proto4.Account{proto4.Account(poolKey.PublicKey())})
				left = b[0]
			} else {
				left, _ = h.ec.AccountBalance(acc1)
			}
			removed, under := funded.SubWithUnderflow(left)
			if under {
				removed = types.ZeroCurrency
			}
			counts["concurrent:"+variant+":rounds"]++
			if succ != k || debits != succ || reads != succ || !removed.Equals(vcost.Mul64(uint64(succ))) {
				counts["concurrent:"+variant+":broken"]++
				if len(fails) < 3 {
					fails = append(fails, concFail{"concurrent-debits-not-atomic",
						fmt.Sprintf("%s: %d parallel RPCVerifySector streams on funds of %d x price: %d clients served, %d DebitAccount successes, %d ReadSector calls, %v removed (price %v)", variant, nC, k, succ, debits, reads, removed, vcost),
						map[string]any{"section": "concurrent", "variant": variant, "n": nC, "k": k, "successes": succ}})
				}
			}
		}
	}
	return fails, counts, nil
}
