package main

// The real host of the C15 harness: chain manager, two separate wallets, the
// reference Contractor and sector store of coreutils/testutil behind recording
// wrappers, an rhp4.Server served over siamux on loopback TCP, and a real
// client transport.

import (
	"context"
	"fmt"
	"net"
	"sync"
	"time"

	proto4 "go.sia.tech/core/rhp/v4"
	"go.sia.tech/core/types"
	coreutils "go.sia.tech/coreutils"
	"go.sia.tech/coreutils/chain"
	rhp4 "go.sia.tech/coreutils/rhp/v4"
	"go.sia.tech/coreutils/rhp/v4/siamux"
	"go.sia.tech/coreutils/testutil"
	"go.sia.tech/coreutils/wallet"
	"go.uber.org/zap"
	"verif/harness/internal/rng"
)

// ---- recording wrappers -------------------------------------------------

// A call is one call of the host into its Contractor or sector store.
type call struct {
	Kind     string // debit creditA creditP attach detach revise read store has
	Account  proto4.Account
	Cost     types.Currency
	Deposits []proto4.AccountDeposit
	Contract types.FileContractID
	Prev     types.V2FileContract // the revision persisted before this call
	Rev      types.V2FileContract
	Attach   []proto4.PoolAttachment
	Detach   []proto4.PoolDetachment
	Root     types.Hash256
	Err      error
}

type recorder struct {
	mu     sync.Mutex
	calls  []call
	last   map[types.FileContractID]types.V2FileContract // last persisted revision per contract
	locked int
}

func (r *recorder) add(c call) {
	r.mu.Lock()
	r.calls = append(r.calls, c)
	r.mu.Unlock()
}

func (r *recorder) take() []call {
	r.mu.Lock()
	defer r.mu.Unlock()
	cs := r.calls
	r.calls = nil
	return cs
}

func (r *recorder) persisted(id types.FileContractID, rev types.V2FileContract) (prev types.V2FileContract) {
	r.mu.Lock()
	defer r.mu.Unlock()
	prev = r.last[id]
	r.last[id] = rev
	return
}

// quiesce waits until the handler of the last RPC has released its contract lock.
func (r *recorder) quiesce() {
	for i := 0; i < 20000; i++ {
		r.mu.Lock()
		n := r.locked
		r.mu.Unlock()
		if n == 0 {
			return
		}
		time.Sleep(100 * time.Microsecond)
	}
}

// settle waits until the handler of an abandoned stream has come to rest: no new call for
// 15 ms, and no successful debit still waiting for its sector call (that one gets 300 ms).
func (r *recorder) settle() {
	last, since := -1, time.Now()
	for end := time.Now().Add(2 * time.Second); time.Now().Before(end); time.Sleep(time.Millisecond) {
		r.mu.Lock()
		n, pending := len(r.calls), false
		for i := n - 1; i >= 0; i-- {
			if c := r.calls[i]; c.Kind == "read" || c.Kind == "store" {
				break
			} else if c.Kind == "debit" && c.Err == nil {
				pending = true
				break
			}
		}
		r.mu.Unlock()
		if n != last {
			last, since = n, time.Now()
		}
		if idle := time.Since(since); !pending && idle > 15*time.Millisecond || idle > 300*time.Millisecond {
			return
		}
	}
}

type recContractor struct {
	rhp4.Contractor
	rec *recorder
}

func (c *recContractor) LockV2Contract(id types.FileContractID) (rhp4.RevisionState, func(), error) {
	rs, unlock, err := c.Contractor.LockV2Contract(id)
	if err != nil {
		return rs, unlock, err
	}
	c.rec.mu.Lock()
	c.rec.locked++
	c.rec.mu.Unlock()
	var once sync.Once
	return rs, func() {
		unlock()
		once.Do(func() {
			c.rec.mu.Lock()
			c.rec.locked--
			c.rec.mu.Unlock()
		})
	}, nil
}

func (c *recContractor) DebitAccount(a proto4.Account, u proto4.Usage) error {
	err := c.Contractor.DebitAccount(a, u)
	c.rec.add(call{Kind: "debit", Account: a, Cost: u.RenterCost(), Err: err})
	return err
}

func (c *recContractor) CreditAccountsWithContract(d []proto4.AccountDeposit, id types.FileContractID, rev types.V2FileContract, u proto4.Usage) ([]types.Currency, error) {
	b, err := c.Contractor.CreditAccountsWithContract(d, id, rev, u)
	cl := call{Kind: "creditA", Deposits: append([]proto4.AccountDeposit(nil), d...), Contract: id, Rev: rev, Err: err}
	if err == nil {
		cl.Prev = c.rec.persisted(id, rev)
	}
	c.rec.add(cl)
	return b, err
}

func (c *recContractor) CreditPoolsWithContract(d []proto4.AccountDeposit, id types.FileContractID, rev types.V2FileContract, u proto4.Usage) ([]types.Currency, error) {
	b, err := c.Contractor.CreditPoolsWithContract(d, id, rev, u)
	cl := call{Kind: "creditP", Deposits: append([]proto4.AccountDeposit(nil), d...), Contract: id, Rev: rev, Err: err}
	if err == nil {
		cl.Prev = c.rec.persisted(id, rev)
	}
	c.rec.add(cl)
	return b, err
}

func (c *recContractor) ReviseV2Contract(id types.FileContractID, rev types.V2FileContract, roots []types.Hash256, u proto4.Usage) error {
	err := c.Contractor.ReviseV2Contract(id, rev, roots, u)
	cl := call{Kind: "revise", Contract: id, Rev: rev, Err: err}
	if err == nil {
		cl.Prev = c.rec.persisted(id, rev)
	}
	c.rec.add(cl)
	return err
}

func (c *recContractor) AttachPools(a []proto4.PoolAttachment) error {
	err := c.Contractor.AttachPools(a)
	c.rec.add(call{Kind: "attach", Attach: append([]proto4.PoolAttachment(nil), a...), Err: err})
	return err
}

func (c *recContractor) DetachPools(d []proto4.PoolDetachment) error {
	err := c.Contractor.DetachPools(d)
	c.rec.add(call{Kind: "detach", Detach: append([]proto4.PoolDetachment(nil), d...), Err: err})
	return err
}

type recSectors struct {
	rhp4.Sectors
	rec *recorder
}

func (s *recSectors) ReadSector(root types.Hash256, offset, length uint64) ([]byte, []types.Hash256, error) {
	d, p, err := s.Sectors.ReadSector(root, offset, length)
	s.rec.add(call{Kind: "read", Root: root, Err: err})
	return d, p, err
}

func (s *recSectors) StoreSector(root types.Hash256, data *[proto4.SectorSize]byte, subtrees []types.Hash256, exp uint64) error {
	err := s.Sectors.StoreSector(root, data, subtrees, exp)
	s.rec.add(call{Kind: "store", Root: root, Err: err})
	return err
}

// ---- the host -------------------------------------------------------------

type walletSigner struct {
	w  *wallet.SingleAddressWallet
	pk types.PrivateKey
}

func (fs *walletSigner) FundV2Transaction(txn *types.V2Transaction, amount types.Currency) (types.ChainIndex, []int, error) {
	return fs.w.FundV2Transaction(txn, amount, true)
}
func (fs *walletSigner) RecommendedFee() types.Currency               { return fs.w.RecommendedFee() }
func (fs *walletSigner) ReleaseInputs(txns []types.V2Transaction)     { fs.w.ReleaseInputs(nil, txns) }
func (fs *walletSigner) SignV2Inputs(t *types.V2Transaction, i []int) { fs.w.SignV2Inputs(t, i) }
func (fs *walletSigner) SignHash(h types.Hash256) types.Signature     { return fs.pk.SignHash(h) }

type hostEnv struct {
	cm        *chain.Manager
	hw, rw    *wallet.SingleAddressWallet
	hostKey   types.PrivateKey
	renter    [2]types.PrivateKey // one renter key per contract
	stranger  types.PrivateKey
	ec        *testutil.EphemeralContractor
	ss        *testutil.EphemeralSectorStore
	rec       *recorder
	transport rhp4.TransportClient
	prices    proto4.HostPrices
	settings  proto4.HostSettings
	contracts [2]rhp4.ContractRevision
	shared    [2][]byte // contents of the two sectors shared by all scenarios on this host
	closers   []func()
}

func keyFrom(r *rng.R) types.PrivateKey {
	seed := make([]byte, 32)
	r.Bytes(seed)
	return types.NewPrivateKeyFromSeed(seed)
}

func newWallet(cm *chain.Manager, key types.PrivateKey) (*wallet.SingleAddressWallet, func(), error) {
	ws := testutil.NewEphemeralWalletStore()
	w, err := wallet.NewSingleAddressWallet(key, cm, ws, &testutil.MockSyncer{})
	if err != nil {
		return nil, nil, err
	}
	reorgCh := make(chan struct{}, 1)
	done := make(chan struct{})
	go func() {
		for {
			select {
			case <-done:
				return
			case <-reorgCh:
			}
			tip, err := ws.Tip()
			if err != nil {
				continue
			}
			reverted, applied, err := cm.UpdatesSince(tip, 1000)
			if err != nil {
				continue
			}
			ws.UpdateChainState(func(tx wallet.UpdateTx) error { return w.UpdateChainState(tx, reverted, applied) })
		}
	}()
	stop := cm.OnReorg(func(types.ChainIndex) {
		select {
		case reorgCh <- struct{}{}:
		default:
		}
	})
	return w, func() { stop(); close(done); w.Close() }, nil
}

func (h *hostEnv) mine(addr types.Address, n int) error {
	for ; n > 0; n-- {
		b, ok := coreutils.MineBlock(h.cm, addr, 5*time.Second)
		if !ok {
			return fmt.Errorf("failed to mine a block")
		}
		if err := h.cm.AddBlocks([]types.Block{b}); err != nil {
			return err
		}
	}
	// wait for the wallets and the contractor to follow
	for i := 0; i < 50000; i++ {
		t1, _ := h.hw.Tip()
		t2, _ := h.rw.Tip()
		t3 := h.cm.Tip()
		ok := t1 == t3 && t2 == t3
		if h.ec != nil {
			t4, _ := h.ec.Tip()
			ok = ok && t4 == t3
		}
		if ok {
			return nil
		}
		time.Sleep(200 * time.Microsecond)
	}
	return fmt.Errorf("wallets did not sync")
}

// newHost builds a host with the given prices; all keys come from r.
func newHost(r *rng.R, prices proto4.HostPrices) (*hostEnv, error) {
	h := &hostEnv{rec: &recorder{last: map[types.FileContractID]types.V2FileContract{}}}
	n, genesis := testutil.V2Network()
	db, tipstate, err := chain.NewDBStore(chain.NewMemDB(), n, genesis, nil)
	if err != nil {
		return nil, err
	}
	h.cm = chain.NewManager(db, tipstate)
	h.hostKey, h.renter[0], h.renter[1], h.stranger = keyFrom(r), keyFrom(r), keyFrom(r), keyFrom(r)
	var cl func()
	if h.hw, cl, err = newWallet(h.cm, keyFrom(r)); err != nil {
		return nil, err
	}
	h.closers = append(h.closers, cl)
	if h.rw, cl, err = newWallet(h.cm, keyFrom(r)); err != nil {
		return nil, err
	}
	h.closers = append(h.closers, cl)
	if err := h.mine(h.hw.Address(), 8); err != nil {
		return nil, err
	}
	if err := h.mine(h.rw.Address(), 24); err != nil {
		return nil, err
	}
	if err := h.mine(types.VoidAddress, int(n.MaturityDelay)+1); err != nil {
		return nil, err
	}

	sr := testutil.NewEphemeralSettingsReporter()
	sr.Update(proto4.HostSettings{
		Release:             "verif",
		AcceptingContracts:  true,
		WalletAddress:       h.hw.Address(),
		MaxCollateral:       types.Siacoins(10000),
		MaxContractDuration: 1000,
		RemainingStorage:    100 * proto4.SectorSize,
		TotalStorage:        100 * proto4.SectorSize,
		Prices:              prices,
	})
	h.ss = testutil.NewEphemeralSectorStore()
	h.ec = testutil.NewEphemeralContractor(h.cm)
	h.closers = append(h.closers, func() { h.ec.Close() })
	srv := rhp4.NewServer(h.hostKey, h.cm, &recContractor{h.ec, h.rec}, h.hw, sr, &recSectors{h.ss, h.rec}, rhp4.WithPriceTableValidity(2*time.Hour))
	l, err := net.Listen("tcp", "127.0.0.1:0")
	if err != nil {
		return nil, err
	}
	h.closers = append(h.closers, func() { l.Close() })
	go siamux.Serve(l, srv, zap.NewNop())
	h.transport, err = siamux.Dial(context.Background(), l.Addr().String(), h.hostKey.PublicKey())
	if err != nil {
		return nil, err
	}
	h.closers = append(h.closers, func() { h.transport.Close() })
	h.settings, err = rhp4.RPCSettings(context.Background(), h.transport)
	if err != nil {
		return nil, err
	}
	h.prices = h.settings.Prices
	for i := range h.shared {
		h.shared[i] = make([]byte, sectorLens[i])
		r.Bytes(h.shared[i])
	}
	return h, nil
}

func (h *hostEnv) close() {
	for i := len(h.closers) - 1; i >= 0; i-- {
		h.closers[i]()
	}
}

// form creates contract i with the given allowance (a fresh contract replaces the old one).
func (h *hostEnv) form(i int, allowance, collateral types.Currency, proofDelta uint64) error {
	fs := &walletSigner{h.rw, h.renter[i]}
	res, err := rhp4.RPCFormContract(context.Background(), h.transport, h.cm, fs, h.cm.TipState(), h.prices, h.hostKey.PublicKey(), h.settings.WalletAddress, proto4.RPCFormContractParams{
		RenterPublicKey: h.renter[i].PublicKey(),
		RenterAddress:   h.rw.Address(),
		Allowance:       allowance,
		Collateral:      collateral,
		ProofHeight:     h.cm.Tip().Height + proofDelta,
	})
	if err != nil {
		return fmt.Errorf("form contract %d: %w", i, err)
	}
	h.contracts[i] = res.Contract
	h.rec.persisted(res.Contract.ID, res.Contract.Revision)
	h.rec.take()
	return h.mine(types.VoidAddress, 1)
}

// state returns what the host itself reports for contract i (revision, revisable, renewed).
func (h *hostEnv) state(i int) (rhp4.RevisionState, error) {
	rs, unlock, err := h.ec.LockV2Contract(h.contracts[i].ID)
	if err != nil {
		return rhp4.RevisionState{}, err
	}
	unlock()
	return rs, nil
}

// renewalExists asks the Contractor whether a renewal of the contract is known.
func (h *hostEnv) renewalExists(id types.FileContractID) bool {
	_, unlock, err := h.ec.LockV2Contract(id.V2RenewalID())
	if err != nil {
		return false
	}
	unlock()
	return true
}

// expire makes contract i unrevisable: the chain is mined up to its proof height, or
// (mode "renew", and whenever the proof height is far away) the contract is renewed.
func (h *hostEnv) expire(i int, mode string) error {
	rs, err := h.state(i)
	if err != nil {
		return err
	}
	if !rs.Revisable {
		return nil
	}
	tip := h.cm.Tip().Height
	if mode == "height-1" {
		// one block short of the proof height: still revisable
		if rs.Revision.ProofHeight > tip+1 && rs.Revision.ProofHeight <= tip+40 {
			return h.mine(types.VoidAddress, int(rs.Revision.ProofHeight-tip-1))
		}
		return nil
	}
	if mode == "height" && rs.Revision.ProofHeight <= tip+40 {
		if err := h.mine(types.VoidAddress, int(rs.Revision.ProofHeight-tip)); err != nil {
			return err
		}
	} else {
		fs := &walletSigner{h.rw, h.renter[i]}
		ph := max(rs.Revision.ProofHeight+1, max(tip, h.prices.TipHeight)+proto4.MinContractDuration+2)
		_, err := rhp4.RPCRenewContract(context.Background(), h.transport, h.cm, fs, h.cm.TipState(), h.prices, h.settings.WalletAddress, rs.Revision, proto4.RPCRenewContractParams{
			ContractID:  h.contracts[i].ID,
			Allowance:   h.prices.RPCWriteSectorCost(proto4.SectorSize).RenterCost(),
			Collateral:  types.ZeroCurrency,
			ProofHeight: ph,
		})
		if err != nil {
			return fmt.Errorf("renew contract %d: %w", i, err)
		}
		if err := h.mine(types.VoidAddress, 1); err != nil {
			return err
		}
	}
	h.rec.quiesce()
	h.rec.take()
	if rs, err = h.state(i); err != nil {
		return err
	} else if rs.Revisable {
		return fmt.Errorf("contract %d is still revisable after %s", i, mode)
	}
	return nil
}

// stored returns the revision the host itself holds for contract i.
func (h *hostEnv) stored(i int) (types.V2FileContract, error) {
	rs, unlock, err := h.ec.LockV2Contract(h.contracts[i].ID)
	if err != nil {
		return types.V2FileContract{}, err
	}
	unlock()
	return rs.Revision, nil
}
