package main

// Directed scenarios of the generalisation dimensions (see ext.go).

import (
	"fmt"
	"math/big"

	proto4 "go.sia.tech/core/rhp/v4"
)

type extPlan struct {
	family string
	plan   func(*scen) []opDesc
}

func mul(b *big.Int, n int64) string { return new(big.Int).Mul(b, big.NewInt(n)).String() }

func fundOp(c, k int, amt string) opDesc {
	return opDesc{Kind: "fund", C: c, Deps: []depDesc{{K: k, Amt: amt}}, Signer: "ok"}
}

func attachOp(a int, pools ...int) opDesc {
	o := opDesc{Kind: "attach"}
	for _, p := range pools {
		o.Es = append(o.Es, entryDesc{A: a, P: p, VU: 1, Signer: "pool"})
	}
	return o
}

func blind(ops ...opDesc) []opDesc {
	for i := range ops {
		ops[i].Blind = true
	}
	return ops
}

func repeatDeps(k, n int) []depDesc {
	d := make([]depDesc, n)
	for i := range d {
		d[i] = depDesc{K: k, Amt: "1"}
	}
	return d
}

func repeatKeys(k, n int) []int {
	ks := make([]int, n)
	for i := range ks {
		ks[i] = k
	}
	return ks
}

func extPlans() []extPlan {
	var ps []extPlan
	add := func(family string, plan func(*scen) []opDesc) { ps = append(ps, extPlan{family, plan}) }
	w := func(a, sector int) opDesc { return opDesc{Kind: "write", A: a, Sector: sector, Token: "ok"} }

	// ---- 1. blind stretches: no read of the host's ledger between a change and its first
	// reader; the first reader is, in turn, a fund response, a replenish (its deposits), the
	// balance RPC, and the harness's direct read
	for i := 0; i < 8; i++ {
		i := i
		add("blind", func(sc *scen) []opDesc {
			a := 1 + i%3
			wc := sc.cost(w(a, 2))
			ops := []opDesc{fundOp(0, a, mul(wc, 2)), w(a, 2)}
			switch i % 4 {
			case 0:
				ops = append(ops, fundOp(0, a, "7")) // the response reports the balance
			case 1:
				ops = append(ops, opDesc{Kind: "replA", C: 0, Keys: []int{a}, Target: mul(wc, 2), Signer: "ok"}) // the deposit reveals it
			case 2:
				ops = append(ops, opDesc{Kind: "balance", A: a})
			}
			ops = blind(ops...)
			if i >= 4 {
				// the same through a pool
				ops = blind(opDesc{Kind: "replP", C: 0, Keys: []int{6}, Target: mul(wc, 2), Signer: "ok"}, attachOp(a, 6), w(a, 2),
					opDesc{Kind: "replP", C: 0, Keys: []int{6, 6}, Target: mul(wc, 2), Signer: "ok"}, w(a, 3), opDesc{Kind: "balance", A: a})
			}
			return append(ops, w(a, 3), opDesc{Kind: "balance", A: a})
		})
	}

	// ---- 2. an RPC between the two phases of a replenish
	mids := []func(sc *scen) opDesc{
		func(sc *scen) opDesc { return fundOp(1, 1, "333") }, // other contract, same account
		func(sc *scen) opDesc { return fundOp(0, 1, "333") }, // same contract: locked
		func(sc *scen) opDesc {
			return opDesc{Kind: "replA", C: 1, Keys: []int{1, 2}, Target: "900", Signer: "ok"}
		}, // a second replenish of the same accounts
		func(sc *scen) opDesc { return w(1, 1) }, // a debit of the account being replenished
		func(sc *scen) opDesc { return attachOp(1, 4) },
		func(sc *scen) opDesc {
			return opDesc{Kind: "detach", Es: []entryDesc{{A: 1, P: 4, VU: 1, Signer: "acct"}}}
		},
		func(sc *scen) opDesc { return opDesc{Kind: "replP", C: 1, Keys: []int{4}, Target: "900", Signer: "ok"} },
		func(sc *scen) opDesc { return opDesc{Kind: "balance", A: 1} },
	}
	for i, m := range mids {
		i, m := i, m
		add("mid-replenish", func(sc *scen) []opDesc {
			wc := sc.cost(w(1, 1))
			mid := m(sc)
			kind, keys := "replA", []int{1, 2}
			if i%2 == 1 {
				kind, keys = "replP", []int{4, 5}
			}
			return []opDesc{
				fundOp(0, 1, wc.String()),
				{Kind: "replP", C: 0, Keys: []int{4}, Target: "100", Signer: "ok"},
				attachOp(1, 4),
				{Kind: kind, C: 0, Keys: keys, Target: new(big.Int).Add(wc, big.NewInt(900)).String(), Signer: "ok", Mid: &mid},
				w(1, 2),
				fundOp(0, 2, "5"),
			}
		})
	}

	// ---- 3. abort points of the contract-paid RPCs and of attach / detach
	for _, kc := range [][2]string{{"fund", "req-half"}, {"fund", "resp-unread"},
		{"replA", "req-half"}, {"replA", "after-deposits"}, {"replA", "sig-sent"},
		{"replP", "req-half"}, {"replP", "after-deposits"}, {"replP", "sig-sent"},
		{"attach", "req-half"}, {"attach", "resp-unread"}, {"detach", "req-half"}, {"detach", "resp-unread"}} {
		kind, cut := kc[0], kc[1]
		add("cut-contract-rpc", func(sc *scen) []opDesc {
			pre := []opDesc{fundOp(0, 1, "500"), {Kind: "replP", C: 0, Keys: []int{4, 5}, Target: "400", Signer: "ok"}, attachOp(2, 5)}
			var o opDesc
			switch kind {
			case "fund":
				o = opDesc{Kind: "fund", C: 0, Deps: []depDesc{{K: 1, Amt: "250"}, {K: 2, Amt: "1"}}, Signer: "ok"}
			case "replA":
				o = opDesc{Kind: "replA", C: 0, Keys: []int{1, 2, 1}, Target: "800", Signer: "ok"}
			case "replP":
				o = opDesc{Kind: "replP", C: 0, Keys: []int{4, 6}, Target: "800", Signer: "ok"}
			case "attach":
				o = attachOp(1, 4, 5)
			default:
				o = opDesc{Kind: "detach", Es: []entryDesc{{A: 2, P: 5, VU: 1, Signer: "pool"}}}
			}
			c := o
			c.Cut = cut
			// abandoned, then the same RPC to completion on the same contract (it must not be
			// locked), abandoned again
			return append(pre, c, o, c, fundOp(0, 3, "9"))
		})
	}

	// ---- 4./7. extreme and illegal request shapes
	for _, arg := range []string{"off-unaligned", "off-last", "full", "len0", "beyond", "off-mid"} {
		arg := arg
		add("extreme-args", func(sc *scen) []opDesc {
			rd := opDesc{Kind: "read", A: 2, Sector: 3, Token: "ok", Arg: arg, Len: 8192, Off: 4096}
			total := new(big.Int).Add(sc.cost(w(2, 3)), sc.cost(rd))
			total.Add(total, sc.cost(opDesc{Kind: "read", Len: 64}))
			return []opDesc{fundOp(0, 2, total.String()), w(2, 3), rd, {Kind: "read", A: 2, Sector: 3, Token: "ok", Len: 64, Off: 63936}, {Kind: "balance", A: 2}}
		})
	}
	for _, arg := range []string{"dlen0", "dlen-unaligned", "dlen-over"} {
		arg := arg
		add("extreme-args", func(sc *scen) []opDesc {
			return []opDesc{fundOp(0, 3, mul(sc.cost(w(3, 1)), 2)), {Kind: "write", A: 3, Sector: 1, Token: "ok", Arg: arg}, w(3, 1)}
		})
	}
	for _, arg := range []string{"leaf-last", "leaf-over"} {
		arg := arg
		add("extreme-args", func(sc *scen) []opDesc {
			v := opDesc{Kind: "verify", A: 1, Sector: 1, Token: "ok", Arg: arg}
			total := new(big.Int).Add(sc.cost(w(1, 1)), sc.cost(v))
			return []opDesc{fundOp(0, 1, total.String()), w(1, 1), v, {Kind: "verify", A: 1, Sector: 1, Token: "ok"}}
		})
	}
	add("extreme-args", func(sc *scen) []opDesc { // one deposit of the largest currency: the contract cannot pay it
		return []opDesc{{Kind: "fund", C: 0, Deps: []depDesc{{K: 1, Amt: maxCurrency}}, Signer: "ok", Arg: "raw"}, fundOp(0, 1, "5")}
	})
	add("extreme-args", func(sc *scen) []opDesc { // the sum of the deposits overflows
		return []opDesc{{Kind: "fund", C: 0, Deps: []depDesc{{K: 1, Amt: maxCurrency}, {K: 2, Amt: maxCurrency}}, Signer: "ok", Arg: "raw"}, fundOp(0, 1, "5")}
	})
	// the running sum wraps in the middle of the batch, at its end, and twice; the renter signs
	// for the wrapped total
	for _, amts := range [][]string{{maxCurrency, "1", "1"}, {"5", maxCurrency, "7", "9"}, {"1", "1", maxCurrency}, {maxCurrency, maxCurrency, "3"}, {maxCurrency, "1", maxCurrency, "1", "4"}} {
		amts := amts
		add("extreme-args", func(sc *scen) []opDesc {
			o := opDesc{Kind: "fund", C: 0, Signer: "ok", Arg: "wrap"}
			for i, a := range amts {
				o.Deps = append(o.Deps, depDesc{K: 1 + i, Amt: a}) // distinct keys: no balance overflows
			}
			return []opDesc{fundOp(0, 1, "50"), o, fundOp(0, 2, "5"), {Kind: "balance", A: 1}}
		})
	}
	add("extreme-args", func(sc *scen) []opDesc {
		return []opDesc{{Kind: "replA", C: 0, Keys: []int{1}, Target: maxCurrency, Signer: "ok", Arg: "raw"},
			{Kind: "replP", C: 0, Keys: []int{4, 5}, Target: maxCurrency, Signer: "ok", Arg: "raw"}, fundOp(0, 1, "5")}
	})
	batch := proto4.MaxAccountBatchSize
	add("extreme-args", func(sc *scen) []opDesc { // the largest legal batches, and one entry more
		return []opDesc{
			{Kind: "fund", C: 0, Deps: repeatDeps(1, batch), Signer: "ok"},
			{Kind: "fund", C: 0, Deps: repeatDeps(1, batch+1), Signer: "ok", Arg: "raw"},
			{Kind: "replA", C: 0, Keys: repeatKeys(2, batch), Target: "77", Signer: "ok"},
			{Kind: "replP", C: 0, Keys: repeatKeys(4, batch+1), Target: "77", Signer: "ok", Arg: "raw"},
			{Kind: "replP", C: 0, Keys: []int{4}, Target: "77", Signer: "ok"},
		}
	})
	add("extreme-args", func(sc *scen) []opDesc {
		big1, big2 := attachOp(1), attachOp(1)
		for i := 0; i < batch; i++ {
			big1.Es = append(big1.Es, entryDesc{A: 1 + i%3, P: 4 + i%2, VU: 1, Signer: "pool"})
		}
		big2.Es = append(append([]entryDesc(nil), big1.Es...), entryDesc{A: 1, P: 4, VU: 1, Signer: "pool"})
		big2.Arg = "raw"
		return []opDesc{{Kind: "replP", C: 0, Keys: []int{4, 5}, Target: "50", Signer: "ok"}, big2, big1}
	})

	// ---- 5. history
	add("history", func(sc *scen) []opDesc { // the bytes of an accepted fund request, sent again
		return []opDesc{{Kind: "fund", C: 0, Deps: []depDesc{{K: 1, Amt: "40"}}, Signer: "ok", Arg: "replay"}, fundOp(0, 1, "2"), {Kind: "balance", A: 1}}
	})
	add("history", func(sc *scen) []opDesc { // a short sector written after a long one and read back whole
		total := new(big.Int).Add(sc.cost(w(1, 3)), sc.cost(w(1, 2)))
		rd := opDesc{Kind: "read", A: 1, Sector: 2, Token: "ok", Arg: "full"}
		total.Add(total, sc.cost(rd))
		total.Add(total, sc.cost(opDesc{Kind: "verify"}))
		return []opDesc{fundOp(0, 1, total.String()), w(1, 3), w(1, 2), rd, {Kind: "verify", A: 1, Sector: 2, Token: "ok", Arg: "leaf-last"}}
	})
	add("history", func(sc *scen) []opDesc { // long attach / detach churn over shared pools, then partial drains
		ops := []opDesc{{Kind: "replP", C: 0, Keys: poolKeys, Target: mul(sc.cost(w(1, 2)), 1), Signer: "ok"}}
		for i := 0; i < 36; i++ {
			a, p := 1+i%3, poolKeys[(i*7+i/3)%4]
			if i%5 == 3 {
				ops = append(ops, opDesc{Kind: "detach", Es: []entryDesc{{A: a, P: p, VU: 1, Signer: []string{"pool", "acct"}[i%2]}}})
			} else {
				ops = append(ops, attachOp(a, p, poolKeys[(i+1)%4]))
			}
		}
		return append(ops, w(1, 2), w(2, 2), w(3, 2), w(1, 2))
	})

	// ---- 6. boundaries of a contract's life and funds
	add("boundary", func(sc *scen) []opDesc { // one block before the proof height the contract still pays
		return []opDesc{{Kind: "expire", C: 1, Mode: "height-1"}, fundOp(1, 1, "10"), {Kind: "replP", C: 1, Keys: []int{4}, Target: "10", Signer: "ok"},
			{Kind: "expire", C: 1, Mode: "height"}, fundOp(1, 1, "10"), {Kind: "replA", C: 1, Keys: []int{1}, Target: "30", Signer: "ok"}}
	})
	add("boundary", func(sc *scen) []opDesc { // the contract is drained to the last hasting, not beyond
		left := sc.ref.contract[1].Renter
		return []opDesc{fundOp(1, 2, new(big.Int).Sub(left, big.NewInt(1)).String()), fundOp(1, 2, "2"), fundOp(1, 2, "1"), fundOp(1, 2, "1"),
			{Kind: "replA", C: 1, Keys: []int{3}, Target: "1", Signer: "ok"}}
	})

	// ---- 8. topologies: a hub pool shared by all accounts; a ring of overlapping pools
	add("topology", func(sc *scen) []opDesc {
		wc := sc.cost(w(1, 2))
		return []opDesc{{Kind: "replP", C: 0, Keys: []int{4}, Target: mul(wc, 3), Signer: "ok"}, attachOp(1, 4), attachOp(2, 4), attachOp(3, 4),
			w(1, 2), {Kind: "detach", Es: []entryDesc{{A: 2, P: 4, VU: 1, Signer: "pool"}}}, w(2, 2), w(3, 2),
			{Kind: "detach", Es: []entryDesc{{A: 1, P: 4, VU: 1, Signer: "acct"}}}, w(3, 2), w(1, 2), w(3, 2)}
	})
	add("topology", func(sc *scen) []opDesc {
		wc := sc.cost(w(1, 2))
		half := new(big.Int).Div(new(big.Int).Mul(wc, big.NewInt(3)), big.NewInt(5)).String()
		return []opDesc{{Kind: "replP", C: 0, Keys: []int{4, 5, 6}, Target: half, Signer: "ok"},
			attachOp(1, 4, 5), attachOp(2, 5, 6), attachOp(3, 6, 4), w(1, 2), w(2, 2), w(3, 2),
			{Kind: "replP", C: 0, Keys: []int{4, 5, 6}, Target: half, Signer: "ok"}, w(3, 2), w(2, 2), w(1, 2)}
	})
	// a validly signed detach that names a pool which is not attached changes nothing, whether the
	// account has one link, two links, or none
	for i := 0; i < 6; i++ {
		i := i
		add("topology", func(sc *scen) []opDesc {
			wc := sc.cost(w(1, 2))
			signer := []string{"pool", "acct"}[i%2]
			ops := []opDesc{{Kind: "replP", C: 0, Keys: []int{4, 5, 6}, Target: mul(wc, 2), Signer: "ok"}}
			switch i / 2 {
			case 0:
				ops = append(ops, attachOp(1, 4)) // exactly one link
			case 1:
				ops = append(ops, attachOp(1, 4, 6))
			}
			other := opDesc{Kind: "detach", Es: []entryDesc{{A: 1, P: 5, VU: 1, Signer: signer}}}
			return append(ops, other, w(1, 2), other, attachOp(2, 5), opDesc{Kind: "detach", Es: []entryDesc{{A: 2, P: 4, VU: 1, Signer: "pool"}, {A: 1, P: 5, VU: 1, Signer: "pool"}}}, w(2, 2), w(1, 3))
		})
	}
	_ = fmt.Sprint
	return ps
}
