package main

// C15: accounts and pools are a conserved ledger; service is paid before delivery.
//
// A real rhp4.Server (reference Contractor and sector store of coreutils/testutil
// behind recording wrappers) is driven over siamux by the real client functions
// of coreutils/rhp/v4 (and by raw protocol messages where a dishonest renter is
// played) with sequences of fund, replenish (accounts and pools), attach, detach,
// read, write and verify RPCs over 3 accounts x 2 pools x 2 contracts.
//
// Monitors (oracle: a reference ledger kept by the harness from the property text,
// the price table evaluated with core's proto4 functions, and the call log of the
// wrappers) judge every step; the abstract sequence with everything observed is
// written as a case for the Coq model RHP/Accounts.v (correspondence).

import (
	"bytes"
	"context"
	"encoding/json"
	"fmt"
	"math/big"
	"os"
	"sort"
	"strings"
	"sync"
	"time"

	proto4 "go.sia.tech/core/rhp/v4"
	"go.sia.tech/core/types"
	rhp4 "go.sia.tech/coreutils/rhp/v4"
	"verif/harness/internal/hx"
	"verif/harness/internal/rng"
)

func main() { hx.Main("C15", runC15) }

const strangerKey = 9

// data lengths of the four sectors of a scenario (0,1 are shared by all scenarios
// of a host, 2,3 are fresh per scenario)
var sectorLens = [4]uint64{64, 4096, 8192, 64 * 1000}

// ---- operation descriptors (replayable) -------------------------------------

type entryDesc struct {
	A      int    `json:"a"`
	P      int    `json:"p"`
	VU     int    `json:"vu"`     // deadline code: 0 = already passed, n = n hours ahead
	Signer string `json:"signer"` // pool acct stranger replay-kind replay-acct replay-vu zero
}

type depDesc struct {
	K   int    `json:"k"`
	Amt string `json:"amt"`
}

type opDesc struct {
	Kind   string      `json:"op"` // fund replA replP attach detach read write verify
	C      int         `json:"c"`
	Deps   []depDesc   `json:"deps,omitempty"`
	Keys   []int       `json:"keys,omitempty"`
	Target string      `json:"target,omitempty"`
	Signer string      `json:"signer,omitempty"` // ok wrongkey stale wrongkey-rev
	Es     []entryDesc `json:"entries,omitempty"`
	A      int         `json:"a,omitempty"`
	Sector int         `json:"sector"`
	Len    uint64      `json:"len,omitempty"`   // read: bytes read from offset 0
	Token  string      `json:"token,omitempty"` // ok wrongkey other expired
	Mode   string      `json:"mode,omitempty"`  // expire: height (mine up to the proof height) | renew
	// read / write / verify abandoned by the renter: the stream is closed after half of the
	// request header (req-half), after the header of a write (req), after k bytes of the sector
	// data of a write (data:64, data:half, data:tail = all but 64 bytes), or -- the host has the
	// whole request -- when the first byte of the answer arrives (read/verify: req, write: data-all)
	Cut string `json:"cut,omitempty"`
	// Arg selects an extreme or illegal shape of the request (sent on a raw stream, without the
	// client's own validation): see ext.go
	Arg string `json:"arg,omitempty"`
	// Off is the offset of a read
	Off uint64 `json:"off,omitempty"`
	// Mid is an RPC run between the two phases of a replenish (after the host has announced the
	// deposits, before the renter signs)
	Mid *opDesc `json:"mid,omitempty"`
	// Blind: the harness does not read any host state after this step (no balance, no contract
	// state); the ledger is judged at the end of the blind stretch
	Blind bool `json:"blind,omitempty"`
}

func (o opDesc) String() string {
	s := o.str()
	if o.Arg != "" {
		s += "[" + o.Arg + "]"
	}
	if o.Cut != "" && o.Kind != "read" && o.Kind != "write" && o.Kind != "verify" {
		s += "[cut=" + o.Cut + "]"
	}
	if o.Mid != nil {
		s += "{mid: " + o.Mid.String() + "}"
	}
	if o.Blind {
		s += "*"
	}
	return s
}

func (o opDesc) str() string {
	switch o.Kind {
	case "balance":
		return fmt.Sprintf("balance(a%d)", o.A)
	case "fund":
		var ds []string
		for _, d := range o.Deps {
			ds = append(ds, fmt.Sprintf("%d+=%s", d.K, d.Amt))
		}
		return fmt.Sprintf("fund(c%d,%s,%s)", o.C, strings.Join(ds, ","), o.Signer)
	case "replA", "replP":
		return fmt.Sprintf("%s(c%d,%v,target=%s,%s)", o.Kind, o.C, o.Keys, o.Target, o.Signer)
	case "attach", "detach":
		var es []string
		for _, e := range o.Es {
			es = append(es, fmt.Sprintf("%d->%d/%s/vu%d", e.A, e.P, e.Signer, e.VU))
		}
		return fmt.Sprintf("%s(%s)", o.Kind, strings.Join(es, ","))
	case "read":
		if o.Cut != "" {
			return fmt.Sprintf("read(a%d,s%d,len=%d,%s,cut=%s)", o.A, o.Sector, o.Len, o.Token, o.Cut)
		}
		return fmt.Sprintf("read(a%d,s%d,len=%d,%s)", o.A, o.Sector, o.Len, o.Token)
	case "expire":
		return fmt.Sprintf("expire(c%d,%s)", o.C, o.Mode)
	}
	if o.Cut != "" {
		return fmt.Sprintf("%s(a%d,s%d,%s,cut=%s)", o.Kind, o.A, o.Sector, o.Token, o.Cut)
	}
	return fmt.Sprintf("%s(a%d,s%d,%s)", o.Kind, o.A, o.Sector, o.Token)
}

func bigOf(s string) *big.Int {
	b, ok := new(big.Int).SetString(s, 10)
	if !ok || b.Sign() < 0 {
		return new(big.Int)
	}
	return b
}

func curOf(b *big.Int) types.Currency {
	if b.Sign() <= 0 {
		return types.ZeroCurrency
	}
	lo := new(big.Int).And(b, new(big.Int).SetUint64(^uint64(0))).Uint64()
	hi := new(big.Int).Rsh(b, 64).Uint64()
	return types.NewCurrency(lo, hi)
}

func bigCur(c types.Currency) *big.Int { return c.Big() }

// ---- abstract events -----------------------------------------------------------

type event struct {
	Kind   string // credit revise debit attach detach read store
	Pool   bool
	K, P   int
	Amt    *big.Int
	Fr, To *big.Int
}

func z(b *big.Int) string { return "(" + b.String() + ")%Z" }

func (e event) coq() string {
	switch e.Kind {
	case "credit":
		return fmt.Sprintf("EvCredit %v %d %s", e.Pool, e.K, z(e.Amt))
	case "revise":
		return fmt.Sprintf("EvRevise %d %s %s", e.K, z(e.Fr), z(e.To))
	case "debit":
		return fmt.Sprintf("EvDebit %d %s", e.K, z(e.Amt))
	case "attach":
		return fmt.Sprintf("EvAttach %d %d", e.K, e.P)
	case "detach":
		return fmt.Sprintf("EvDetach %d %d", e.K, e.P)
	case "read":
		return fmt.Sprintf("EvRead %d", e.K)
	}
	return fmt.Sprintf("EvStore %d", e.K)
}

func eventsString(es []event) string {
	s := make([]string, len(es))
	for i, e := range es {
		s[i] = e.coq()
	}
	return "[" + strings.Join(s, "; ") + "]"
}

// ---- the reference ledger (oracle, written from the property text) ------------

type cview struct {
	RevNum       uint64
	Renter, Host *big.Int
	Revisable    bool // not renewed and the proof height not reached at the host's tip
}

type ledger struct {
	acct, pool map[int]*big.Int
	poolExists map[int]bool
	att        map[int][]int
	stored     [4]bool
	contract   [2]cview
}

func newLedger() *ledger {
	return &ledger{acct: map[int]*big.Int{}, pool: map[int]*big.Int{}, poolExists: map[int]bool{}, att: map[int][]int{}}
}

func (l *ledger) clone() *ledger {
	c := newLedger()
	for k, v := range l.acct {
		c.acct[k] = new(big.Int).Set(v)
	}
	for k, v := range l.pool {
		c.pool[k] = new(big.Int).Set(v)
	}
	for k, v := range l.poolExists {
		c.poolExists[k] = v
	}
	for k, v := range l.att {
		c.att[k] = append([]int(nil), v...)
	}
	c.stored = l.stored
	for i := range l.contract {
		c.contract[i] = cview{l.contract[i].RevNum, new(big.Int).Set(l.contract[i].Renter), new(big.Int).Set(l.contract[i].Host), l.contract[i].Revisable}
	}
	return c
}

func get(m map[int]*big.Int, k int) *big.Int {
	if v, ok := m[k]; ok {
		return v
	}
	return new(big.Int)
}

func (l *ledger) drawable(a int) *big.Int {
	d := new(big.Int).Set(get(l.acct, a))
	for _, p := range l.att[a] {
		d.Add(d, get(l.pool, p))
	}
	return d
}

// debit: own balance first, then the attached pools in attachment order; all or nothing.
func (l *ledger) debit(a int, cost *big.Int) bool {
	if l.drawable(a).Cmp(cost) < 0 {
		return false
	}
	rem := new(big.Int).Set(cost)
	take := func(m map[int]*big.Int, k int) {
		b := get(m, k)
		t := new(big.Int).Set(b)
		if t.Cmp(rem) > 0 {
			t.Set(rem)
		}
		if t.Sign() > 0 {
			m[k] = new(big.Int).Sub(b, t)
			rem.Sub(rem, t)
		}
	}
	take(l.acct, a)
	for _, p := range l.att[a] {
		take(l.pool, p)
	}
	return true
}

// what the reference expects of one step
type expect struct {
	ok      bool
	payload []*big.Int
	events  []event
	after   *ledger
	// classification used by the monitors
	insufficient bool // a priced RPC with a valid request whose drawable funds are below the cost
	badToken     bool
	unauthorized bool // attach/detach with an entry that is not validly signed (or expired / malformed)
	unrevisable  bool // a credit was requested against a contract that is no longer revisable
	cost         *big.Int
	boundary     int // drawable - cost if within [-1,1], else 99
}

func entryAuthorized(kind string, e entryDesc) bool {
	if e.A == e.P || e.VU == 0 {
		return false
	}
	switch e.Signer {
	case "pool":
		return true
	case "acct":
		return kind == "detach"
	}
	return false
}

func (sc *scen) cost(o opDesc) *big.Int {
	p := sc.h.prices
	switch o.Kind {
	case "read":
		return bigCur(p.RPCReadSectorCost(lenOf(o)).RenterCost())
	case "write":
		return bigCur(p.RPCWriteSectorCost(sectorLens[o.Sector]).RenterCost())
	case "verify":
		return bigCur(p.RPCVerifySectorCost().RenterCost())
	}
	return new(big.Int)
}

func (sc *scen) expected(o opDesc) expect {
	l := sc.ref.clone()
	ex := expect{after: l, boundary: 99}
	fail := func() expect { ex.ok = false; ex.after = sc.ref.clone(); ex.events = nil; ex.payload = nil; return ex }
	credit := func(pool bool, c int, deps []depDesc, amts []*big.Int) bool {
		total := new(big.Int)
		for _, a := range amts {
			total.Add(total, a)
		}
		cv := &l.contract[c]
		if cv.Renter.Cmp(total) < 0 {
			return false
		}
		if !cv.Revisable {
			// a revision of a renewed contract, or of one past its proof height, can
			// never move funds on chain: it matches no credit
			ex.unrevisable = true
			return false
		}
		m := l.acct
		if pool {
			m = l.pool
		}
		for i, d := range deps {
			m[d.K] = new(big.Int).Add(get(m, d.K), amts[i])
			if pool {
				l.poolExists[d.K] = true
			}
			ex.events = append(ex.events, event{Kind: "credit", Pool: pool, K: d.K, Amt: amts[i]})
		}
		cv.Renter = new(big.Int).Sub(cv.Renter, total)
		cv.Host = new(big.Int).Add(cv.Host, total)
		cv.RevNum++
		ex.events = append(ex.events, event{Kind: "revise", K: c, Fr: total, To: new(big.Int).Set(total)})
		return true
	}
	if illegalArg(o) {
		// structurally invalid: refused before anything is looked at
		if o.Kind == "read" || o.Kind == "write" || o.Kind == "verify" {
			ex.cost = sc.cost(o)
		}
		return fail()
	}
	switch o.Kind {
	case "balance":
		ex.ok = true
		ex.payload = []*big.Int{new(big.Int).Set(get(l.acct, o.A))}
	case "expire":
		if o.Mode != "height-1" {
			l.contract[o.C].Revisable = false
		}
		ex.ok = true
	case "fund":
		if o.Signer != "ok" || len(o.Deps) == 0 {
			return fail()
		}
		var amts []*big.Int
		for _, d := range o.Deps {
			a := bigOf(d.Amt)
			if a.Sign() == 0 {
				return fail()
			}
			amts = append(amts, a)
		}
		if !credit(false, o.C, o.Deps, amts) {
			return fail()
		}
		// the response lists the balance after each deposit
		run := sc.ref.clone()
		for i, d := range o.Deps {
			run.acct[d.K] = new(big.Int).Add(get(run.acct, d.K), amts[i])
			ex.payload = append(ex.payload, new(big.Int).Set(run.acct[d.K]))
		}
		ex.ok = true
	case "replA", "replP":
		pool := o.Kind == "replP"
		target := bigOf(o.Target)
		// a wrong or stale challenge signature is refused at once; a wrong revision
		// signature matters only if there is something to deposit
		if o.Signer == "wrongkey" || o.Signer == "stale" || len(o.Keys) == 0 || target.Sign() == 0 {
			return fail()
		}
		m := l.acct
		if pool {
			m = l.pool
		}
		// property: every listed key ends at max(balance, target); a key listed
		// again needs nothing more
		seen := map[int]bool{}
		var deps []depDesc
		var amts []*big.Int
		total := new(big.Int)
		for _, k := range o.Keys {
			d := new(big.Int)
			if !seen[k] && get(m, k).Cmp(target) < 0 {
				d.Sub(target, get(m, k))
			}
			seen[k] = true
			deps = append(deps, depDesc{K: k})
			amts = append(amts, d)
			total.Add(total, d)
		}
		ex.payload = amts
		ex.ok = true
		if !l.contract[o.C].Revisable {
			ex.unrevisable = true
			return fail()
		}
		if total.Sign() == 0 {
			return ex
		}
		if o.Signer != "ok" || !credit(pool, o.C, deps, amts) {
			return fail()
		}
	case "attach", "detach":
		if len(o.Es) == 0 {
			return fail()
		}
		for _, e := range o.Es {
			if !entryAuthorized(o.Kind, e) {
				ex.unauthorized = true
			}
		}
		if ex.unauthorized {
			return fail()
		}
		if o.Kind == "attach" {
			for _, e := range o.Es {
				if !l.poolExists[e.P] {
					return fail()
				}
			}
		}
		for _, e := range o.Es {
			links := l.att[e.A]
			idx := -1
			for i, p := range links {
				if p == e.P {
					idx = i
					break
				}
			}
			if o.Kind == "attach" {
				if idx < 0 {
					l.att[e.A] = append(links, e.P)
				}
				ex.events = append(ex.events, event{Kind: "attach", K: e.A, P: e.P})
			} else {
				if idx >= 0 {
					l.att[e.A] = append(append([]int(nil), links[:idx]...), links[idx+1:]...)
				}
				ex.events = append(ex.events, event{Kind: "detach", K: e.A, P: e.P})
			}
		}
		ex.ok = true
	case "read", "write", "verify":
		ex.cost = sc.cost(o)
		if o.Token != "ok" {
			ex.badToken = true
			return fail()
		}
		if o.Kind != "write" && !l.stored[o.Sector] {
			return fail()
		}
		d := new(big.Int).Sub(l.drawable(o.A), ex.cost)
		if d.IsInt64() && d.Int64() >= -1 && d.Int64() <= 1 {
			ex.boundary = int(d.Int64())
		}
		if !l.debit(o.A, ex.cost) {
			ex.insufficient = true
			return fail()
		}
		ex.events = []event{{Kind: "debit", K: o.A, Amt: ex.cost}}
		if o.Kind == "write" {
			l.stored[o.Sector] = true
			ex.events = append(ex.events, event{Kind: "store", K: o.Sector})
		} else {
			ex.events = append(ex.events, event{Kind: "read", K: o.Sector})
		}
		ex.ok = true
	}
	return ex
}

// ---- a scenario on a real host ---------------------------------------------------

type observed struct {
	ok      bool
	err     string
	payload []*big.Int
	calls   []call
	events  []event
	acct    map[int]*big.Int
	pool    map[int]*big.Int
	con     [2]cview
	dataOK  bool
	blind   bool
	unread  bool // the host completed an RPC whose answer the renter did not read
	locked  int  // index+1 of a contract the host can no longer lock (left locked by a handler)
}

type stepRec struct {
	op    opDesc
	coqOp string
	obs   observed
}

type scen struct {
	h       *hostEnv
	keys    map[int]types.PrivateKey
	idx     map[proto4.Account]int
	base    time.Time
	data    [4][]byte
	roots   [4]types.Hash256
	rootIdx map[types.Hash256]int
	ref     *ledger
	init    *ledger
	trace   []stepRec
	counts  map[string]int
	inBlind bool
	noCoq   bool // the scenario contains steps the model does not express (monitor-only)
}

// keys 1-3 are accounts, 4-7 pools (any key may occasionally play the other role)
var allKeys = []int{1, 2, 3, 4, 5, 6, 7}
var poolKeys = []int{4, 5, 6, 7}

func (sc *scen) acc(k int) proto4.Account { return proto4.Account(sc.keys[k].PublicKey()) }

func (sc *scen) deadline(vu int) time.Time {
	if vu == 0 {
		return sc.base.Add(-time.Hour)
	}
	return sc.base.Add(time.Duration(vu) * time.Hour)
}

func sectorRoot(data []byte) types.Hash256 {
	var sector [proto4.SectorSize]byte
	copy(sector[:], data)
	return proto4.SectorRoot(&sector)
}

func newScen(h *hostEnv, r *rng.R) (*scen, error) {
	sc := &scen{h: h, keys: map[int]types.PrivateKey{}, idx: map[proto4.Account]int{}, base: time.Now(),
		rootIdx: map[types.Hash256]int{}, ref: newLedger(), counts: map[string]int{}}
	for _, k := range allKeys {
		sc.keys[k] = keyFrom(r)
		sc.idx[sc.acc(k)] = k
	}
	sc.keys[strangerKey] = h.stranger
	sc.idx[sc.acc(strangerKey)] = strangerKey
	for i := range sc.data {
		if i < 2 {
			sc.data[i] = h.shared[i]
		} else {
			sc.data[i] = make([]byte, sectorLens[i])
			r.Bytes(sc.data[i])
		}
		sc.roots[i] = sectorRoot(sc.data[i])
		sc.rootIdx[sc.roots[i]] = i
		has, err := h.ss.HasSector(sc.roots[i])
		if err != nil {
			return nil, err
		}
		sc.ref.stored[i] = has
	}
	for i := range h.contracts {
		rs, err := h.state(i)
		if err != nil {
			return nil, err
		}
		rev := rs.Revision
		h.contracts[i].Revision = rev
		sc.ref.contract[i] = cview{rev.RevisionNumber, bigCur(rev.RenterOutput.Value), bigCur(rev.HostOutput.Value), rs.Revisable}
	}
	sc.init = sc.ref.clone()
	h.rec.take()
	return sc, nil
}

// symbolic terms
func sigTerm(k int, msg string) string { return fmt.Sprintf("(Sig %d (%s))", k, msg) }

func nlist(xs []int) string {
	s := make([]string, len(xs))
	for i, x := range xs {
		s[i] = fmt.Sprint(x)
	}
	return "[" + strings.Join(s, "; ") + "]"
}

func renterKeyID(c int) int { return 100 + c }

type scriptSigner struct {
	keys   []types.PrivateKey
	hashes []types.Hash256
}

func (s *scriptSigner) SignHash(h types.Hash256) types.Signature {
	k := s.keys[len(s.keys)-1]
	if len(s.hashes) < len(s.keys) {
		k = s.keys[len(s.hashes)]
	}
	s.hashes = append(s.hashes, h)
	return k.SignHash(h)
}

func rawRoundtrip(t rhp4.TransportClient, id types.Specifier, req, resp proto4.Object, extra []byte) error {
	ctx, cancel := context.WithTimeout(context.Background(), 20*time.Second)
	defer cancel()
	s, err := t.DialStream(ctx)
	if err != nil {
		return err
	}
	defer s.Close()
	s.SetDeadline(time.Now().Add(20 * time.Second))
	if err := proto4.WriteRequest(s, id, req); err != nil {
		return err
	}
	if extra != nil {
		if _, err := s.Write(extra); err != nil {
			return err
		}
	}
	return proto4.ReadResponse(s, resp)
}

// exec runs one operation against the real host and returns its abstract form.
func (sc *scen) exec(o opDesc) (coqOp string, ok bool, errStr string, payload []*big.Int, dataOK bool) {
	h := sc.h
	ctx, cancel := context.WithTimeout(context.Background(), 30*time.Second)
	defer cancel()
	cs := h.cm.TipState()
	dataOK = true
	fin := func(err error) {
		ok = err == nil
		if err != nil {
			errStr = err.Error()
		}
	}
	switch o.Kind {
	case "expire":
		if o.Mode != "height-1" {
			coqOp = fmt.Sprintf("Expire %d", o.C)
		}
		fin(h.expire(o.C, o.Mode))
	case "balance":
		b, err := rhp4.RPCAccountBalance(ctx, h.transport, sc.acc(o.A))
		fin(err)
		if err == nil {
			payload = []*big.Int{bigCur(b)}
		}
	case "fund":
		if o.Arg != "" || o.Cut != "" {
			return sc.execRawFund(o)
		}
		contract := h.contracts[o.C]
		signer, signerID := h.renter[o.C], renterKeyID(o.C)
		switch o.Signer {
		case "wrongkey":
			signer, signerID = h.stranger, strangerKey
		case "stale":
			contract.Revision.RevisionNumber++
		}
		var deps []proto4.AccountDeposit
		var ds []string
		total := types.ZeroCurrency
		for _, d := range o.Deps {
			amt := curOf(bigOf(d.Amt))
			deps = append(deps, proto4.AccountDeposit{Account: sc.acc(d.K), Amount: amt})
			ds = append(ds, fmt.Sprintf("(%d, %s)", d.K, z(bigCur(amt))))
			total = total.Add(amt)
		}
		rsig := "NoSig"
		if rev, _, rerr := proto4.ReviseForFundAccounts(contract.Revision, total); rerr == nil {
			rsig = sigTerm(signerID, fmt.Sprintf("MRevision %d %d %s %s", o.C, rev.RevisionNumber, z(bigCur(rev.RenterOutput.Value)), z(bigCur(rev.HostOutput.Value))))
		}
		coqOp = fmt.Sprintf("Fund %d [%s] %s", o.C, strings.Join(ds, "; "), rsig)
		res, err := rhp4.RPCFundAccounts(ctx, h.transport, cs, signer, contract, deps)
		fin(err)
		if err == nil {
			h.contracts[o.C].Revision = res.Revision
			for _, b := range res.Balances {
				payload = append(payload, bigCur(b.Balance))
			}
		}
	case "replA", "replP":
		if o.Arg != "" || o.Cut != "" || o.Mid != nil {
			return sc.execRawRepl(o, nil)
		}
		pool := o.Kind == "replP"
		contract := h.contracts[o.C]
		rk := h.renter[o.C]
		ss := &scriptSigner{keys: []types.PrivateKey{rk, rk}}
		ids := []int{renterKeyID(o.C), renterKeyID(o.C)}
		switch o.Signer {
		case "wrongkey":
			ss.keys = []types.PrivateKey{h.stranger, h.stranger}
			ids = []int{strangerKey, strangerKey}
		case "wrongkey-rev":
			ss.keys = []types.PrivateKey{rk, h.stranger}
			ids = []int{renterKeyID(o.C), strangerKey}
		case "stale":
			contract.Revision.RevisionNumber++
		}
		var accts []proto4.Account
		for _, k := range o.Keys {
			accts = append(accts, sc.acc(k))
		}
		target := curOf(bigOf(o.Target))
		chal := sigTerm(ids[0], fmt.Sprintf("MChallenge %d %s %s %d", o.C, nlist(o.Keys), z(bigCur(target)), contract.Revision.RevisionNumber))
		var rev types.V2FileContract
		var deposits []proto4.AccountDeposit
		var err error
		if pool {
			var res rhp4.RPCReplenishPoolsResult
			res, err = rhp4.RPCReplenishPools(ctx, h.transport, rhp4.RPCReplenishPoolsParams{Pools: accts, Target: target, Contract: contract}, cs, ss)
			rev, deposits = res.Revision, res.Deposits
		} else {
			var res rhp4.RPCReplenishAccountsResult
			res, err = rhp4.RPCReplenishAccounts(ctx, h.transport, rhp4.RPCReplenishAccountsParams{Accounts: accts, Target: target, Contract: contract}, cs, ss)
			rev, deposits = res.Revision, res.Deposits
		}
		fin(err)
		rsig := "NoSig"
		if len(ss.hashes) >= 2 {
			// the client signed a revision: name it
			rsig = sigTerm(ids[1], fmt.Sprintf("MRevision %d 0 (0)%%Z (0)%%Z", o.C))
			if err == nil && ss.hashes[1] == cs.ContractSigHash(rev) {
				rsig = sigTerm(ids[1], fmt.Sprintf("MRevision %d %d %s %s", o.C, rev.RevisionNumber, z(bigCur(rev.RenterOutput.Value)), z(bigCur(rev.HostOutput.Value))))
			}
		}
		coqOp = fmt.Sprintf("Replenish %v %d %s %s %s %s", pool, o.C, nlist(o.Keys), z(bigCur(target)), chal, rsig)
		if err == nil {
			if o.Signer != "stale" {
				h.contracts[o.C].Revision = rev
			}
			for _, d := range deposits {
				payload = append(payload, bigCur(d.Amount))
			}
		}
	case "attach", "detach":
		attach := o.Kind == "attach"
		hostPub := h.hostKey.PublicKey()
		var terms []string
		var atts []proto4.PoolAttachment
		var dets []proto4.PoolDetachment
		honest := len(o.Es) > 0
		var firstSig types.Signature
		firstTerm := "NoSig"
		for _, e := range o.Es {
			if !(e.VU == 1 && (e.Signer == "pool" || (!attach && e.Signer == "acct"))) {
				honest = false
			}
		}
		for _, e := range o.Es {
			// what is signed (sa, sp, svu, skind) may differ from what is claimed
			sa, sp, svu, skind, sk := e.A, e.P, e.VU, attach, e.P
			switch e.Signer {
			case "acct":
				sk = e.A
			case "stranger":
				sk = strangerKey
			case "replay-kind":
				skind = !attach
			case "replay-acct":
				sa = e.A%3 + 1
			case "replay-vu":
				svu = e.VU + 1
			}
			var sig types.Signature
			msg := "MDetach"
			if skind {
				msg = "MAttach"
				a := proto4.PoolAttachment{Account: sc.acc(sa), Pool: sc.acc(sp), ValidUntil: sc.deadline(svu)}
				sig = sc.keys[sk].SignHash(a.SigHash(hostPub))
			} else {
				d := proto4.PoolDetachment{Account: sc.acc(sa), Pool: sc.acc(sp), ValidUntil: sc.deadline(svu)}
				sig = sc.keys[sk].SignHash(d.SigHash(hostPub))
			}
			st := sigTerm(sk, fmt.Sprintf("%s %d %d %d", msg, sa, sp, svu))
			if e.Signer == "zero" {
				sig, st = types.Signature{}, "NoSig"
			}
			if e.Signer == "same-as-first" {
				sig, st = firstSig, firstTerm
			}
			if len(terms) == 0 {
				firstSig, firstTerm = sig, st
			}
			terms = append(terms, fmt.Sprintf("Entry %d %d %d %v %s", e.A, e.P, e.VU, e.VU == 0, st))
			if attach {
				atts = append(atts, proto4.PoolAttachment{Account: sc.acc(e.A), Pool: sc.acc(e.P), ValidUntil: sc.deadline(e.VU), Signature: sig})
			} else {
				dets = append(dets, proto4.PoolDetachment{Account: sc.acc(e.A), Pool: sc.acc(e.P), ValidUntil: sc.deadline(e.VU), Signature: sig})
			}
		}
		name := "Detach"
		if attach {
			name = "Attach"
		}
		coqOp = fmt.Sprintf("%s [%s]", name, strings.Join(terms, "; "))
		var err error
		switch {
		case o.Cut != "":
			var msg bytes.Buffer
			if attach {
				proto4.WriteRequest(&msg, proto4.RPCAttachPoolsID, &proto4.RPCAttachPoolsRequest{Attachments: atts})
			} else {
				proto4.WriteRequest(&msg, proto4.RPCDetachPoolsID, &proto4.RPCDetachPoolsRequest{Detachments: dets})
			}
			err = sc.sendCut(msg.Bytes(), o.Cut)
		case honest && attach && o.Arg == "":
			// the real client signs with the pool keys itself
			var in []rhp4.PoolAttachInput
			for _, e := range o.Es {
				in = append(in, rhp4.PoolAttachInput{Account: sc.acc(e.A), PoolKey: sc.keys[e.P]})
			}
			err = rhp4.RPCAttachPools(ctx, h.transport, in, time.Hour)
		case honest && o.Arg == "":
			var in []rhp4.PoolDetachInput
			for _, e := range o.Es {
				sk := e.P
				if e.Signer == "acct" {
					sk = e.A
				}
				in = append(in, rhp4.PoolDetachInput{Account: sc.acc(e.A), Pool: sc.acc(e.P), Signer: sc.keys[sk]})
			}
			err = rhp4.RPCDetachPools(ctx, h.transport, in, time.Hour)
		case attach:
			err = rawRoundtrip(h.transport, proto4.RPCAttachPoolsID, &proto4.RPCAttachPoolsRequest{Attachments: atts}, &proto4.RPCAttachPoolsResponse{}, nil)
		default:
			err = rawRoundtrip(h.transport, proto4.RPCDetachPoolsID, &proto4.RPCDetachPoolsRequest{Detachments: dets}, &proto4.RPCDetachPoolsResponse{}, nil)
		}
		fin(err)
	case "read", "write", "verify":
		hostPub := h.hostKey.PublicKey()
		vu, sk := 1, o.A
		switch o.Token {
		case "wrongkey":
			sk = strangerKey
		case "other":
			sk = o.A%3 + 1
		case "expired":
			vu = 0
		}
		tok := proto4.AccountToken{HostKey: hostPub, Account: sc.acc(o.A), ValidUntil: sc.deadline(vu)}
		tok.Signature = sc.keys[sk].SignHash(tok.SigHash())
		tterm := fmt.Sprintf("(Token %d %v %s)", vu, vu == 0, sigTerm(sk, fmt.Sprintf("MToken %d %d", o.A, vu)))
		cost := sc.cost(o)
		root := sc.roots[o.Sector]
		var err error
		if o.Cut != "" {
			// the renter abandons the RPC: send a prefix of what a complete RPC sends, wait,
			// close the stream
			var msg bytes.Buffer
			data := sc.data[o.Sector]
			switch o.Kind {
			case "read":
				coqOp = fmt.Sprintf("ReadSec %d %s %d %s", o.A, tterm, o.Sector, z(cost))
				proto4.WriteRequest(&msg, proto4.RPCReadSectorID, &proto4.RPCReadSectorRequest{Prices: h.prices, Token: tok, Root: root, Offset: 0, Length: o.Len})
			case "write":
				coqOp = fmt.Sprintf("WriteSec %d %s %d %s", o.A, tterm, o.Sector, z(cost))
				proto4.WriteRequest(&msg, proto4.RPCWriteSectorID, &proto4.RPCWriteSectorRequest{Prices: h.prices, Token: tok, DataLength: uint64(len(data))})
			default:
				coqOp = fmt.Sprintf("VerifySec %d %s %d %s", o.A, tterm, o.Sector, z(cost))
				proto4.WriteRequest(&msg, proto4.RPCVerifySectorID, &proto4.RPCVerifySectorRequest{Prices: h.prices, Token: tok, Root: root, LeafIndex: 5})
			}
			send := msg.Bytes()
			switch o.Cut {
			case "req-half":
				send = send[:len(send)/2]
			case "data:64":
				send = append(send, data[:64]...)
			case "data:half":
				send = append(send, data[:len(data)/2]...)
			case "data:tail":
				send = append(send, data[:len(data)-64]...)
			case "data-all":
				send = append(send, data...)
			}
			err = fmt.Errorf("abandoned (%s)", o.Cut)
			if st, derr := h.transport.DialStream(ctx); derr != nil {
				err = derr
			} else {
				st.SetDeadline(time.Now().Add(10 * time.Second))
				st.Write(send)
				if o.Kind != "write" && o.Cut == "req" || o.Cut == "data-all" {
					// the host has all it needs: the renter disappears once the answer
					// starts to arrive, without consuming it
					st.Read(make([]byte, 1))
				} else {
					time.Sleep(15 * time.Millisecond) // whatever the host does with this much, it has done by now
				}
				st.Close()
			}
			h.rec.settle()
			fin(err)
			return
		}
		if o.Arg != "" {
			return sc.execPricedArg(o, tok, tterm)
		}
		switch o.Kind {
		case "read":
			coqOp = fmt.Sprintf("ReadSec %d %s %d %s", o.A, tterm, o.Sector, z(cost))
			var buf bytes.Buffer
			if o.Token == "ok" {
				_, err = rhp4.RPCReadSector(ctx, h.transport, h.prices, tok, &buf, root, o.Off, o.Len)
			} else {
				var resp proto4.RPCReadSectorResponse
				err = rawRoundtrip(h.transport, proto4.RPCReadSectorID, &proto4.RPCReadSectorRequest{Prices: h.prices, Token: tok, Root: root, Offset: 0, Length: o.Len}, &resp, nil)
			}
			if err == nil && o.Token == "ok" {
				dataOK = bytes.Equal(buf.Bytes(), sc.sectorBytes(o.Sector, o.Off, o.Len))
			}
		case "write":
			coqOp = fmt.Sprintf("WriteSec %d %s %d %s", o.A, tterm, o.Sector, z(cost))
			data := sc.data[o.Sector]
			if o.Token == "ok" {
				var res rhp4.RPCWriteSectorResult
				res, err = rhp4.RPCWriteSector(ctx, h.transport, h.prices, tok, bytes.NewReader(data), uint64(len(data)))
				if err == nil {
					dataOK = res.Root == root
				}
			} else {
				var resp proto4.RPCWriteSectorResponse
				err = rawRoundtrip(h.transport, proto4.RPCWriteSectorID, &proto4.RPCWriteSectorRequest{Prices: h.prices, Token: tok, DataLength: uint64(len(data))}, &resp, data)
			}
		case "verify":
			coqOp = fmt.Sprintf("VerifySec %d %s %d %s", o.A, tterm, o.Sector, z(cost))
			if o.Token == "ok" {
				_, err = rhp4.RPCVerifySector(ctx, h.transport, h.prices, tok, root)
			} else {
				var resp proto4.RPCVerifySectorResponse
				err = rawRoundtrip(h.transport, proto4.RPCVerifySectorID, &proto4.RPCVerifySectorRequest{Prices: h.prices, Token: tok, Root: root, LeafIndex: 3}, &resp, nil)
			}
		}
		fin(err)
	}
	return
}

func (sc *scen) contractIdx(id types.FileContractID) int {
	for i := range sc.h.contracts {
		if sc.h.contracts[i].ID == id {
			return i
		}
	}
	return 99
}

func (sc *scen) keyIdx(a proto4.Account) int {
	if k, ok := sc.idx[a]; ok {
		return k
	}
	return 99
}

func (sc *scen) sectorIdx(r types.Hash256) int {
	if i, ok := sc.rootIdx[r]; ok {
		return i
	}
	return 99
}

// observe projects the call log and the host's own state onto the model's vocabulary.
func (sc *scen) observe(ob *observed) error {
	if err := sc.observeCalls(ob); err != nil || ob.blind {
		return err
	}
	return sc.observeState(ob)
}

func (sc *scen) observeCalls(ob *observed) error {
	h := sc.h
	h.rec.quiesce()
	ob.calls = h.rec.take()
	for _, c := range ob.calls {
		if c.Err != nil {
			continue
		}
		switch c.Kind {
		case "creditA", "creditP":
			for _, d := range c.Deposits {
				ob.events = append(ob.events, event{Kind: "credit", Pool: c.Kind == "creditP", K: sc.keyIdx(d.Account), Amt: bigCur(d.Amount)})
			}
			fallthrough
		case "revise":
			fr := new(big.Int).Sub(bigCur(c.Prev.RenterOutput.Value), bigCur(c.Rev.RenterOutput.Value))
			to := new(big.Int).Sub(bigCur(c.Rev.HostOutput.Value), bigCur(c.Prev.HostOutput.Value))
			ob.events = append(ob.events, event{Kind: "revise", K: sc.contractIdx(c.Contract), Fr: fr, To: to})
		case "debit":
			ob.events = append(ob.events, event{Kind: "debit", K: sc.keyIdx(c.Account), Amt: bigCur(c.Cost)})
		case "attach":
			for _, a := range c.Attach {
				ob.events = append(ob.events, event{Kind: "attach", K: sc.keyIdx(a.Account), P: sc.keyIdx(a.Pool)})
			}
		case "detach":
			for _, d := range c.Detach {
				ob.events = append(ob.events, event{Kind: "detach", K: sc.keyIdx(d.Account), P: sc.keyIdx(d.Pool)})
			}
		case "read":
			ob.events = append(ob.events, event{Kind: "read", K: sc.sectorIdx(c.Root)})
		case "store":
			ob.events = append(ob.events, event{Kind: "store", K: sc.sectorIdx(c.Root)})
		}
	}
	return nil
}

func (sc *scen) observeState(ob *observed) error {
	h := sc.h
	var accts []proto4.Account
	for _, k := range allKeys {
		accts = append(accts, sc.acc(k))
	}
	ab, err := h.ec.AccountBalances(accts)
	if err != nil {
		return err
	}
	pb, err := h.ec.PoolBalances(accts)
	if err != nil {
		return err
	}
	ob.acct, ob.pool = map[int]*big.Int{}, map[int]*big.Int{}
	for i, k := range allKeys {
		ob.acct[k], ob.pool[k] = bigCur(ab[i]), bigCur(pb[i])
	}
	for i := range h.contracts {
		rs, err := h.state(i)
		if err != nil {
			// the Contractor knows the contract (it was formed through it) but cannot lock
			// it: a handler has left it locked
			ob.locked = i + 1
			last := h.rec.last[h.contracts[i].ID]
			ob.con[i] = cview{last.RevisionNumber, bigCur(last.RenterOutput.Value), bigCur(last.HostOutput.Value), sc.ref.contract[i].Revisable}
			continue
		}
		rev := rs.Revision
		ob.con[i] = cview{rev.RevisionNumber, bigCur(rev.RenterOutput.Value), bigCur(rev.HostOutput.Value), rs.Revisable}
	}
	return nil
}

type failure struct {
	kind, detail string
	step         int
}

func sumBal(a, p map[int]*big.Int) *big.Int {
	s := new(big.Int)
	for _, k := range allKeys {
		s.Add(s, get(a, k))
		s.Add(s, get(p, k))
	}
	return s
}

// monitor judges one step. before is the reference ledger before the step (equal to
// what was observed so far), ex what the property demands, ob what happened.
func (sc *scen) monitor(o opDesc, before *ledger, ex expect, ob *observed) (string, string) {
	h := sc.h
	cs := h.cm.TipState()
	priced := o.Kind == "read" || o.Kind == "write" || o.Kind == "verify"
	describe := func(format string, a ...any) string {
		return fmt.Sprintf("%s: ", o) + fmt.Sprintf(format, a...)
	}
	// A. call order: every sector read / store is preceded by the successful debit of this RPC
	debitAt, debits := -1, 0
	for i, c := range ob.calls {
		if c.Kind == "debit" && c.Err == nil {
			debits++
			if debitAt < 0 {
				debitAt = i
			}
		}
	}
	for i, c := range ob.calls {
		if c.Kind != "read" && c.Kind != "store" || c.Err != nil {
			continue
		}
		switch {
		case debitAt < 0 && ex.insufficient:
			return "service-on-insufficient-funds", describe("drawable funds %v are below the cost %v but the host called Sectors.%s", before.drawable(o.A), ex.cost, c.Kind)
		case debitAt < 0:
			return "service-without-debit", describe("Sectors.%s was called without a successful DebitAccount", c.Kind)
		case debitAt > i:
			return "service-before-debit", describe("Sectors.%s (call %d) came before DebitAccount (call %d)", c.Kind, i, debitAt)
		}
	}
	if debits > 0 {
		c := ob.calls[debitAt]
		if !priced || debits > 1 {
			return "unexpected-debit", describe("%d DebitAccount call(s)", debits)
		}
		if ex.badToken {
			return "served-with-bad-token", describe("the token is not a valid signature of account %d but the account was debited", o.A)
		}
		if bigCur(c.Cost).Cmp(ex.cost) != 0 || sc.keyIdx(c.Account) != o.A {
			return "debit-differs-from-price", describe("debited %v from account %d, the price table gives %v for account %d", c.Cost, sc.keyIdx(c.Account), ex.cost, o.A)
		}
		served := false
		for _, c := range ob.calls[debitAt:] {
			if (c.Kind == "read" || c.Kind == "store") && c.Err == nil {
				served = true
			}
		}
		if !served {
			return "debit-without-service", describe("the account was debited %v but no sector was read or stored", ex.cost)
		}
	}
	// B. every credit is matched by the renter-signed revision persisted with it
	credits, debited := new(big.Int), new(big.Int)
	for _, c := range ob.calls {
		if c.Err != nil {
			continue
		}
		switch c.Kind {
		case "creditA", "creditP":
			total := new(big.Int)
			for _, d := range c.Deposits {
				total.Add(total, bigCur(d.Amount))
			}
			credits.Add(credits, total)
			fr := new(big.Int).Sub(bigCur(c.Prev.RenterOutput.Value), bigCur(c.Rev.RenterOutput.Value))
			to := new(big.Int).Sub(bigCur(c.Rev.HostOutput.Value), bigCur(c.Prev.HostOutput.Value))
			if fr.Cmp(total) != 0 || to.Cmp(total) != 0 {
				return "credit-without-matching-revision", describe("credited %v but the revision moved %v out of the renter output and %v into the host output", total, fr, to)
			}
			if tip := h.cm.Tip().Height; tip >= c.Rev.ProofHeight || h.renewalExists(c.Contract) {
				return "credit-against-unrevisable-contract", describe("credited %v against contract %d, which can no longer be revised on chain (proof height %d, host tip %d, renewed %v)", total, sc.contractIdx(c.Contract), c.Rev.ProofHeight, tip, h.renewalExists(c.Contract))
			}
			if c.Rev.RevisionNumber <= c.Prev.RevisionNumber || !c.Prev.RenterPublicKey.VerifyHash(cs.ContractSigHash(c.Rev), c.Rev.RenterSignature) {
				return "credit-without-renter-signature", describe("the revision persisted with the credit is not a newer revision signed by the renter")
			}
			if o.Kind != "fund" && o.Kind != "replA" && o.Kind != "replP" {
				return "unexpected-credit", describe("credit of %v", total)
			}
		case "revise":
			return "unexpected-revision", describe("ReviseV2Contract was called")
		case "debit":
			debited.Add(debited, bigCur(c.Cost))
		}
	}
	if ob.locked > 0 {
		return "contract-left-locked", describe("afterwards contract %d cannot be locked any more: a handler left it locked", ob.locked-1)
	}
	// C. the sum of all balances moves by credits minus debits only
	delta := new(big.Int).Sub(sumBal(ob.acct, ob.pool), sumBal(before.acct, before.pool))
	if want := new(big.Int).Sub(credits, debited); !ob.blind && delta.Cmp(want) != 0 {
		if ex.insufficient {
			return "debit-on-insufficient-funds", describe("drawable funds %v are below the cost %v, the RPC failed, but the balances fell by %v", before.drawable(o.A), ex.cost, new(big.Int).Neg(delta))
		}
		return "ledger-sum-differs", describe("the balances changed by %v, credits minus debits of this RPC are %v", delta, want)
	}
	// D. the contracts change only with a credit
	for i := range ob.con {
		last := h.rec.last[h.contracts[i].ID]
		if ob.blind {
			break // nothing was read
		}
		if ob.con[i].RevNum != last.RevisionNumber || ob.con[i].Renter.Cmp(bigCur(last.RenterOutput.Value)) != 0 {
			return "contract-changed-without-credit", describe("contract %d holds revision %d, the last persisted one is %d", i, ob.con[i].RevNum, last.RevisionNumber)
		}
	}
	for i := range ob.con {
		if ob.con[i].Revisable != ex.after.contract[i].Revisable {
			return "contract-lifetime-differs", describe("contract %d revisable=%v at the host, the scenario expects %v", i, ob.con[i].Revisable, ex.after.contract[i].Revisable)
		}
	}
	// E. what the property says about this kind of RPC
	changed := false
	for _, k := range allKeys {
		if get(ob.acct, k).Cmp(get(before.acct, k)) != 0 || get(ob.pool, k).Cmp(get(before.pool, k)) != 0 {
			changed = true
		}
	}
	if priced && ex.insufficient {
		if changed {
			return "debit-on-insufficient-funds", describe("drawable funds %v are below the cost %v but balances changed", before.drawable(o.A), ex.cost)
		}
		if ob.ok {
			return "no-error-on-insufficient-funds", describe("drawable funds %v are below the cost %v but the client got no error", before.drawable(o.A), ex.cost)
		}
	}
	if o.Kind == "attach" || o.Kind == "detach" {
		for _, c := range ob.calls {
			if (c.Kind == "attach" || c.Kind == "detach") && ex.unauthorized {
				return "unauthorized-" + o.Kind + "-applied", describe("an entry without a valid signature by the right key reached the Contractor's %s call", o.Kind)
			}
		}
		if ex.unauthorized && ob.ok {
			return "unauthorized-" + o.Kind + "-applied", describe("an entry without a valid signature was accepted")
		}
		if changed {
			return o.Kind + "-moved-funds", describe("balances changed")
		}
	}
	if (o.Kind == "replA" || o.Kind == "replP") && ob.ok {
		target := bigOf(o.Target)
		bm, am := before.acct, ob.acct
		if o.Kind == "replP" {
			bm, am = before.pool, ob.pool
		}
		seen := map[int]bool{}
		for _, k := range o.Keys {
			if seen[k] {
				continue
			}
			seen[k] = true
			want := new(big.Int).Set(get(bm, k))
			if want.Cmp(target) < 0 {
				want.Set(target)
			}
			if c := get(am, k).Cmp(want); c > 0 {
				return "replenish-beyond-target", describe("key %d had %v, target %v: balance afterwards %v", k, get(bm, k), target, get(am, k))
			} else if c < 0 {
				return "replenish-below-target", describe("key %d had %v, target %v: balance afterwards %v", k, get(bm, k), target, get(am, k))
			}
		}
	}
	if !ob.ok && (changed || len(ob.events) > 0) {
		return "failed-rpc-changed-state", describe("the client got %q but the host state changed (%s)", ob.err, eventsString(ob.events))
	}
	if !ob.dataOK {
		return "service-returned-wrong-data", describe("the data or root returned differs from the sector")
	}
	// F. the reference ledger
	if ob.ok != ex.ok {
		if priced && !ob.ok {
			return "refused-despite-sufficient-funds", describe("drawable funds %v cover the cost %v, the request is valid, but the client got %q", before.drawable(o.A), ex.cost, ob.err)
		}
		return "outcome-differs-" + o.Kind, describe("client success=%v (%s), expected %v", ob.ok, ob.err, ex.ok)
	}
	for _, k := range allKeys {
		if get(ob.acct, k).Cmp(get(ex.after.acct, k)) != 0 || get(ob.pool, k).Cmp(get(ex.after.pool, k)) != 0 {
			kind := "balances-differ-" + o.Kind
			if priced {
				kind = "debit-order-differs"
			}
			return kind, describe("key %d: account %v pool %v, expected account %v pool %v (own balance first, then pools %v in attachment order)", k, get(ob.acct, k), get(ob.pool, k), get(ex.after.acct, k), get(ex.after.pool, k), before.att[o.A])
		}
	}
	if eventsString(ob.events) != eventsString(ex.events) {
		return "calls-differ-" + o.Kind, describe("recorded %s, expected %s", eventsString(ob.events), eventsString(ex.events))
	}
	if ob.ok && len(ex.payload) > 0 {
		if len(ob.payload) != len(ex.payload) {
			return "response-differs-" + o.Kind, describe("response has %d entries, expected %d", len(ob.payload), len(ex.payload))
		}
		for i := range ex.payload {
			if ob.payload[i].Cmp(ex.payload[i]) != 0 {
				return "response-differs-" + o.Kind, describe("response entry %d is %v, expected %v", i, ob.payload[i], ex.payload[i])
			}
		}
	}
	return "", ""
}

// step executes, observes and judges one operation.
func (sc *scen) step(o opDesc) (*failure, error) {
	if sc.inBlind && !o.Blind {
		// the blind stretch ends: the host's ledger is read for the first time since it began
		if f, err := sc.reconcile(); f != nil || err != nil {
			return f, err
		}
	}
	if o.Mid != nil {
		return sc.stepMid(o)
	}
	before := sc.ref
	ex := sc.expected(o)
	var ob observed
	var coqOp string
	ob.blind = o.Blind
	coqOp, ob.ok, ob.err, ob.payload, ob.dataOK = sc.exec(o)
	if err := sc.observe(&ob); err != nil {
		return nil, err
	}
	if o.Blind {
		sc.inBlind = true
		sc.counts["blind-steps"]++
		// nothing is read: the balance-based monitors see what the reference expects
		ob.acct, ob.pool, ob.con = ex.after.acct, ex.after.pool, ex.after.contract
		if o.Cut != "" && len(ob.events) == 0 {
			ob.acct, ob.pool, ob.con = before.acct, before.pool, before.contract
		}
	}
	if o.Arg != "" {
		sc.counts["arg:"+o.Kind+":"+o.Arg]++
		if illegalArg(o) {
			coqOp = "Cut (" + placeholderOp(o, coqOp) + ")"
		}
	}
	if o.Cut != "" && !ob.ok {
		// An abandoned RPC. Unless the host had everything it needs to complete the RPC on its
		// own (the whole request of a read / verify, the whole data of a write), nothing may
		// have been debited, read or stored. If it had, it may have completed the RPC (then
		// the step is judged as that complete RPC) or not have started it.
		priced := o.Kind == "read" || o.Kind == "write" || o.Kind == "verify"
		complete := priced && o.Kind != "write" && o.Cut == "req" || o.Kind == "write" && o.Cut == "data-all" || o.Cut == "resp-unread" || o.Cut == "sig-sent"
		changed := len(ob.events) > 0
		for _, k := range allKeys {
			if get(ob.acct, k).Cmp(get(before.acct, k)) != 0 || get(ob.pool, k).Cmp(get(before.pool, k)) != 0 {
				changed = true
			}
		}
		sc.counts["cut:"+o.Kind+":"+o.Cut]++
		switch {
		case changed && !complete:
			sc.trace = append(sc.trace, stepRec{op: o, coqOp: "Cut (" + coqOp + ")", obs: ob})
			kind := "abandoned-rpc-served"
			for _, c := range ob.calls {
				if c.Kind == "debit" && c.Err == nil {
					kind = "abandoned-rpc-debited"
				}
			}
			if kind == "abandoned-rpc-served" && len(ob.events) == 0 {
				kind = "abandoned-rpc-debited"
			}
			return &failure{kind, fmt.Sprintf("%s: the stream was closed before the host had the whole request (cut %s), yet the host recorded %s and the balances %s", o, o.Cut, eventsString(ob.events), map[bool]string{true: "changed", false: "did not change"}[sumBal(ob.acct, ob.pool).Cmp(sumBal(before.acct, before.pool)) != 0]), len(sc.trace) - 1}, nil
		case changed:
			ob.ok = true // the host carried the RPC out
			ob.unread = true
			ex.payload = nil // nobody read the answer
			sc.counts["cut-completed-by-host"]++
		default:
			coqOp = "Cut (" + placeholderOp(o, coqOp) + ")"
			ex = expect{after: sc.ref.clone(), boundary: 99, cost: ex.cost}
		}
	}
	if ex.cost != nil && ex.cost.Sign() == 0 && ex.ok {
		sc.counts["free-service"]++
	}
	sc.trace = append(sc.trace, stepRec{op: o, coqOp: coqOp, obs: ob})
	sc.counts["op:"+o.Kind]++
	if ob.ok {
		sc.counts["ok:"+o.Kind]++
	} else {
		sc.counts["err:"+o.Kind]++
	}
	if ex.boundary != 99 {
		sc.counts[fmt.Sprintf("boundary:drawable-cost=%+d", ex.boundary)]++
	}
	if ex.insufficient {
		sc.counts["insufficient"]++
	}
	if ex.unauthorized {
		sc.counts["unauthorized-"+o.Kind]++
	}
	if ex.badToken {
		sc.counts["bad-token"]++
	}
	if ex.unrevisable {
		sc.counts["credit-refused-unrevisable:"+o.Kind]++
	}
	if o.Kind == "replA" || o.Kind == "replP" {
		seen := map[int]bool{}
		for _, k := range o.Keys {
			if seen[k] {
				sc.counts["replenish-with-duplicate"]++
				break
			}
			seen[k] = true
		}
	}
	if kind, detail := sc.monitor(o, before, ex, &ob); kind != "" {
		return &failure{kind, detail, len(sc.trace) - 1}, nil
	}
	sc.ref = ex.after
	return nil, nil
}

// reconcile reads the host's ledger after a blind stretch and compares it with the reference.
func (sc *scen) reconcile() (*failure, error) {
	sc.inBlind = false
	var ob observed
	if err := sc.observeState(&ob); err != nil {
		return nil, err
	}
	sc.counts["blind-stretches"]++
	at := len(sc.trace) - 1
	if ob.locked > 0 {
		return &failure{"contract-left-locked", fmt.Sprintf("contract %d cannot be locked any more", ob.locked-1), at}, nil
	}
	for _, k := range allKeys {
		if get(ob.acct, k).Cmp(get(sc.ref.acct, k)) != 0 || get(ob.pool, k).Cmp(get(sc.ref.pool, k)) != 0 {
			return &failure{"blind-stretch-ledger-differs", fmt.Sprintf("after a stretch of RPCs without any read of the host's ledger, key %d holds account %v pool %v; the reference ledger holds account %v pool %v", k, get(ob.acct, k), get(ob.pool, k), get(sc.ref.acct, k), get(sc.ref.pool, k)), at}, nil
		}
	}
	for i := range ob.con {
		if c, r := ob.con[i], sc.ref.contract[i]; c.RevNum != r.RevNum || c.Renter.Cmp(r.Renter) != 0 || c.Host.Cmp(r.Host) != 0 {
			return &failure{"blind-stretch-ledger-differs", fmt.Sprintf("after a blind stretch contract %d is at revision %d renter %v, the reference at revision %d renter %v", i, c.RevNum, c.Renter, r.RevNum, r.Renter), at}, nil
		}
	}
	return nil, nil
}

// ---- Coq case ----------------------------------------------------------------------

func balList(m map[int]*big.Int) string {
	var s []string
	for _, k := range allKeys {
		s = append(s, fmt.Sprintf("(%d, %s)", k, z(get(m, k))))
	}
	return "[" + strings.Join(s, "; ") + "]"
}

func (sc *scen) coqCase() string {
	var cons, secs, steps []string
	for i, c := range sc.init.contract {
		cons = append(cons, fmt.Sprintf("(%d, Contract %d %d %s %s %v)", i, renterKeyID(i), c.RevNum, z(c.Renter), z(c.Host), c.Revisable))
	}
	for i, s := range sc.init.stored {
		if s {
			secs = append(secs, fmt.Sprint(i))
		}
	}
	for _, st := range sc.trace {
		if st.coqOp == "" {
			continue // a query the model does not have (RPCAccountBalance)
		}
		var pl, cv []string
		for _, p := range st.obs.payload {
			pl = append(pl, z(p))
		}
		for i, c := range st.obs.con {
			cv = append(cv, fmt.Sprintf("(%d, (%d, %s, %s, %v))", i, c.RevNum, z(c.Renter), z(c.Host), c.Revisable))
		}
		steps = append(steps, fmt.Sprintf("(%s,\n   Obs %v %v [%s] %s %s %s [%s])", st.coqOp, st.obs.ok, !st.obs.unread, strings.Join(pl, "; "),
			eventsString(st.obs.events), balList(st.obs.acct), balList(st.obs.pool), strings.Join(cv, "; ")))
		if st.obs.blind {
			// nothing was read after this step
			steps[len(steps)-1] = fmt.Sprintf("(%s,\n   Obs %v %v [%s] %s [] [] [])", st.coqOp, st.obs.ok, !st.obs.unread, strings.Join(pl, "; "), eventsString(st.obs.events))
		}
	}
	return fmt.Sprintf("mk_case [%s] [%s] [\n  %s]", strings.Join(cons, "; "), strings.Join(secs, "; "), strings.Join(steps, ";\n  "))
}

// ---- generator ------------------------------------------------------------------------

type gen struct {
	r *rng.R
}

func pick[T any](r *rng.R, xs []T) T { return xs[r.Intn(len(xs))] }

// weighted picks an index with the given weights
func weighted(r *rng.R, w []int) int {
	t := 0
	for _, x := range w {
		t += x
	}
	n := r.Intn(t)
	for i, x := range w {
		if n < x {
			return i
		}
		n -= x
	}
	return len(w) - 1
}

func (g *gen) account() int {
	if g.r.Chance(1, 12) {
		return 4 + g.r.Intn(4) // a pool key used as an account
	}
	return 1 + g.r.Intn(3)
}

func (g *gen) poolKey() int {
	if g.r.Chance(1, 12) {
		return 1 + g.r.Intn(3) // an account key used as a pool
	}
	return 4 + g.r.Intn(4)
}

func (g *gen) contract() int {
	if g.r.Chance(1, 4) {
		return 1
	}
	return 0
}

func (g *gen) refCost(sc *scen) *big.Int {
	r := g.r
	switch r.Intn(4) {
	case 0:
		return sc.cost(opDesc{Kind: "verify"})
	case 1:
		return sc.cost(opDesc{Kind: "write", Sector: r.Intn(4)})
	}
	return sc.cost(opDesc{Kind: "read", Len: pick(r, []uint64{64, 4096, 8192, 65536})})
}

func (g *gen) amount(sc *scen, base *big.Int) string {
	c := g.refCost(sc)
	one := big.NewInt(1)
	var v *big.Int
	switch g.r.Intn(9) {
	case 0:
		v = new(big.Int).Sub(c, one)
	case 1:
		v = c
	case 2:
		v = new(big.Int).Add(c, one)
	case 3:
		v = one
	case 4:
		v = new(big.Int).Mul(c, big.NewInt(2))
	case 5:
		v = new(big.Int).Add(base, one)
	case 6:
		v = new(big.Int).Sub(base, one)
	case 7:
		v = new(big.Int).Set(base)
	default:
		v = new(big.Int).Add(base, c)
	}
	if v.Sign() < 0 {
		v = new(big.Int)
	}
	return v.String()
}

func (g *gen) signer(bad []string) string {
	if g.r.Chance(1, 8) {
		return pick(g.r, bad)
	}
	return "ok"
}

func (g *gen) fund(sc *scen) opDesc {
	r := g.r
	o := opDesc{Kind: "fund", C: g.contract(), Signer: g.signer([]string{"wrongkey", "stale"})}
	n := 1 + r.Intn(3)
	if r.Chance(1, 30) {
		n = 0
	}
	for i := 0; i < n; i++ {
		k := g.account()
		if i > 0 && r.Chance(1, 3) {
			k = o.Deps[0].K // the same account twice
		}
		amt := g.amount(sc, get(sc.ref.acct, k))
		if amt == "0" && !r.Chance(1, 10) {
			amt = "1"
		}
		o.Deps = append(o.Deps, depDesc{K: k, Amt: amt})
	}
	return o
}

func (g *gen) replenish(sc *scen, pool bool) opDesc {
	r := g.r
	o := opDesc{Kind: "replA", C: g.contract(), Signer: g.signer([]string{"wrongkey", "stale", "wrongkey-rev"})}
	m := sc.ref.acct
	if pool {
		o.Kind, m = "replP", sc.ref.pool
	}
	n := 1 + r.Intn(4)
	if r.Chance(1, 30) {
		n = 0
	}
	for i := 0; i < n; i++ {
		k := g.account()
		if pool {
			k = g.poolKey()
		}
		if i > 0 && r.Chance(2, 5) {
			k = o.Keys[r.Intn(len(o.Keys))] // duplicates
		}
		o.Keys = append(o.Keys, k)
	}
	base := new(big.Int)
	if len(o.Keys) > 0 {
		base = get(m, pick(r, o.Keys))
	}
	o.Target = g.amount(sc, base)
	if o.Target == "0" && !r.Chance(1, 10) {
		o.Target = "1"
	}
	return o
}

func (g *gen) entries(sc *scen, attach bool) opDesc {
	r := g.r
	o := opDesc{Kind: "detach"}
	if attach {
		o.Kind = "attach"
	}
	n := 1 + r.Intn(3)
	if r.Chance(1, 40) {
		n = 0
	}
	bad := r.Chance(1, 3)
	oneAccount, shared := r.Bool(), g.account()
	for i := 0; i < n; i++ {
		e := entryDesc{A: g.account(), P: g.poolKey(), VU: 1, Signer: "pool"}
		if oneAccount {
			e.A = shared // one account collects several pools: attachment order matters
		}
		if attach {
			// prefer pools that exist
			var ex []int
			for _, k := range allKeys {
				if sc.ref.poolExists[k] {
					ex = append(ex, k)
				}
			}
			if len(ex) > 0 && r.Chance(5, 6) {
				e.P = pick(r, ex)
			}
		}
		if !attach {
			// prefer detaching something that is attached
			if links := sc.ref.att[e.A]; len(links) > 0 && r.Chance(3, 4) {
				e.P = pick(r, links)
			}
			if r.Bool() {
				e.Signer = "acct"
			}
		}
		if bad && (i == n-1 || r.Bool()) {
			switch r.Intn(9) {
			case 8:
				// the signature bytes of the first entry of the batch on a different link
				if i > 0 && o.Es[0].P != e.P {
					e.Signer = "same-as-first"
				} else {
					e.Signer = "stranger"
				}
			case 0:
				e.Signer = "stranger"
			case 1:
				e.Signer = "replay-kind"
			case 2:
				e.Signer = "replay-acct"
			case 3:
				e.Signer = "replay-vu"
			case 4:
				e.Signer = "zero"
			case 5:
				e.VU = 0
			case 6:
				if attach {
					e.Signer = "acct" // the account may not attach itself to somebody's pool
				} else {
					e.Signer = "stranger"
				}
			default:
				e.P = e.A
			}
		} else if r.Chance(1, 6) {
			e.VU = 2
		}
		o.Es = append(o.Es, e)
	}
	return o
}

// service returns a priced RPC, preceded (usually) by a credit that steers the
// drawable funds of its account to cost-1, cost or cost+1.
func (g *gen) service(sc *scen) []opDesc {
	r := g.r
	o := opDesc{A: g.account(), Token: "ok", Sector: r.Intn(4)}
	if r.Chance(1, 12) {
		o.Token = pick(r, []string{"wrongkey", "other", "expired"})
	}
	switch weighted(r, []int{4, 3, 2}) {
	case 0:
		o.Kind, o.Len = "read", pick(r, []uint64{64, 4096, 8192, 65536})
		if stored := storedIdx(sc.ref); len(stored) > 0 && r.Chance(5, 6) {
			o.Sector = pick(r, stored)
		}
	case 1:
		o.Kind = "write"
	default:
		o.Kind = "verify"
		if stored := storedIdx(sc.ref); len(stored) > 0 && r.Chance(5, 6) {
			o.Sector = pick(r, stored)
		}
	}
	if o.Token == "ok" && r.Chance(1, 8) {
		o.Cut = pick(r, cutsFor(o.Kind))
		if o.Kind == "write" && o.Sector == 0 {
			o.Sector = 1 + r.Intn(3) // data cuts need more than 64 bytes of data
		}
	}
	if !r.Chance(3, 4) {
		return []opDesc{o}
	}
	delta := int64(weighted(r, []int{3, 3, 2})) - 1 // -1, 0, +1
	cur := sc.ref.drawable(o.A)
	cost := sc.cost(o)
	want := new(big.Int).Add(cost, big.NewInt(delta))
	if cur.Cmp(want) > 0 && o.Kind == "read" {
		// read more so that the cost exceeds what is there, then top up exactly
		unit := sc.cost(opDesc{Kind: "read", Len: 4096})
		k := uint64(proto4.SectorSize)
		if unit.Sign() > 0 {
			k = new(big.Int).Div(cur, unit).Uint64() + 1
		}
		if k <= proto4.SectorSize/4096 {
			o.Len = k * 4096
			cost = sc.cost(o)
			want = new(big.Int).Add(cost, big.NewInt(delta))
		}
	}
	need := new(big.Int).Sub(want, cur)
	if need.Sign() <= 0 {
		return []opDesc{o}
	}
	links := sc.ref.att[o.A]
	if len(links) > 0 && r.Bool() {
		p := pick(r, links)
		target := new(big.Int).Add(get(sc.ref.pool, p), need)
		return []opDesc{{Kind: "replP", C: 0, Keys: []int{p}, Target: target.String(), Signer: "ok"}, o}
	}
	if r.Chance(1, 3) {
		target := new(big.Int).Add(get(sc.ref.acct, o.A), need)
		return []opDesc{{Kind: "replA", C: 0, Keys: []int{o.A, o.A}, Target: target.String(), Signer: "ok"}, o}
	}
	return []opDesc{{Kind: "fund", C: 0, Deps: []depDesc{{K: o.A, Amt: need.String()}}, Signer: "ok"}, o}
}

func cutsFor(kind string) []string {
	if kind == "write" {
		return []string{"req-half", "req", "data:64", "data:half", "data:tail", "data-all"}
	}
	return []string{"req-half", "req"}
}

func storedIdx(l *ledger) []int {
	var s []int
	for i, b := range l.stored {
		if b {
			s = append(s, i)
		}
	}
	return s
}

func (g *gen) next(sc *scen, i int) []opDesc {
	r := g.r
	if i < 4 {
		// prelude: pools exist and are attached early, so that debits reach them
		switch i {
		case 0:
			// several pools come into existence
			o := opDesc{Kind: "replP", C: 0, Signer: "ok", Target: g.amount(sc, new(big.Int))}
			if o.Target == "0" {
				o.Target = "1"
			}
			for _, j := range r.Perm(4)[:2+r.Intn(3)] {
				o.Keys = append(o.Keys, poolKeys[j])
			}
			if r.Chance(1, 3) {
				o.Keys = append(o.Keys, o.Keys[0])
			}
			return []opDesc{o}
		case 1:
			// and are attached to one account in a random order
			o := opDesc{Kind: "attach"}
			a := 1 + r.Intn(3)
			for _, j := range r.Perm(4)[:2+r.Intn(3)] {
				o.Es = append(o.Es, entryDesc{A: a, P: poolKeys[j], VU: 1, Signer: "pool"})
			}
			return []opDesc{o}
		case 2:
			return []opDesc{g.fund(sc)}
		}
	}
	switch weighted(r, []int{12, 10, 10, 12, 8, 48, 2}) {
	case 6:
		// a contract reaches its proof height or is renewed: no credit against it any more
		o := opDesc{Kind: "expire", C: 1, Mode: pick(r, []string{"height", "renew"})}
		if r.Chance(1, 6) {
			o.C, o.Mode = 0, "renew"
		}
		return []opDesc{o, g.replenish(sc, r.Bool()), g.fund(sc)}
	case 0:
		return []opDesc{g.fund(sc)}
	case 1:
		return []opDesc{g.replenish(sc, false)}
	case 2:
		return []opDesc{g.replenish(sc, true)}
	case 3:
		return []opDesc{g.entries(sc, true)}
	case 4:
		return []opDesc{g.entries(sc, false)}
	}
	return g.service(sc)
}

// ---- running ---------------------------------------------------------------------------

type scenResult struct {
	ops     []opDesc
	coq     string
	counts  map[string]int
	fail    *failure
	shrunk  []opDesc
	sdetail string
	err     error
	nontriv bool
}

// ---- directed scenarios: attachment order --------------------------------------------

// A dirSpec attaches 3 or 4 pools to one account in a given order, detaches the links at
// the given positions (first / middle / last, alone or two in one batch), optionally
// attaches the first detached pool again, and then issues priced RPCs whose cost drains
// the first remaining pool completely and the next one only partly, so that the
// individual pool balances reveal the order in which the host drains them.
type dirSpec struct {
	A        int
	Order    []int // pool keys in attachment order
	Det      []int // positions in Order that are detached (one batch)
	Batch    bool  // attach with one RPC (else one RPC per pool)
	Own      bool  // the account has an own balance below the cost
	Reattach bool
	Svc      int // 0 write, 1 verify, 2 read (falls back to write if nothing is stored)
}

func permutations(xs []int) [][]int {
	if len(xs) <= 1 {
		return [][]int{append([]int(nil), xs...)}
	}
	var out [][]int
	for i := range xs {
		rest := append(append([]int(nil), xs[:i]...), xs[i+1:]...)
		for _, p := range permutations(rest) {
			out = append(out, append([]int{xs[i]}, p...))
		}
	}
	return out
}

func directedSpecs() []dirSpec {
	var specs []dirSpec
	add := func(order, det []int) {
		i := len(specs)
		specs = append(specs, dirSpec{A: 1 + i%3, Order: order, Det: det, Batch: i%2 == 0, Own: i%4 >= 2, Reattach: i%5 == 4, Svc: i % 3})
	}
	for k, p := range permutations([]int{0, 1, 2}) {
		for pos := 0; pos < 3; pos++ {
			order := make([]int, 3)
			for j, x := range p {
				order[j] = poolKeys[(x+k)%4] // rotate which three of the four pools are used
			}
			add(order, []int{pos})
		}
	}
	var pairs [][]int
	for a := 0; a < 4; a++ {
		for b := 0; b < 4; b++ {
			if a != b {
				pairs = append(pairs, []int{a, b})
			}
		}
	}
	for k, p := range permutations([]int{0, 1, 2, 3}) {
		order := make([]int, 4)
		for j, x := range p {
			order[j] = poolKeys[x]
		}
		for pos := 0; pos < 4; pos++ {
			add(order, []int{pos})
		}
		add(order, pairs[k%len(pairs)])
	}
	return specs
}

func (d dirSpec) plan(sc *scen) []opDesc {
	svc := opDesc{Kind: "write", A: d.A, Sector: 2, Token: "ok"}
	if stored := storedIdx(sc.ref); len(stored) > 0 {
		switch d.Svc {
		case 1:
			svc = opDesc{Kind: "verify", A: d.A, Sector: stored[0], Token: "ok"}
		case 2:
			svc = opDesc{Kind: "read", A: d.A, Sector: stored[0], Len: 65536, Token: "ok"}
		}
	}
	cost := sc.cost(svc)
	each := new(big.Int).Div(new(big.Int).Mul(cost, big.NewInt(3)), big.NewInt(5)) // 0.6 cost per pool
	ops := []opDesc{{Kind: "replP", C: 0, Keys: d.Order, Target: each.String(), Signer: "ok"}}
	if d.Own {
		ops = append(ops, opDesc{Kind: "fund", C: 0, Deps: []depDesc{{K: d.A, Amt: new(big.Int).Div(cost, big.NewInt(10)).String()}}, Signer: "ok"})
	}
	if d.Batch {
		o := opDesc{Kind: "attach"}
		for _, p := range d.Order {
			o.Es = append(o.Es, entryDesc{A: d.A, P: p, VU: 1, Signer: "pool"})
		}
		ops = append(ops, o)
	} else {
		for _, p := range d.Order {
			ops = append(ops, opDesc{Kind: "attach", Es: []entryDesc{{A: d.A, P: p, VU: 1, Signer: "pool"}}})
		}
	}
	det := opDesc{Kind: "detach"}
	for i, pos := range d.Det {
		e := entryDesc{A: d.A, P: d.Order[pos], VU: 1, Signer: "pool"}
		if (i+pos)%2 == 1 {
			e.Signer = "acct"
		}
		det.Es = append(det.Es, e)
	}
	ops = append(ops, det)
	if d.Reattach {
		ops = append(ops, opDesc{Kind: "attach", Es: []entryDesc{{A: d.A, P: d.Order[d.Det[0]], VU: 1, Signer: "pool"}}})
	}
	// first remaining pool drained, second partly; then again; the last one is refused
	return append(ops, svc, svc, svc)
}

// A deadSpec makes a contract unrevisable (proof height reached, or renewed) and then tries
// every crediting RPC against it, in a given order: all must be refused, state unchanged.
type deadSpec struct {
	C     int
	Mode  string
	Order []string
}

func deadSpecs() []deadSpec {
	var specs []deadSpec
	for i, p := range permutations([]int{0, 1, 2}) {
		kinds := []string{"fund", "replA", "replP"}
		order := []string{kinds[p[0]], kinds[p[1]], kinds[p[2]]}
		specs = append(specs, deadSpec{1, "height", order}, deadSpec{1, "renew", order})
		if i%3 == 0 {
			specs = append(specs, deadSpec{0, "renew", order})
		}
	}
	return specs
}

func (d deadSpec) plan() []opDesc {
	ok := "ok"
	ops := []opDesc{
		{Kind: "fund", C: d.C, Deps: []depDesc{{K: 1, Amt: "1000"}}, Signer: ok},
		{Kind: "replP", C: d.C, Keys: []int{4}, Target: "500", Signer: ok},
		{Kind: "expire", C: d.C, Mode: d.Mode},
	}
	for _, k := range d.Order {
		switch k {
		case "fund":
			ops = append(ops, opDesc{Kind: "fund", C: d.C, Deps: []depDesc{{K: 2, Amt: "700"}, {K: 1, Amt: "1"}}, Signer: ok})
		case "replA":
			ops = append(ops, opDesc{Kind: "replA", C: d.C, Keys: []int{1, 2}, Target: "2000", Signer: ok})
		default:
			ops = append(ops, opDesc{Kind: "replP", C: d.C, Keys: []int{4, 5}, Target: "900", Signer: ok})
		}
	}
	return append(ops,
		opDesc{Kind: "replP", C: d.C, Keys: []int{4}, Target: "400", Signer: ok}, // nothing to deposit: refused all the same
		opDesc{Kind: "expire", C: d.C, Mode: d.Mode},                             // idempotent
		opDesc{Kind: "fund", C: 1 - d.C, Deps: []depDesc{{K: 1, Amt: "300"}}, Signer: ok},
		opDesc{Kind: "replP", C: 1 - d.C, Keys: []int{4, 5}, Target: "600", Signer: ok})
}

// A forgeSpec sends an attach or detach batch of two entries, one properly signed and one
// forged in a given way, in either order: the batch must be refused as a whole.
type forgeSpec struct {
	Attach   bool
	Variant  string // signer variant of the forged entry, or "expired" / "self"
	BadFirst bool
}

func forgeSpecs() []forgeSpec {
	var specs []forgeSpec
	for _, attach := range []bool{true, false} {
		for _, v := range []string{"stranger", "replay-kind", "replay-acct", "replay-vu", "zero", "same-as-first", "acct", "expired", "self"} {
			if v == "acct" && !attach {
				continue // the account may detach itself
			}
			specs = append(specs, forgeSpec{attach, v, false})
			if v != "same-as-first" {
				specs = append(specs, forgeSpec{attach, v, true})
			}
		}
	}
	return specs
}

func (d forgeSpec) plan() []opDesc {
	ops := []opDesc{{Kind: "replP", C: 0, Keys: []int{4, 5}, Target: "1000", Signer: "ok"}}
	good := entryDesc{A: 1, P: 4, VU: 1, Signer: "pool"}
	bad := entryDesc{A: 2, P: 5, VU: 1, Signer: d.Variant}
	switch d.Variant {
	case "expired":
		bad.Signer, bad.VU = "pool", 0
	case "self":
		bad.Signer, bad.P = "pool", bad.A
	}
	kind := "detach"
	if d.Attach {
		kind = "attach"
	} else {
		ops = append(ops, opDesc{Kind: "attach", Es: []entryDesc{good, {A: 2, P: 5, VU: 1, Signer: "pool"}}})
	}
	batch := opDesc{Kind: kind, Es: []entryDesc{good, bad}}
	if d.BadFirst {
		batch.Es = []entryDesc{bad, good}
	}
	// afterwards the honest batch goes through
	return append(ops, batch, opDesc{Kind: kind, Es: []entryDesc{good, {A: 2, P: 5, VU: 1, Signer: "pool"}}})
}

// A cutSpec funds an account (own balance, or a pool attached to it) with exactly the price
// of one RPC, abandons that RPC at the given point, then runs it to completion (it must be
// served and charged once unless the host had already completed the abandoned one), and
// abandons it once more.
type cutSpec struct {
	A      int
	Kind   string
	Cut    string
	ByPool bool
}

func cutSpecs() []cutSpec {
	var specs []cutSpec
	for _, kind := range []string{"write", "read", "verify"} {
		for _, cut := range cutsFor(kind) {
			for _, byPool := range []bool{false, true} {
				specs = append(specs, cutSpec{A: 1 + len(specs)%3, Kind: kind, Cut: cut, ByPool: byPool})
			}
		}
	}
	return specs
}

func (d cutSpec) plan(sc *scen) []opDesc {
	svc := opDesc{Kind: d.Kind, A: d.A, Sector: 3, Token: "ok", Len: 8192}
	var ops []opDesc
	need := new(big.Int)
	var pre *opDesc
	if d.Kind != "write" {
		if stored := storedIdx(sc.ref); len(stored) > 0 {
			svc.Sector = stored[0]
		} else {
			pre = &opDesc{Kind: "write", A: d.A, Sector: 1, Token: "ok"}
			svc.Sector = 1
			need.Add(need, sc.cost(*pre))
		}
	}
	need.Add(need, sc.cost(svc))
	if d.ByPool {
		ops = append(ops, opDesc{Kind: "replP", C: 0, Keys: []int{5}, Target: need.String(), Signer: "ok"},
			opDesc{Kind: "attach", Es: []entryDesc{{A: d.A, P: 5, VU: 1, Signer: "pool"}}})
	} else {
		ops = append(ops, opDesc{Kind: "fund", C: 0, Deps: []depDesc{{K: d.A, Amt: need.String()}}, Signer: "ok"})
	}
	if pre != nil {
		ops = append(ops, *pre)
	}
	cut := svc
	cut.Cut = d.Cut
	return append(ops, cut, svc, cut, svc)
}

func runPlanned(h *hostEnv, r *rng.R, plan func(*scen) []opDesc) (*scen, []opDesc, *failure, error) {
	sc, err := newScen(h, r)
	if err != nil {
		return nil, nil, nil, err
	}
	ops := plan(sc)
	for i, o := range ops {
		f, err := sc.step(o)
		if err != nil || f != nil {
			return sc, ops[:i+1], f, err
		}
	}
	sc.counts["directed"]++
	return sc, ops, sc.finish(), nil
}

// finish asks the host for the balances over the wire (RPCAccountBalance) and
// compares them with the reference ledger.
func (sc *scen) finish() *failure {
	if sc.inBlind {
		if f, err := sc.reconcile(); f != nil {
			return f
		} else if err != nil {
			return &failure{"harness-error", err.Error(), len(sc.trace) - 1}
		}
	}
	ctx, cancel := context.WithTimeout(context.Background(), 20*time.Second)
	defer cancel()
	for _, k := range allKeys[:3] {
		b, err := rhp4.RPCAccountBalance(ctx, sc.h.transport, sc.acc(k))
		if err != nil {
			return &failure{"balance-rpc-differs", fmt.Sprintf("RPCAccountBalance(account %d): %v", k, err), len(sc.trace) - 1}
		}
		if bigCur(b).Cmp(get(sc.ref.acct, k)) != 0 {
			return &failure{"balance-rpc-differs", fmt.Sprintf("RPCAccountBalance(account %d) = %v, the ledger holds %v", k, b, get(sc.ref.acct, k)), len(sc.trace) - 1}
		}
	}
	sc.counts["balance-rpc-checked"] += 3
	return nil
}

// runOps replays a fixed list; stops at the first failure.
func runOps(h *hostEnv, r *rng.R, ops []opDesc) (*scen, *failure, error) {
	sc, err := newScen(h, r)
	if err != nil {
		return nil, nil, err
	}
	for _, o := range ops {
		f, err := sc.step(o)
		if err != nil || f != nil {
			return sc, f, err
		}
	}
	return sc, sc.finish(), nil
}

func runGenerated(h *hostEnv, r *rng.R, n int) (*scen, []opDesc, *failure, error) {
	sc, err := newScen(h, r)
	if err != nil {
		return nil, nil, nil, err
	}
	g := &gen{r: r}
	var ops []opDesc
	blindScenario := r.Chance(1, 3)
	for i := 0; len(ops) < n; i++ {
		next := g.next(sc, i)
		if blindScenario && r.Chance(1, 6) {
			next = append(next, opDesc{Kind: "balance", A: 1 + r.Intn(3)})
		}
		for _, o := range next {
			// in a blind scenario the host's state is read only now and then
			o.Blind = blindScenario && o.Kind != "expire" && !r.Chance(1, 6)
			ops = append(ops, o)
			f, err := sc.step(o)
			if err != nil || f != nil {
				return sc, ops, f, err
			}
		}
	}
	return sc, ops, sc.finish(), nil
}

func shrink(h *hostEnv, r *rng.R, ops []opDesc, kind string) ([]opDesc, string) {
	detail := ""
	fails := func(c []opDesc) bool {
		if err := h.refresh(); err != nil {
			return false
		}
		_, f, err := runOps(h, r.Fork(), c)
		if err == nil && f != nil && f.kind == kind {
			detail = f.detail
			return true
		}
		return false
	}
	budget := 60
	for changed := true; changed && budget > 0; {
		changed = false
		for i := len(ops) - 2; i >= 0 && budget > 0; i-- {
			c := append(append([]opDesc(nil), ops[:i]...), ops[i+1:]...)
			budget--
			if fails(c) {
				ops, changed = c, true
			}
		}
	}
	return ops, detail
}

// refresh replaces the small contract when it is nearly spent.
func (h *hostEnv) refresh() error {
	tip := h.cm.Tip().Height
	if tip > h.prices.TipHeight+300 {
		st, err := rhp4.RPCSettings(context.Background(), h.transport)
		if err != nil {
			return err
		}
		h.settings, h.prices = st, st.Prices
	}
	rs, err := h.state(0)
	if err != nil {
		return err
	}
	if !rs.Revisable || tip+100 >= rs.Revision.ProofHeight {
		if err := h.form(0, types.Siacoins(100), types.Siacoins(1), 500); err != nil {
			return err
		}
	}
	if rs, err = h.state(1); err != nil {
		return err
	}
	if !rs.Revisable || h.cm.Tip().Height+3 >= rs.Revision.ProofHeight || rs.Revision.RenterOutput.Value.Cmp(h.smallAllowance().Div64(4)) < 0 {
		return h.form(1, h.smallAllowance(), types.ZeroCurrency, shortProof)
	}
	return nil
}

// the small contract lives only a little longer than the minimum, so that its proof
// height can be reached by mining
const shortProof = proto4.MinContractDuration + 2

func (h *hostEnv) smallAllowance() types.Currency {
	return h.prices.RPCWriteSectorCost(proto4.SectorSize).RenterCost().Mul64(3)
}

// priceSpec is the part of the price table a scenario depends on (hastings per byte);
// it is stored in replay files because the steered amounts are exact costs.
type priceSpec struct {
	Storage uint64 `json:"storage"`
	Ingress uint64 `json:"ingress"`
	Egress  uint64 `json:"egress"`
}

func pricesFor(r *rng.R) priceSpec {
	// ingress and egress may be free; one host in a few charges a lot
	return priceSpec{uint64(1 + r.Intn(2)), pick(r, []uint64{0, 1, 3, 100, 1 << 40}), pick(r, []uint64{0, 1, 2, 100, 1 << 40})}
}

func (p priceSpec) table() proto4.HostPrices {
	return proto4.HostPrices{
		ContractPrice: types.NewCurrency64(1000),
		StoragePrice:  types.NewCurrency64(p.Storage),
		IngressPrice:  types.NewCurrency64(p.Ingress),
		EgressPrice:   types.NewCurrency64(p.Egress),
		Collateral:    types.NewCurrency64(2),
	}
}

func setupHost(r *rng.R, ps priceSpec) (*hostEnv, error) {
	h, err := newHost(r, ps.table())
	if err != nil {
		return nil, err
	}
	if err := h.form(0, types.Siacoins(100), types.Siacoins(1), 500); err != nil {
		return nil, err
	}
	if err := h.form(1, h.smallAllowance(), types.ZeroCurrency, shortProof); err != nil {
		return nil, err
	}
	return h, nil
}

func nontrivial(counts map[string]int) bool {
	credits := counts["ok:fund"] + counts["ok:replA"] + counts["ok:replP"]
	served := counts["ok:read"] + counts["ok:write"] + counts["ok:verify"]
	return credits > 0 && served > 0 && counts["insufficient"] > 0
}

func runC15(c *hx.Ctx) {
	res := c.Res
	res.Rule = "sequences of fund / replenish accounts / replenish pools (duplicates, targets below, at and above the balance) / attach / detach (valid, wrong key, replayed, expired) / read / write / verify RPCs against a real rhp4 host over siamux, 3 accounts x 4 pools x 2 contracts (one nearly exhausted); directed scenarios attach 3 or 4 pools in every order, detach the first / a middle / the last link (or two in one batch), and then drain the pools partly so that the individual pool balances show the drain order; further directed scenarios let a contract reach its proof height or be renewed and then try every crediting RPC against it, abandon every account-paid RPC at every point of its request (header, sector data, before the answer is consumed), and send attach / detach batches with one forged entry of every kind in either position; a concurrent section races 8 debits on funds for 1..3 of them (one account; two accounts sharing a pool; on the Contractor and through parallel RPC streams), drawable funds steered to cost-1, cost, cost+1; non-trivial := at least one credit succeeded, one sector RPC was served and one was refused for insufficient funds; distinct by the operation sequence"

	// the concurrent section runs first, while all cores are free
	runConcurrent := func(seed *rng.R) bool {
		h, err := setupHost(seed, priceSpec{1, 1, 1})
		if err != nil {
			res.Fail("harness-setup", err.Error(), nil)
			return false
		}
		defer h.close()
		fails, counts, err := concurrentSection(h, seed, c.Scale(24000, 100000), c.Scale(3000, 12000), c.Scale(18, 150))
		if err != nil {
			// an honest set-up RPC of the section was refused: reported, and the scenarios
			// below say what is wrong with it
			res.Fail("concurrent-section-rpc-refused", err.Error(), map[string]any{"section": "concurrent"})
			return true
		}
		keys := make([]string, 0, len(counts))
		for k := range counts {
			keys = append(keys, k)
		}
		sort.Strings(keys)
		for _, k := range keys {
			res.CountN(k, counts[k])
		}
		for _, f := range fails {
			res.Fail(f.kind, f.detail, f.replay)
		}
		return true
	}
	if c.Replay != "" {
		var rp struct {
			Replay struct {
				Ops     []opDesc  `json:"ops"`
				Prices  priceSpec `json:"prices"`
				Section string    `json:"section"`
			} `json:"replay"`
		}
		b, _ := os.ReadFile(c.Replay)
		json.Unmarshal(b, &rp)
		if rp.Replay.Section == "concurrent" {
			runConcurrent(c.R.Fork())
			res.Eval("concurrent", true)
			return
		}
		if rp.Replay.Prices.Egress == 0 {
			rp.Replay.Prices = priceSpec{1, 1, 1}
		}
		h, err := setupHost(c.R.Fork(), rp.Replay.Prices)
		if err != nil {
			res.Fail("harness-setup", err.Error(), nil)
			return
		}
		defer h.close()
		sc, f, err := runOps(h, c.R.Fork(), rp.Replay.Ops)
		if err != nil {
			res.Fail("harness-error", err.Error(), nil)
			return
		}
		res.Eval(fmt.Sprint(rp.Replay.Ops), true)
		if f != nil {
			res.Fail(f.kind, f.detail, map[string]any{"ops": rp.Replay.Ops, "failing_step": f.step, "prices": rp.Replay.Prices})
		}
		res.WriteCases("Run.Run_C15", []string{sc.coqCase()})
		return
	}

	if !runConcurrent(c.R.Fork()) {
		return
	}

	const workers = 8
	specs, dead, cuts, forged, ext := directedSpecs(), deadSpecs(), cutSpecs(), forgeSpecs(), extPlans()
	nScen := len(corpus()) + len(specs) + len(dead) + len(cuts) + len(forged) + len(ext) + c.Scale(100, 4000)
	opsPer := c.Scale(22, 30)
	seeds := make([]*rng.R, nScen)
	hostSeeds := make([]*rng.R, workers)
	for i := range hostSeeds {
		hostSeeds[i] = c.R.Fork()
	}
	for i := range seeds {
		seeds[i] = c.R.Fork()
	}
	results := make([]scenResult, nScen)
	hostPrices := make([]priceSpec, workers)
	var wg sync.WaitGroup
	var setupErr error
	var mu sync.Mutex
	for w := 0; w < workers; w++ {
		wg.Add(1)
		go func(w int) {
			defer wg.Done()
			ps := pricesFor(hostSeeds[w])
			hostPrices[w] = ps
			h, err := setupHost(hostSeeds[w], ps)
			if err != nil {
				mu.Lock()
				setupErr = err
				mu.Unlock()
				return
			}
			defer h.close()
			for i := w; i < nScen; i += workers {
				r := seeds[i]
				out := &results[i]
				var ops []opDesc
				var sc *scen
				var f *failure
				if err := h.refresh(); err != nil {
					out.err = err
					continue
				}
				if pre := corpus(); i < len(pre) {
					ops = pre[i]
					sc, f, err = runOps(h, r.Fork(), ops)
				} else if j := i - len(pre); j < len(specs) {
					sc, ops, f, err = runPlanned(h, r.Fork(), specs[j].plan)
				} else if j -= len(specs); j < len(dead) {
					sc, ops, f, err = runPlanned(h, r.Fork(), func(*scen) []opDesc { return dead[j].plan() })
				} else if j -= len(dead); j < len(cuts) {
					sc, ops, f, err = runPlanned(h, r.Fork(), cuts[j].plan)
				} else if j -= len(cuts); j < len(forged) {
					sc, ops, f, err = runPlanned(h, r.Fork(), func(*scen) []opDesc { return forged[j].plan() })
				} else if j -= len(forged); j < len(ext) {
					sc, ops, f, err = runPlanned(h, r.Fork(), ext[j].plan)
					if sc != nil {
						sc.counts["ext:"+ext[j].family]++
					}
				} else {
					sc, ops, f, err = runGenerated(h, r.Fork(), opsPer)
				}
				if err != nil {
					out.err = err
					continue
				}
				out.ops, out.counts, out.coq = ops, sc.counts, sc.coqCase()
				if sc.noCoq {
					out.coq = ""
					sc.counts["monitor-only-scenarios"]++
				}
				out.nontriv = nontrivial(sc.counts)
				if f != nil {
					out.fail = f
					out.shrunk, out.sdetail = shrink(h, r.Fork(), ops[:f.step+1], f.kind)
					if out.sdetail == "" {
						out.sdetail = f.detail
					}
				}
			}
		}(w)
	}
	wg.Wait()
	if setupErr != nil {
		res.Fail("harness-setup", setupErr.Error(), nil)
		return
	}
	var cases []string
	perKind := map[string]int{}
	for i, out := range results {
		if out.err != nil {
			res.Fail("harness-error", fmt.Sprintf("scenario %d: %v", i, out.err), nil)
			continue
		}
		b, _ := json.Marshal(out.ops)
		res.Eval(string(b), out.nontriv)
		res.CountN("ops", len(out.ops))
		keys := make([]string, 0, len(out.counts))
		for k := range out.counts {
			keys = append(keys, k)
		}
		sort.Strings(keys)
		for _, k := range keys {
			res.CountN(k, out.counts[k])
		}
		if out.coq != "" {
			cases = append(cases, out.coq)
		}
		if i < 2 {
			var s []string
			for _, o := range out.ops {
				s = append(s, o.String())
			}
			res.Sample(map[string]any{"ops": s})
		}
		if out.fail != nil {
			perKind[out.fail.kind]++
			res.Fail(out.fail.kind, out.sdetail, map[string]any{"ops": out.shrunk, "failing_step": len(out.shrunk) - 1, "scenario": i, "prices": hostPrices[i%workers]})
		}
	}
	res.Explored = map[string]any{"scenarios": nScen, "ops_per_scenario": opsPer, "hosts": workers}
	// several small files: bin/check evaluates them in parallel
	chunk := min(max((len(cases)+7)/8, 20), 60) // bin/check runs 8 coqc at a time
	for i := 0; i < len(cases); i += chunk {
		res.WriteCases("Run.Run_C15", cases[i:min(i+chunk, len(cases))])
	}
}

// corpus holds minimised earlier failures; they run first.
func corpus() [][]opDesc {
	return [][]opDesc{
		// F13: an account listed twice in a replenish was credited twice, past the target
		{{Kind: "replA", C: 0, Keys: []int{1, 1}, Target: "1000", Signer: "ok"}},
		{{Kind: "replP", C: 0, Keys: []int{4, 4, 5}, Target: "1000", Signer: "ok"}},
		// a target between the balance and twice the balance
		{{Kind: "fund", C: 0, Deps: []depDesc{{K: 2, Amt: "600"}}, Signer: "ok"}, {Kind: "replA", C: 0, Keys: []int{2, 3, 2}, Target: "1000", Signer: "ok"}},
	}
}
