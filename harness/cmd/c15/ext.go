package main

// Generalisation dimensions of the C15 harness (see /verif/seeded/LESSONS.md):
// blind stretches, RPCs between the phases of a replenish, abort points of the
// contract-paid RPCs, extreme and illegal request shapes, history (replayed bytes,
// attach/detach churn, short write after long write), lifetime and funding boundaries,
// pool/account topologies.

import (
	"bytes"
	"context"
	"fmt"
	"math/big"
	"strings"
	"time"

	proto4 "go.sia.tech/core/rhp/v4"
	"go.sia.tech/core/types"
)

var maxCurrency = types.MaxCurrency.Big().String()

// sectorBytes is what a read of [off, off+n) of sector i must return (the data is padded
// with zeros to the sector size).
func (sc *scen) sectorBytes(i int, off, n uint64) []byte {
	out := make([]byte, n)
	if d := sc.data[i]; off < uint64(len(d)) {
		copy(out, d[off:])
	}
	return out
}

// illegalArg: the request is structurally invalid; the host must refuse it before its first
// Contractor or Sectors call.
func illegalArg(o opDesc) bool {
	switch o.Arg {
	case "off-unaligned", "len0", "beyond", "dlen0", "dlen-unaligned", "dlen-over", "leaf-over":
		return true
	}
	return len(o.Deps) > proto4.MaxAccountBatchSize || len(o.Keys) > proto4.MaxAccountBatchSize || len(o.Es) > proto4.MaxAccountBatchSize
}

// placeholderOp keeps the Coq term of a refused oversize batch small: what is inside a [Cut]
// does not matter to the model.
func placeholderOp(o opDesc, coqOp string) string {
	if len(coqOp) > 4000 {
		switch o.Kind {
		case "fund":
			return fmt.Sprintf("Fund %d [] NoSig", o.C)
		case "replA", "replP":
			return fmt.Sprintf("Replenish %v %d [] (1)%%Z NoSig NoSig", o.Kind == "replP", o.C)
		case "attach":
			return "Attach []"
		case "detach":
			return "Detach []"
		}
	}
	return coqOp
}

// sendCut sends (a prefix of) an encoded request on a fresh stream and abandons it.
func (sc *scen) sendCut(msg []byte, cut string) error {
	ctx, cancel := context.WithTimeout(context.Background(), 20*time.Second)
	defer cancel()
	st, err := sc.h.transport.DialStream(ctx)
	if err != nil {
		return err
	}
	st.SetDeadline(time.Now().Add(10 * time.Second))
	if cut == "req-half" {
		st.Write(msg[:len(msg)/2])
		time.Sleep(15 * time.Millisecond)
	} else { // resp-unread: the host has everything; leave when the answer starts to arrive
		st.Write(msg)
		st.Read(make([]byte, 1))
	}
	st.Close()
	sc.h.rec.settle()
	return fmt.Errorf("abandoned (%s)", cut)
}

// execRawFund speaks RPCFundAccounts by hand: no client-side validation (extreme amounts,
// oversize batches), abort points, and a verbatim replay of the request bytes.
func (sc *scen) execRawFund(o opDesc) (coqOp string, ok bool, errStr string, payload []*big.Int, dataOK bool) {
	h := sc.h
	dataOK = true
	cs := h.cm.TipState()
	contract := h.contracts[o.C]
	var deps []proto4.AccountDeposit
	var ds []string
	total := new(big.Int)
	for _, d := range o.Deps {
		amt := curOf(bigOf(d.Amt))
		deps = append(deps, proto4.AccountDeposit{Account: sc.acc(d.K), Amount: amt})
		ds = append(ds, fmt.Sprintf("(%d, %s)", d.K, z(bigCur(amt))))
		total.Add(total, bigCur(amt))
	}
	req := proto4.RPCFundAccountsRequest{ContractID: contract.ID, Deposits: deps, RenterSignature: h.renter[o.C].SignHash(types.Hash256{1})}
	rsig := "NoSig"
	var rev types.V2FileContract
	signed := false
	signFor := total
	if o.Arg == "wrap" {
		// a dishonest renter signs for the total as 128-bit arithmetic wraps it
		signFor = new(big.Int).Mod(total, new(big.Int).Lsh(big.NewInt(1), 128))
	}
	if signFor.Cmp(types.MaxCurrency.Big()) <= 0 {
		if r, _, rerr := proto4.ReviseForFundAccounts(contract.Revision, curOf(signFor)); rerr == nil {
			rev, signed = r, true
			rev.RenterSignature = h.renter[o.C].SignHash(cs.ContractSigHash(rev))
			req.RenterSignature = rev.RenterSignature
			rsig = sigTerm(renterKeyID(o.C), fmt.Sprintf("MRevision %d %d %s %s", o.C, rev.RevisionNumber, z(bigCur(rev.RenterOutput.Value)), z(bigCur(rev.HostOutput.Value))))
		}
	}
	coqOp = fmt.Sprintf("Fund %d [%s] %s", o.C, strings.Join(ds, "; "), rsig)
	var msg bytes.Buffer
	proto4.WriteRequest(&msg, proto4.RPCFundAccountsID, &req)
	var err error
	if o.Cut != "" {
		err = sc.sendCut(msg.Bytes(), o.Cut)
		if signed && o.Cut == "resp-unread" {
			// if the host completed it, the revision it holds is the one signed here
			if rs, serr := h.state(o.C); serr == nil && rs.Revision.RevisionNumber == rev.RevisionNumber {
				h.contracts[o.C].Revision = rs.Revision
			}
		}
	} else {
		var resp proto4.RPCFundAccountsResponse
		err = sc.rawBytes(msg.Bytes(), &resp)
		if err == nil {
			rev.HostSignature = resp.HostSignature
			h.contracts[o.C].Revision = rev
			for _, b := range resp.Balances {
				payload = append(payload, bigCur(b))
			}
			if o.Arg == "replay" {
				// the very same bytes again: the revision they carry is no longer new
				var again proto4.RPCFundAccountsResponse
				if sc.rawBytes(msg.Bytes(), &again) == nil {
					sc.counts["replayed-fund-accepted"]++
				}
			}
		}
	}
	ok = err == nil
	if err != nil {
		errStr = err.Error()
	}
	return
}

func (sc *scen) rawBytes(msg []byte, resp proto4.Object) error {
	ctx, cancel := context.WithTimeout(context.Background(), 20*time.Second)
	defer cancel()
	st, err := sc.h.transport.DialStream(ctx)
	if err != nil {
		return err
	}
	defer st.Close()
	st.SetDeadline(time.Now().Add(20 * time.Second))
	if _, err := st.Write(msg); err != nil {
		return err
	}
	return proto4.ReadResponse(st, resp)
}

// execRawRepl speaks RPCReplenishAccounts / RPCReplenishPools by hand. mid, if not nil, runs
// after the host has announced the deposits and before the renter signs.
func (sc *scen) execRawRepl(o opDesc, mid func()) (coqOp string, ok bool, errStr string, payload []*big.Int, dataOK bool) {
	h := sc.h
	dataOK = true
	cs := h.cm.TipState()
	pool := o.Kind == "replP"
	contract := h.contracts[o.C]
	rk := h.renter[o.C]
	var accts []proto4.Account
	for _, k := range o.Keys {
		accts = append(accts, sc.acc(k))
	}
	target := curOf(bigOf(o.Target))
	req := proto4.RPCReplenishAccountsRequest{Accounts: accts, Target: target, ContractID: contract.ID}
	req.ChallengeSignature = rk.SignHash(req.ChallengeSigHash(contract.Revision.RevisionNumber))
	chal := sigTerm(renterKeyID(o.C), fmt.Sprintf("MChallenge %d %s %s %d", o.C, nlist(o.Keys), z(bigCur(target)), contract.Revision.RevisionNumber))
	rsig := "NoSig"
	term := func() {
		coqOp = fmt.Sprintf("Replenish %v %d %s %s %s %s", pool, o.C, nlist(o.Keys), z(bigCur(target)), chal, rsig)
	}
	term()
	id := proto4.RPCReplenishAccountsID
	if pool {
		id = proto4.RPCReplenishPoolsID
	}
	var msg bytes.Buffer
	proto4.WriteRequest(&msg, id, &req)
	fail := func(err error) {
		ok, errStr = false, err.Error()
	}
	if o.Cut == "req-half" {
		fail(sc.sendCut(msg.Bytes(), o.Cut))
		return
	}
	ctx, cancel := context.WithTimeout(context.Background(), 20*time.Second)
	defer cancel()
	st, err := h.transport.DialStream(ctx)
	if err != nil {
		fail(err)
		return
	}
	defer st.Close()
	st.SetDeadline(time.Now().Add(20 * time.Second))
	st.Write(msg.Bytes())
	var first proto4.RPCReplenishAccountsResponse
	if err := proto4.ReadResponse(st, &first); err != nil {
		fail(err)
		return
	}
	sum := new(big.Int)
	for _, d := range first.Deposits {
		payload = append(payload, bigCur(d.Amount))
		sum.Add(sum, bigCur(d.Amount))
	}
	if o.Cut == "after-deposits" {
		// the renter never signs
		time.Sleep(15 * time.Millisecond)
		st.Close()
		h.rec.settle()
		payload = nil
		fail(fmt.Errorf("abandoned (%s)", o.Cut))
		return
	}
	if mid != nil {
		mid()
	}
	if sum.Sign() == 0 {
		ok = true
		return
	}
	if sum.Cmp(types.MaxCurrency.Big()) > 0 {
		payload = nil
		fail(fmt.Errorf("deposits overflow"))
		return
	}
	rev, _, rerr := proto4.ReviseForReplenish(contract.Revision, curOf(sum))
	if rerr != nil {
		payload = nil
		fail(rerr)
		return
	}
	rev.RenterSignature = rk.SignHash(cs.ContractSigHash(rev))
	rsig = sigTerm(renterKeyID(o.C), fmt.Sprintf("MRevision %d %d %s %s", o.C, rev.RevisionNumber, z(bigCur(rev.RenterOutput.Value)), z(bigCur(rev.HostOutput.Value))))
	term()
	if err := proto4.WriteResponse(st, &proto4.RPCReplenishAccountsSecondResponse{RenterSignature: rev.RenterSignature}); err != nil {
		payload = nil
		fail(err)
		return
	}
	if o.Cut == "sig-sent" {
		st.Read(make([]byte, 1))
		st.Close()
		h.rec.settle()
		if rs, serr := h.state(o.C); serr == nil && rs.Revision.RevisionNumber == rev.RevisionNumber {
			h.contracts[o.C].Revision = rs.Revision
		}
		fail(fmt.Errorf("abandoned (%s)", o.Cut))
		return
	}
	var third proto4.RPCReplenishAccountsThirdResponse
	if err := proto4.ReadResponse(st, &third); err != nil {
		payload = nil
		fail(err)
		return
	}
	rev.HostSignature = third.HostSignature
	h.contracts[o.C].Revision = rev
	ok = true
	return
}

// execPricedArg sends a read / write / verify with an extreme or illegal shape.
func (sc *scen) execPricedArg(o opDesc, tok proto4.AccountToken, tterm string) (coqOp string, ok bool, errStr string, payload []*big.Int, dataOK bool) {
	h := sc.h
	dataOK = true
	cost := sc.cost(o)
	root := sc.roots[o.Sector]
	var msg bytes.Buffer
	var err error
	switch o.Kind {
	case "read":
		coqOp = fmt.Sprintf("ReadSec %d %s %d %s", o.A, tterm, o.Sector, z(cost))
		off, n := argRange(o)
		proto4.WriteRequest(&msg, proto4.RPCReadSectorID, &proto4.RPCReadSectorRequest{Prices: h.prices, Token: tok, Root: root, Offset: off, Length: n})
		ctx, cancel := context.WithTimeout(context.Background(), 20*time.Second)
		defer cancel()
		st, derr := h.transport.DialStream(ctx)
		if derr != nil {
			err = derr
			break
		}
		defer st.Close()
		st.SetDeadline(time.Now().Add(20 * time.Second))
		st.Write(msg.Bytes())
		var resp proto4.RPCReadSectorResponse
		if err = proto4.ReadResponse(st, &resp); err == nil {
			got := make([]byte, resp.DataLength)
			if _, rerr := readFull(st, got); rerr != nil {
				err = rerr
			} else {
				dataOK = bytes.Equal(got, sc.sectorBytes(o.Sector, off, n))
			}
		}
	case "write":
		coqOp = fmt.Sprintf("WriteSec %d %s %d %s", o.A, tterm, o.Sector, z(cost))
		var dl uint64
		var data []byte
		switch o.Arg {
		case "dlen-unaligned":
			dl, data = 32, sc.data[o.Sector][:32]
		case "dlen-over":
			dl = proto4.SectorSize + 64
		}
		proto4.WriteRequest(&msg, proto4.RPCWriteSectorID, &proto4.RPCWriteSectorRequest{Prices: h.prices, Token: tok, DataLength: dl})
		var resp proto4.RPCWriteSectorResponse
		err = sc.rawBytes(append(msg.Bytes(), data...), &resp)
	default:
		coqOp = fmt.Sprintf("VerifySec %d %s %d %s", o.A, tterm, o.Sector, z(cost))
		leaf := uint64(proto4.LeavesPerSector - 1)
		if o.Arg == "leaf-over" {
			leaf = proto4.LeavesPerSector
		}
		proto4.WriteRequest(&msg, proto4.RPCVerifySectorID, &proto4.RPCVerifySectorRequest{Prices: h.prices, Token: tok, Root: root, LeafIndex: leaf})
		var resp proto4.RPCVerifySectorResponse
		if err = sc.rawBytes(msg.Bytes(), &resp); err == nil {
			dataOK = proto4.VerifyLeafProof(resp.Proof, resp.Leaf, leaf, root)
		}
	}
	ok = err == nil
	if err != nil {
		errStr = err.Error()
	}
	return
}

func readFull(r interface{ Read([]byte) (int, error) }, b []byte) (int, error) {
	n := 0
	for n < len(b) {
		m, err := r.Read(b[n:])
		n += m
		if err != nil {
			return n, err
		}
	}
	return n, nil
}

// argRange gives offset and length of a read with an Arg.
func argRange(o opDesc) (off, n uint64) {
	switch o.Arg {
	case "off-unaligned":
		return 32, 32 // the end is leaf aligned, the start is not
	case "off-last":
		return proto4.SectorSize - 64, 64
	case "full":
		return 0, proto4.SectorSize
	case "len0":
		return 64, 0
	case "beyond":
		return proto4.SectorSize - 64, 128
	}
	return o.Off, o.Len // off-mid
}

// lenOf is the length the price of a read with an Arg is computed from.
func lenOf(o opDesc) uint64 {
	if o.Arg == "" {
		return o.Len
	}
	_, n := argRange(o)
	return n
}

// stepMid runs a replenish with another RPC between its two phases. Monitor-only (the model
// takes a replenish as one step). Under any interleaving the property still fixes: every
// credit is matched by the revision persisted with it; the host credits exactly the deposits
// it announced (they are what the renter signed for); the ledger moves by credits minus
// debits only. "Never beyond the target" is a statement about the balances the host read at
// the start of the replenish and is not demanded against an RPC that ran in between.
func (sc *scen) stepMid(o opDesc) (*failure, error) {
	sc.noCoq = true
	h := sc.h
	before := sc.ref
	mid := *o.Mid
	pool := o.Kind == "replP"
	// deposits are planned against the balances before the mid RPC
	plan := o
	plan.Mid = nil
	exRepl := sc.expected(plan)
	var midOK bool
	var midEx expect
	var obMid observed
	_, ok, errStr, payload, _ := sc.execRawRepl(o, func() {
		midEx = sc.expected(mid)
		sameContract := (mid.Kind == "fund" || mid.Kind == "replA" || mid.Kind == "replP") && mid.C == o.C
		if sameContract {
			// the contract is locked by the replenish in progress
			midEx = expect{after: sc.ref.clone(), boundary: 99}
		}
		_, midOK, obMid.err, obMid.payload, obMid.dataOK = sc.exec(mid)
	})
	var ob observed
	ob.ok, ob.err, ob.payload, ob.dataOK = ok, errStr, payload, true
	if err := sc.observe(&ob); err != nil {
		return nil, err
	}
	sc.trace = append(sc.trace, stepRec{op: o, obs: ob})
	sc.counts["mid:"+mid.Kind]++
	at := len(sc.trace) - 1
	fail := func(kind, format string, a ...any) (*failure, error) {
		return &failure{kind, fmt.Sprintf("%s: ", o) + fmt.Sprintf(format, a...), at}, nil
	}
	if ob.locked > 0 {
		return fail("contract-left-locked", "contract %d cannot be locked any more", ob.locked-1)
	}
	if midEx.after != nil && midOK != midEx.ok {
		return fail("outcome-differs-mid-"+mid.Kind, "the RPC run between the phases of the replenish returned success=%v (%s), expected %v", midOK, obMid.err, midEx.ok)
	}
	// every credit call: matched by its revision, and equal to the announced deposits
	cs := h.cm.TipState()
	credits, debits := new(big.Int), new(big.Int)
	after := before.clone()
	for _, c := range ob.calls {
		if c.Err != nil {
			continue
		}
		switch c.Kind {
		case "creditA", "creditP":
			total := new(big.Int)
			m := after.acct
			if c.Kind == "creditP" {
				m = after.pool
			}
			for _, d := range c.Deposits {
				total.Add(total, bigCur(d.Amount))
				k := sc.keyIdx(d.Account)
				m[k] = new(big.Int).Add(get(m, k), bigCur(d.Amount))
			}
			credits.Add(credits, total)
			fr := new(big.Int).Sub(bigCur(c.Prev.RenterOutput.Value), bigCur(c.Rev.RenterOutput.Value))
			to := new(big.Int).Sub(bigCur(c.Rev.HostOutput.Value), bigCur(c.Prev.HostOutput.Value))
			if fr.Cmp(total) != 0 || to.Cmp(total) != 0 || !c.Prev.RenterPublicKey.VerifyHash(cs.ContractSigHash(c.Rev), c.Rev.RenterSignature) {
				return fail("credit-without-matching-revision", "credited %v but the renter-signed revision moved %v out of the renter output and %v into the host output", total, fr, to)
			}
			if c.Contract == h.contracts[o.C].ID && (c.Kind == "creditP") == pool {
				if len(c.Deposits) != len(payload) {
					return fail("credit-differs-from-announced-deposits", "%d deposits credited, %d announced", len(c.Deposits), len(payload))
				}
				for i, d := range c.Deposits {
					if bigCur(d.Amount).Cmp(payload[i]) != 0 {
						return fail("credit-differs-from-announced-deposits", "deposit %d: credited %v, announced (and signed for) %v", i, d.Amount, payload[i])
					}
				}
			}
		case "debit":
			debits.Add(debits, bigCur(c.Cost))
			after.debit(sc.keyIdx(c.Account), bigCur(c.Cost))
		case "attach":
			for _, a := range c.Attach {
				after.poolExists[sc.keyIdx(a.Pool)] = true
			}
		}
	}
	delta := new(big.Int).Sub(sumBal(ob.acct, ob.pool), sumBal(before.acct, before.pool))
	if want := new(big.Int).Sub(credits, debits); delta.Cmp(want) != 0 {
		return fail("ledger-sum-differs", "the balances changed by %v, credits minus debits are %v", delta, want)
	}
	if ok != exRepl.ok {
		return fail("outcome-differs-"+o.Kind, "client success=%v (%s), expected %v", ok, errStr, exRepl.ok)
	}
	if ok && len(exRepl.payload) == len(payload) {
		for i := range payload {
			if payload[i].Cmp(exRepl.payload[i]) != 0 {
				return fail("response-differs-"+o.Kind, "announced deposit %d is %v, expected %v", i, payload[i], exRepl.payload[i])
			}
		}
	}
	// adopt what happened: mid's expected effect, then the announced deposits
	next := midEx.after
	if next == nil {
		next = before.clone()
	}
	if ok {
		m := next.acct
		if pool {
			m = next.pool
		}
		sum := new(big.Int)
		for i, k := range o.Keys {
			if i < len(payload) {
				m[k] = new(big.Int).Add(get(m, k), payload[i])
				sum.Add(sum, payload[i])
				if pool {
					next.poolExists[k] = true
				}
			}
		}
		if sum.Sign() > 0 {
			cv := &next.contract[o.C]
			cv.Renter = new(big.Int).Sub(cv.Renter, sum)
			cv.Host = new(big.Int).Add(cv.Host, sum)
			cv.RevNum++
		}
	}
	for _, k := range allKeys {
		if get(ob.acct, k).Cmp(get(next.acct, k)) != 0 || get(ob.pool, k).Cmp(get(next.pool, k)) != 0 {
			return fail("balances-differ-interleaved", "key %d: account %v pool %v, expected account %v pool %v", k, get(ob.acct, k), get(ob.pool, k), get(next.acct, k), get(next.pool, k))
		}
	}
	sc.ref = next
	return nil, nil
}
