package main

import (
	"fmt"

	"verif/harness/internal/chaingen"
	"verif/harness/internal/mgrsim"
	"verif/harness/internal/rng"
)

func main() {
	for regime := 0; regime < 6; regime++ {
		near, trees := 0, 0
		for s := 0; s < 40; s++ {
			r := rng.New(uint64(1000*regime + s))
			env := chaingen.NewEnv(r, regime)
			t := chaingen.Gen(r, env, chaingen.GenOpts{Blocks: 20, Branchiness: 4, TxPerBlock: 1, Jitter: 4000})
			trees++
			found := false
			for _, a := range t.Nodes {
				for _, b := range t.Nodes {
					atw, _ := a.Work()
					btw, _ := b.Work()
					if atw.Cmp(btw) > 0 && !mgrsim.Heavier(a, b) {
						found = true
					}
				}
			}
			if found {
				near++
			}
			if s == 0 {
				for _, n := range t.Nodes[:12] {
					tw, d := n.Work()
					fmt.Print(n.Height, ":", tw, "/", d, " ")
				}
				fmt.Println()
			}
		}
		fmt.Println(chaingen.RegimeNames[regime], "trees with a near-tie pair:", near, "/", trees)
	}
}
