package main

import (
	"fmt"
	"os"
	"time"

	"verif/harness/internal/chaingen"
	"verif/harness/internal/rng"
)

func main() {
	chaingen.Debug = len(os.Args) > 1
	for regime := 0; regime < 3; regime++ {
		t0 := time.Now()
		r := rng.New(uint64(regime) + 1)
		env := chaingen.NewEnv(r, regime)
		t := chaingen.Gen(r, env, chaingen.GenOpts{Blocks: 30, Branchiness: 5, TxPerBlock: 4, Corruptions: 6})
		kinds := map[string]int{}
		corr := map[string]int{}
		maxh := uint64(0)
		for _, n := range t.Nodes {
			for _, k := range n.Kinds {
				if n.Corrupt == "" {
					kinds[k]++
				}
			}
			if n.Corrupt != "" {
				corr[fmt.Sprintf("%s hdr=%v body=%v", n.Corrupt, n.HdrOK, n.BodyOK)]++
			}
			if n.Height > maxh {
				maxh = n.Height
			}
		}
		fmt.Println(chaingen.RegimeNames[regime], "nodes", len(t.Nodes), "maxheight", maxh, time.Since(t0))
		fmt.Println("  kinds", kinds)
		fmt.Println("  corruptions", corr)
	}
}
