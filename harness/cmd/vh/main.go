// Command vh is the verification harness: one subcommand per property. Each
// drives the real implementation from /repo (built with -tags verif), evaluates
// the property's monitors, and writes cases files for the Coq model.
package main

import (
	"flag"
	"fmt"
	"os"
	"sort"

	"verif/harness/internal/out"
	"verif/harness/internal/rng"
)

// Ctx is passed to every property runner.
type Ctx struct {
	Seed     uint64
	Thorough bool
	Replay   string
	R        *rng.R
	Res      *out.Result
}

// Scale returns q in the quick tier and t in the thorough tier.
func (c *Ctx) Scale(q, t int) int {
	if c.Thorough {
		return t
	}
	return q
}

var runners = map[string]func(*Ctx){}

func main() {
	if len(os.Args) < 2 {
		names := []string{}
		for k := range runners {
			names = append(names, k)
		}
		sort.Strings(names)
		fmt.Println("usage: vh <property> [-seed n] [-tier quick|thorough] [-out dir] [-replay file]; properties:", names)
		os.Exit(2)
	}
	prop := os.Args[1]
	fs := flag.NewFlagSet(prop, flag.ExitOnError)
	seed := fs.Uint64("seed", 1, "seed")
	tier := fs.String("tier", "quick", "quick|thorough")
	dir := fs.String("out", "", "output directory")
	replay := fs.String("replay", "", "replay file")
	fs.Parse(os.Args[2:])
	run, ok := runners[prop]
	if !ok {
		fmt.Println("unknown property", prop)
		os.Exit(2)
	}
	if *dir == "" {
		*dir = "/verif/run/" + prop
	}
	c := &Ctx{Seed: *seed, Thorough: *tier == "thorough", Replay: *replay, R: rng.New(*seed), Res: out.New(prop, *dir)}
	run(c)
	c.Res.Finish()
}
