// Command c01 checks C01 (best chain always valid, heaviest-known, never loses
// work) on the real chain.Manager: generated fork trees, submission plans,
// monitors against the tree's independent validity labels, and cases for the
// Coq manager model.
package main

import (
	"bytes"
	"strings"

	"go.sia.tech/core/types"

	"encoding/json"
	"fmt"
	"go.sia.tech/coreutils/chain"
	"os"

	"verif/harness/internal/chaingen"
	"verif/harness/internal/hx"
	"verif/harness/internal/mgrsim"
	"verif/harness/internal/rng"
	"verif/harness/internal/storeobs"
)

func main() { hx.Main("C01", run) }

type failure struct {
	kind, detail string
	at           int
}

// drive says how a history is driven besides its plan (mgrsim/ext.go): modes, whether the expiring-contract
// override option is given, and which read call is the first after the unobserved re-run.
type drive struct {
	Modes []string
	Order bool   // manager created WithExpiringContractOrder (entries for ids that are not in the tree)
	First string // "" = no unobserved re-run
}

func driveOf(cs mgrsim.Case) drive {
	d := drive{}
	for _, m := range cs.Modes {
		switch {
		case m == "order-option":
			d.Order = true
		case strings.HasPrefix(m, "blind:"):
			d.First = strings.TrimPrefix(m, "blind:")
		default:
			d.Modes = append(d.Modes, m)
		}
	}
	return d
}

func newSim(t *chaingen.Tree, d drive) *mgrsim.Sim {
	s := mgrsim.NewSim(t, nil)
	if d.Order {
		// a public option of the manager: an override table that prescribes, for every block of the tree that
		// expires v1 contracts, the order a node that saw the chain linearly uses (plus keys that are not
		// blocks of this tree) must not change the behaviour of the node
		s.WithManagerOptions(chain.WithExpiringContractOrder(orderTable(t)))
	}
	if len(d.Modes) > 0 {
		s.Enable(d.Modes...)
	}
	return s
}

var orderTables = map[*chaingen.Tree]map[types.BlockID][]types.FileContractID{}

// orderTable replays every valid leaf's chain on a fresh linear node and reads the order of the expiring
// contracts from the supplements that node stored.
func orderTable(t *chaingen.Tree) map[types.BlockID][]types.FileContractID {
	if tbl, ok := orderTables[t]; ok {
		return tbl
	}
	tbl := map[types.BlockID][]types.FileContractID{}
	for i := 0; i < 3; i++ {
		tbl[types.BlockID{0xEE, byte(i)}] = []types.FileContractID{{1}, {2}}
	}
	for _, op := range mgrsim.FinalFlush(t) {
		store, cm := t.Env.NewManager()
		var path []types.Block
		for _, id := range op.Nodes {
			path = append(path, t.Nodes[id].Block)
		}
		if cm.AddBlocks(path) != nil {
			continue
		}
		for _, id := range op.Nodes {
			if _, bs, ok := store.Block(t.Nodes[id].ID); ok && bs != nil && len(bs.ExpiringFileContracts) > 0 {
				var ids []types.FileContractID
				for _, fce := range bs.ExpiringFileContracts {
					ids = append(ids, fce.ID)
				}
				tbl[t.Nodes[id].ID] = ids
			}
		}
	}
	orderTables[t] = tbl
	return tbl
}

// runCase runs the plan and evaluates the monitors; returns observations and the first failure.
func runCase(t *chaingen.Tree, d drive, plan []mgrsim.Op, final bool) ([]mgrsim.Obs, *failure) {
	s := newSim(t, d)
	var prev mgrsim.Obs
	s.Observe(&prev)
	var obs []mgrsim.Obs
	submitted := map[int]bool{0: true}
	twinSeen := false
	var fail *failure
	report := func(i int, kind, format string, a ...any) {
		if fail == nil {
			fail = &failure{kind, fmt.Sprintf(format, a...), i}
		}
	}
	all := append([]mgrsim.Op(nil), plan...)
	if final {
		all = append(all, mgrsim.FinalFlush(t)...)
	}
	var planEnd mgrsim.Obs
	var firstObserved string
	var legal []mgrsim.Op // the plan as executed (see legalise)
	atPlanEnd := func() {
		planEnd = prev
		if d.First != "" {
			firstObserved = mgrsim.ReadAPI(s, d.First)
		}
	}
	stopped := false
	for i, op := range all {
		if i == len(plan) {
			atPlanEnd()
		}
		for _, id := range op.Nodes {
			if t.Nodes[id].TwinOf == nil {
				submitted[id] = true // a same-id twin does not count as a submission of the genuine block
			} else {
				twinSeen = true
			}
		}
		op = legalise(t, op, prev)
		if i < len(plan) {
			legal = append(legal, op)
		}
		o := s.Do(op)
		if o.Hung {
			report(i, "c01-call-hangs", "%s (a reorg listener reads the manager from inside the notification: modes %v)", o.ErrText, d.Modes)
			stopped = true
			break
		}
		if i < len(plan) {
			obs = append(obs, o)
		}
		checkStep(t, op, prev, o, submitted, func(kind, format string, a ...any) { report(i, kind, format, a...) })
		checkExt(t, op, prev, o, twinSeen, func(kind, format string, a ...any) { report(i, kind, format, a...) })
		prev = o
		if o.Panic {
			stopped = true
			break
		}
	}
	if len(all) == len(plan) && !stopped {
		atPlanEnd()
	}
	if final && fail == nil {
		// heaviest-known: after every valid branch was submitted whole, no valid block that the node could
		// adopt (bodies on both sides of the fork point in its store: a pruned node legitimately refuses forks
		// below the pruned height, C19) is sufficiently heavier than the tip
		tip := t.Nodes[prev.Best[0]]
		for _, x := range t.Nodes {
			if adoptable(t, x, prev, nil) && x.State.SufficientlyHeavierThan(tip.State) {
				report(len(all), "c01-not-heaviest", "every valid branch was submitted as a whole, yet valid block %d is sufficiently heavier than the tip %d and every block needed to reorganise to it is in the node's store", x.Idx, tip.Idx)
			}
		}
	}
	if fail == nil && d.First != "" && !stopped && len(obs) == len(plan) {
		// class 1: the same plan on a fresh node with no read between the calls; the first read afterwards is
		// d.First; what it returns and everything observed after it must be what the observed node serves
		firstBlind, blind, bad := mgrsim.RunBlind(t, legal, d.Modes, d.First)
		if bad != "" {
			report(len(plan), "c01-unobserved-run-fails", "the plan run without any read between the calls: %s (with an observation after every call it ran through)", bad)
		} else if firstBlind != firstObserved {
			report(len(plan), "c01-first-read-after-unobserved-run-differs", "the plan run without any read between the calls, then %s as the very first read: it returns %.300q; on the node that was observed after every call the same read returns %.300q", d.First, firstBlind, firstObserved)
		} else if why, same := mgrsim.SameState(planEnd, blind); !same {
			report(len(plan), "c01-unobserved-run-differs", "the plan run without any read between the calls ends in another state than with an observation after every call: %s", why)
		}
	}
	return obs, fail
}

// legalise turns an "addv-bad" of flavour 2 (a pre-validated segment whose parent the node does not know)
// into flavour 1 (one state fewer than blocks) when the node happens to know the parent: only then is the
// call outside the documented precondition whatever the history was.
func legalise(t *chaingen.Tree, op mgrsim.Op, before mgrsim.Obs) mgrsim.Op {
	if op.Kind == "addv-bad" && op.Height == 2 && len(op.Nodes) > 0 {
		if p := t.Nodes[op.Nodes[0]].Parent; p == nil || known(before, p.Idx).State == 1 || known(before, p.Idx).State == 2 {
			op.Height = 1
		}
	}
	return op
}

// checkExt: monitors of the opt-in modes and operations (mgrsim/ext.go).
func checkExt(t *chaingen.Tree, op mgrsim.Op, prev, o mgrsim.Obs, twinSeen bool, report func(kind, format string, a ...any)) {
	if o.Panic || len(o.Best) == 0 || o.Best[0] < 0 {
		return
	}
	// a concurrent reader sees the tip before the call or the tip after it, nothing else
	for _, id := range o.Polled {
		if id != prev.Best[0] && id != o.Best[0] {
			report("c01-intermediate-tip-visible", "while %v ran (tip %d before, %d after) a concurrent reader was served tip %d (-2: an index that is no block of the tree)", op, prev.Best[0], o.Best[0], id)
		}
	}
	for _, f := range o.ListenerFaults {
		report("c01-reader-sees-inconsistent-state", "during %v: %s", op, f)
	}
	// the node keeps what it was given, not the caller's memory
	if !twinSeen {
		for _, k := range o.Known {
			if k.Body && !k.Good {
				report("c01-stored-body-not-the-submitted-block", "after %v the stored body of block %d differs from the block that was submitted (no same-id copy was ever submitted; the caller's slices are overwritten after each call)", op, k.ID)
				break
			}
		}
	}
	if mgrsim.ModelNoOp(op) {
		if op.Kind == "addv-bad" && !o.Err {
			report("c01-illegal-prevalidated-batch-accepted", "%v (1: one state fewer than blocks, 2: parent unknown to the node) returned no error", op)
		}
		if why, same := mgrsim.SameState(prev, o); !same {
			kind := "c01-reopen-changed-state"
			if op.Kind == "addv-bad" {
				kind = "c01-illegal-prevalidated-batch-changed-state"
			}
			report(kind, "%v changed what the node serves: %s", op, why)
		}
	}
}

func checkStep(t *chaingen.Tree, op mgrsim.Op, prev, o mgrsim.Obs, submitted map[int]bool, report func(kind, format string, a ...any)) {
	if o.Panic {
		report("c01-panic", "%v panicked: %s", op, o.ErrText)
		return
	}
	// the reported chain is parent-linked from genesis, every block valid
	for i, id := range o.Best {
		if id < 0 {
			report("c01-best-chain-broken", "after %v BestIndex(%d) is missing or unknown to the generator", op, len(o.Best)-1-i)
			return
		}
		n := t.Nodes[id]
		if i+1 < len(o.Best) {
			if n.Parent == nil || n.Parent.Idx != o.Best[i+1] {
				report("c01-best-chain-not-linked", "after %v block %d at height %d does not link to %d", op, id, n.Height, o.Best[i+1])
				return
			}
		} else if id != 0 {
			report("c01-best-chain-not-from-genesis", "after %v the best chain starts at %d", op, id)
			return
		}
		if n.Parent != nil && !(n.HdrOK && n.BodyOK) {
			report("c01-invalid-block-adopted", "after %v the best chain contains block %d (corruption %q, hdr_ok=%v body_ok=%v)", op, id, n.Corrupt, n.HdrOK, n.BodyOK)
			return
		}
		if !submitted[id] {
			report("c01-unsubmitted-block", "after %v the best chain contains block %d that was never submitted", op, id)
			return
		}
	}
	if o.AboveTip != 0 {
		report("c01-best-index-above-tip", "after %v BestIndex still answers for %d height(s) above the tip (height %d)", op, o.AboveTip, len(o.Best)-1)
		return
	}
	for _, id := range o.Best {
		if k := o.Known[id]; k.Body && !k.Good {
			report("c01-best-chain-body-not-genuine", "after %v the stored body of best-chain block %d is not the block that was validated (a same-id copy)", op, id)
			return
		}
	}
	tipN := t.Nodes[o.Best[0]]
	// reported tip state = replay of exactly those blocks (the generator's builder / linear node produced FullState)
	var buf bytes.Buffer
	_ = buf
	if !bytes.Equal(o.TipState, encFull(tipN)) {
		report("c01-tip-state-differs", "after %v TipState differs from the linear replay of the best chain (tip %d)", op, tipN.Idx)
		return
	}
	prevTip := t.Nodes[prev.Best[0]]
	if tipN != prevTip {
		if !mgrsim.Heavier(tipN, prevTip) {
			report("c01-tip-moved-without-sufficient-work", "%v moved the tip %d -> %d although the new chain is not sufficiently heavier", op, prevTip.Idx, tipN.Idx)
		}
		ptw, _ := prevTip.Work()
		ntw, _ := tipN.Work()
		if ntw.Cmp(ptw) < 0 {
			report("c01-work-decreased", "%v lowered the tip's total work (%d -> %d)", op, prevTip.Idx, tipN.Idx)
		}
		if o.Err {
			report("c01-failed-call-moved-tip", "%v returned an error but the tip moved %d -> %d: %s", op, prevTip.Idx, tipN.Idx, o.ErrText)
		}
	}
	// heaviest-known, per call: the reorg decision is taken for the last block of the submission. If that
	// block is valid with its whole ancestry (generator's labels), sufficiently heavier than the tip before
	// the call (core's rule on the generator's own states) and every block needed to reorganise to it is
	// available to the node, the call must end with that block as the tip.
	if (op.Kind == "add" || op.Kind == "addv") && len(op.Nodes) > 0 {
		b := t.Nodes[op.Nodes[len(op.Nodes)-1]]
		if b != tipN && adoptable(t, b, prev, &op) && b.State.SufficientlyHeavierThan(prevTip.State) {
			ptw, pd := prevTip.Work()
			btw, _ := b.Work()
			if !o.Err {
				report("c01-heavier-valid-chain-not-adopted", "%v returned no error, its last block %d is valid with its whole ancestry, every block needed to reorganise to it is available to the node and it is sufficiently heavier than the tip before the call (block %d: work %s > %s + %s/5), yet the tip is %d", op, b.Idx, prevTip.Idx, btw, ptw, pd, tipN.Idx)
			} else if cleanBatch(t, op, prev) {
				report("c01-heavier-valid-chain-refused", "%v failed (%s) although every submitted block is header-valid with a known parent, its last block %d is valid with its whole ancestry, every block needed to reorganise to it is available to the node and it is sufficiently heavier than the tip before the call (block %d: work %s > %s + %s/5)", op, o.ErrText, b.Idx, prevTip.Idx, btw, ptw, pd)
			}
		}
	}
	if o.Notified != (tipN != prevTip) {
		report("c01-notify-mismatch", "%v: listeners notified=%v but tip changed=%v", op, o.Notified, tipN != prevTip)
	}
	if o.Err {
		// every chain query exactly as before (DESIGN 4a): best chain, tip state, and the store's view of best-chain blocks
		if fmt.Sprint(o.Best) != fmt.Sprint(prev.Best) || !bytes.Equal(o.TipState, prev.TipState) {
			report("c01-failed-call-changed-chain", "%v failed (%s) but the best chain changed from %v to %v", op, o.ErrText, prev.Best, o.Best)
		}
		onBest := map[int]bool{}
		for _, id := range prev.Best {
			onBest[id] = true
		}
		for i, k := range o.Known {
			p := prev.Known[i]
			if onBest[k.ID] && k != p && !(op.Kind == "addv" && !p.Body && k.Body && k.Supp && k.State == p.State) {
				// (a pre-validated submission legitimately stores the blocks it was given, DESIGN 4a)
				report("c01-failed-call-changed-best-block", "%v failed (%s) but the stored record of best-chain block %d changed %+v -> %+v", op, o.ErrText, k.ID, p, k)
			}
		}
	}
	// the store only grows off the best chain: bodies stay, states only upgrade, supplements only for valid blocks
	if op.Kind != "prune" {
		for i, k := range o.Known {
			p := prev.Known[i]
			n := t.Nodes[k.ID]
			if p.Body && !k.Body {
				report("c01-body-lost", "%v removed the body of block %d", op, k.ID)
			}
			if p.State%10 == 2 && k.State%10 != 2 {
				report("c01-state-downgraded", "%v replaced the full state of block %d by state kind %d", op, k.ID, k.State)
			}
			if k.Supp && !(n.ChainValid()) {
				report("c01-supplement-for-invalid-block", "%v left a supplement for invalid block %d", op, k.ID)
			}
			if k.State >= 10 {
				report("c01-header-missing", "%v: block %d has a state or body but no header", op, k.ID)
			}
		}
	}
}

// adoptable is the ground truth for "the node can reorganise to x": x and its whole ancestry are valid
// (labels from core and a fresh linear node), and every block strictly above the fork point of x and the
// current tip is available to the node — on the best chain's side the blocks that must be reverted still
// have their bodies (a pruned body makes the reorg legitimately impossible, C19); on x's side, for a
// call (op != nil), each block is part of the submission or stored with its genuine body (a same-id copy
// submitted later legitimately replaces a body that was never applied). At the end of a history
// (op == nil) every valid block has just been submitted genuinely by the final flush, so x's side needs no
// condition: a node that then lacks or shadows one of those bodies is at fault. before is the observation
// preceding the call.
func adoptable(t *chaingen.Tree, x *chaingen.Node, before mgrsim.Obs, op *mgrsim.Op) bool {
	if x.TwinOf != nil || x.Parent == nil || !x.ChainValid() || len(before.Best) == 0 || before.Best[0] < 0 {
		return false
	}
	inOp := map[int]bool{}
	if op != nil {
		for _, id := range op.Nodes {
			if t.Nodes[id].TwinOf != nil {
				return false // a same-id copy in the submission may replace a stored body
			}
			inOp[id] = true
		}
	}
	onBest := map[int]bool{}
	for _, id := range before.Best {
		onBest[id] = true
	}
	f := x
	for ; !onBest[f.Idx]; f = f.Parent {
		if k := known(before, f.Idx); op != nil && !(inOp[f.Idx] || k.Body && k.Good) {
			return false
		}
	}
	for _, id := range before.Best {
		if id == f.Idx {
			break
		}
		if !known(before, id).Body {
			return false
		}
	}
	return true
}

// known returns the store's record of (non-twin) node id in an observation.
func known(o mgrsim.Obs, id int) mgrsim.KnownEntry {
	if id < len(o.Known) && o.Known[id].ID == id {
		return o.Known[id]
	}
	for _, k := range o.Known {
		if k.ID == id {
			return k
		}
	}
	return mgrsim.KnownEntry{ID: id}
}

// cleanBatch: nothing in the submission itself justifies an error — every block is header-valid, not
// from the future, not a same-id copy, and its parent is known to the node or precedes it in the batch.
func cleanBatch(t *chaingen.Tree, op mgrsim.Op, before mgrsim.Obs) bool {
	seen := map[int]bool{}
	for _, id := range op.Nodes {
		y := t.Nodes[id]
		if y.TwinOf != nil || y.Parent == nil || !y.HdrOK || y.Future {
			return false
		}
		if k := known(before, y.Parent.Idx); !(seen[y.Parent.Idx] || k.State == 1 || k.State == 2) {
			return false
		}
		seen[id] = true
	}
	return true
}

// classifyTipState re-runs the history on an observed store and lets the C02 judge decide
// whether a tip state that differs from the linear replay — or a valid chain refused because the
// state reached in the middle of the reorg differs from the one its blocks commit to — is the known
// expiry-order finding (the only served data differing from a linear twin are permuted expiration
// lists, explained by the exported diffs); then the kind is c01-tip-state-differs-by-expiry-order /
// c01-valid-chain-refused-by-expiry-order. Anything else keeps its kind.
func classifyTipState(t *chaingen.Tree, plan []mgrsim.Op, kind string) string {
	nd, err := storeobs.NewNode(t, chain.NewMemDB(), nil)
	if err != nil {
		return kind
	}
	for _, op := range plan {
		if o := nd.Do(op); o.Panic {
			return kind
		}
	}
	f, _ := storeobs.Judge(nd, storeobs.NewTwins(t))
	if f != nil && f.Kind == storeobs.KindF8 {
		return byExpiryOrder[kind]
	}
	return kind
}

var byExpiryOrder = map[string]string{
	"c01-tip-state-differs":           "c01-tip-state-differs-by-expiry-order",
	"c01-heavier-valid-chain-refused": "c01-valid-chain-refused-by-expiry-order",
}

func encFull(n *chaingen.Node) []byte {
	return mgrsim.EncState(n.FullState)
}

func shrink(t *chaingen.Tree, d drive, plan []mgrsim.Op, kind string) []mgrsim.Op {
	if kind == "c01-call-hangs" {
		return plan // every attempt costs a hang timeout
	}
	fails := func(p []mgrsim.Op) bool {
		_, f := runCase(t, d, p, kind == "c01-not-heaviest")
		return f != nil && f.kind == kind
	}
	for changed := true; changed; {
		changed = false
		for i := range plan {
			c := append(append([]mgrsim.Op(nil), plan[:i]...), plan[i+1:]...)
			if fails(c) {
				plan, changed = c, true
				break
			}
		}
		if changed {
			continue
		}
		// shrink batches
		for i := range plan {
			for j := range plan[i].Nodes {
				if len(plan[i].Nodes) <= 1 {
					break
				}
				if plan[i].Kind == "addv" && j != 0 && j != len(plan[i].Nodes)-1 {
					continue // keep pre-validated batches contiguous (documented precondition)
				}
				c := append([]mgrsim.Op(nil), plan...)
				nodes := append(append([]int(nil), plan[i].Nodes[:j]...), plan[i].Nodes[j+1:]...)
				c[i] = mgrsim.Op{Kind: plan[i].Kind, Nodes: nodes}
				if fails(c) {
					plan, changed = c, true
					break
				}
			}
			if changed {
				break
			}
		}
	}
	return plan
}

func describe(t *chaingen.Tree) []string {
	var out []string
	for _, n := range t.Nodes {
		p := -1
		if n.Parent != nil {
			p = n.Parent.Idx
		}
		tw, d := n.Work()
		out = append(out, fmt.Sprintf("block %d parent %d height %d hdr_ok=%v body_ok=%v corrupt=%q kinds=%v tw=%s diff=%s", n.Idx, p, n.Height, n.HdrOK, n.BodyOK, n.Corrupt, n.Kinds, tw, d))
	}
	return out
}

// hangs counts histories in which a call did not return; every further one would cost a hang timeout, so
// after the first the listener modes are dropped for the rest of the run (the failure is already reported).
var hangs int

func afterHang(modes []string) []string {
	if hangs == 0 {
		return modes
	}
	var out []string
	for _, m := range modes {
		if !strings.HasPrefix(m, "listener-") {
			out = append(out, m)
		}
	}
	return out
}

// safeTree regenerates the case's tree; the generator builds blocks with real chain.Manager
// nodes, so a panic there ("mined block rejected", "replay failed") means a linear node refused a
// valid block or chain: that is reported as a failure of the node, not as a harness crash.
func safeTree(cs mgrsim.Case) (t *chaingen.Tree, msg string) {
	defer func() {
		if r := recover(); r != nil {
			t, msg = nil, fmt.Sprint(r)
		}
	}()
	return cs.Tree(), ""
}

func run(c *hx.Ctx) {
	res := c.Res
	res.Shard = 40
	res.Rule = "fork trees of real mined blocks (3 hardfork regimes, every tx kind, single-field corruptions) x random submission plans (path segments, single blocks, mixed batches, concatenated branches, duplicates, orphans first, pre-validated v2 segments); every fifth tree chains transactions inside blocks and re-mines the transactions of one branch on its siblings (same ids), plus directed revert-and-re-mine shapes; per call: a valid, sufficiently heavier, adoptable last block must become the tip; non-trivial := the history contains a reorg of depth >= 2 or a rejected submission; distinct by (tree seed, plan)"
	var cases []string
	doCase := func(cs mgrsim.Case, toCoq bool) {
		t := cs.Tree()
		cs.Modes = afterHang(cs.Modes)
		d := driveOf(cs)
		obs, f := runCase(t, d, cs.Plan, true)
		if f != nil && f.kind == "c01-call-hangs" {
			hangs++
		}
		reorg2, rejected := false, false
		for i, o := range obs {
			if o.Err {
				rejected = true
			}
			if i > 0 && len(obs[i-1].Best) > 2 && len(o.Best) > 0 {
				// depth of the reorg = blocks of the previous chain no longer on the chain
				on := map[int]bool{}
				for _, id := range o.Best {
					on[id] = true
				}
				depth := 0
				for _, id := range obs[i-1].Best {
					if !on[id] {
						depth++
					}
				}
				if depth >= 2 {
					reorg2 = true
				}
			}
		}
		js, _ := json.Marshal(cs)
		res.Eval(string(js), reorg2 || rejected)
		res.Count("regime:" + chaingen.RegimeNames[cs.Regime])
		if mgrsim.HasTwin(t, cs.Plan) {
			res.Count("histories-with-same-id-twin(monitors-only)")
		}
		if cs.Opts.Remine > 0 {
			res.Count("histories-with-remined-transactions")
			for _, n := range t.Nodes {
				for _, k := range n.Kinds {
					if k == "remined-v1" || k == "remined-v2" {
						res.Count("blocks-carrying-" + k)
						break
					}
				}
			}
		}
		for _, k := range countAdoptions(t, cs.Plan, obs) {
			res.Count(k)
		}
		for _, k := range countDims(t, cs, obs) {
			res.Count(k)
		}
		res.CountN("calls", len(cs.Plan))
		res.CountN("blocks", len(t.Nodes)-1)
		if reorg2 {
			res.Count("histories-with-reorg-depth>=2")
		}
		if rejected {
			res.Count("histories-with-rejection")
		}
		for _, n := range t.Nodes {
			if n.Corrupt != "" {
				res.Count("corruption:" + n.Corrupt)
			}
		}
		if f != nil && byExpiryOrder[f.kind] != "" {
			upto := append(append([]mgrsim.Op(nil), cs.Plan...), mgrsim.FinalFlush(t)...) // runCase appends the final flush
			if f.at+1 < len(upto) {
				upto = upto[:f.at+1]
			}
			if k := classifyTipState(t, upto, f.kind); k != f.kind {
				what := "difference"
				if f.kind == "c01-heavier-valid-chain-refused" {
					what = "refusal (the state reached inside the reorg is not the one the chain's blocks commit to)"
				}
				res.Fail(k, f.detail+" — the C02 judge attributes the "+what+" to the expiration-list order (known finding F8)", map[string]any{"case": cs, "tree": describe(t)})
				if f.kind == "c01-heavier-valid-chain-refused" {
					// the manager model takes a block's validity from its label; under F8 the node's applyTip
					// disagrees with the label, so this history is judged by the monitors only
					toCoq = false
					res.Count("histories-excluded-from-correspondence(refusal-attributed-to-F8)")
				}
				f = nil
			}
		}
		if f != nil {
			small := shrink(t, d, cs.Plan, f.kind)
			_, f2 := runCase(t, d, small, f.kind == "c01-not-heaviest")
			if f.kind == "c01-call-hangs" {
				f2 = f
			}
			if f2 == nil {
				f2, small = f, cs.Plan
			}
			scs := cs
			scs.Plan = small
			res.Fail(f2.kind, f2.detail, map[string]any{"case": scs, "tree": describe(t)})
		}
		if toCoq && len(obs) == len(cs.Plan) && !mgrsim.HasTwin(t, cs.Plan) {
			// reopen and out-of-precondition calls are no-ops of the model (checkExt demands that they change nothing)
			mp, mo := mgrsim.ModelHistory(cs.Plan, obs)
			cases = append(cases, mgrsim.CoqCase(t, mp, mo))
		}
		if len(res.Samples) < 2 {
			var ops []string
			for _, op := range cs.Plan {
				ops = append(ops, op.String())
			}
			res.Sample(map[string]any{"regime": chaingen.RegimeNames[cs.Regime], "tree": describe(t), "plan": ops})
		}
	}
	if c.Replay != "" {
		var rp struct {
			Replay struct {
				Case mgrsim.Case `json:"case"`
			} `json:"replay"`
		}
		b, _ := os.ReadFile(c.Replay)
		json.Unmarshal(b, &rp)
		doCase(rp.Replay.Case, true)
		res.WriteCases("Run.Run_C01", cases)
		return
	}
	for _, cs := range corpus() {
		if t, gerr := safeTree(cs); t == nil {
			res.Eval(fmt.Sprint("generator ", cs.Seed), true)
			res.Fail("c01-linear-node-rejects-valid-block", "while building a directed fork tree a linear node (real chain.Manager fed only valid blocks in order) failed: "+gerr, map[string]any{"case": cs})
			continue
		}
		doCase(cs, true)
	}
	n := c.Scale(240, 6000)
	for i := 0; i < n; i++ {
		r := c.R.Fork()
		cs := mgrsim.Case{Seed: r.U64(), Regime: i % 6, Opts: chaingen.GenOpts{Blocks: 5 + r.Intn(18), Branchiness: 2 + r.Intn(5), TxPerBlock: r.Intn(4), Corruptions: r.Intn(4), Jitter: r.Intn(4), OnInvalid: r.Intn(3), Twins: r.Intn(6) / 5}}
		if cs.Regime >= 3 && r.Bool() {
			cs.Opts.Jitter = 4000 // fast and slow blocks: branches diverge in work (near-ties for the 20% rule)
		}
		if i%5 == 1 {
			// every fifth history (all six regimes in turn): blocks chain transactions inside themselves and
			// sibling branches re-mine the transactions of the other branch, as after a real reorg
			cs.Opts.Chained, cs.Opts.Remine = 2, 1+int(cs.Seed%3)
			// ... and v1 revisions that shorten the proof window (the stock kinds only extend it)
			cs.Opts.Kinds = append(append([]string(nil), chaingen.TxKinds...), "v1-revise-shrink", "v1-revise-shrink", "v1-form")
			if cs.Opts.TxPerBlock == 0 {
				cs.Opts.TxPerBlock = 2
			}
		}
		t, gerr := safeTree(cs)
		if t == nil {
			res.Eval(fmt.Sprint("generator ", cs.Seed), true)
			res.Fail("c01-linear-node-rejects-valid-block", "while building a fork tree a linear node (real chain.Manager fed only valid blocks in order) failed: "+gerr, map[string]any{"case": cs})
			continue
		}
		cs.Plan = mgrsim.GenPlan(rng.New(cs.Seed^0x5bd1e995), t, i%8 == 7)
		cs.Plan, cs.Modes = generalise(rng.New(cs.Seed^0x7f4a7c15), t, cs.Plan, i)
		doCase(cs, true)
	}
	res.WriteCases("Run.Run_C01", cases)
}

// generalise adds, by case number (so that every regime meets every dimension), the dimensions of the
// generalisation pass: how the node is driven (modes of mgrsim/ext.go, the override option, the unobserved
// re-run with one read call first) and extra operations (reopen, empty / genesis / duplicate batches,
// pre-validated batches outside the precondition, extreme prune heights).
func generalise(r *rng.R, t *chaingen.Tree, plan []mgrsim.Op, i int) ([]mgrsim.Op, []string) {
	var modes []string
	k := i / 6 // i%6 is the regime
	switch k % 4 {
	case 1:
		modes = append(modes, "scribble")
	case 2:
		modes = append(modes, "poll")
	case 3:
		modes = append(modes, "listener-reads")
	}
	if k%5 == 2 {
		modes = append(modes, "order-option")
	}
	if i%2 == 0 {
		modes = append(modes, "blind:"+mgrsim.ReadAPIs[(i/2)%len(mgrsim.ReadAPIs)])
	}
	insert := func(op mgrsim.Op) {
		at := 1 + r.Intn(len(plan))
		plan = append(plan[:at:at], append([]mgrsim.Op{op}, plan[at:]...)...)
	}
	n := len(t.Nodes)
	if k%3 == 1 {
		for j := 0; j < 1+r.Intn(2); j++ {
			insert(mgrsim.Op{Kind: "reopen"})
		}
	}
	if k%4 == 2 || k%4 == 0 && i%3 == 0 {
		insert(mgrsim.Op{Kind: "add"})                   // empty batch
		insert(mgrsim.Op{Kind: "add", Nodes: []int{0}}) // the genesis block itself
		x := 1 + r.Intn(n-1)
		insert(mgrsim.Op{Kind: "add", Nodes: []int{x, x}}) // the same block twice in one batch
		p := t.Path(t.Nodes[1+r.Intn(n-1)])
		var ids []int
		for _, y := range p[r.Intn(len(p)):] {
			ids = append(ids, y.Idx)
		}
		insert(mgrsim.Op{Kind: "add", Nodes: append(append([]int{0}, ids...), 0)}) // genesis first and last
		// pre-validated batches outside the documented precondition
		for _, flavour := range []uint64{1, 2} {
			x := t.Nodes[1+r.Intn(n-1)]
			p := t.Path(x)
			from := r.Intn(len(p))
			ok := x.ChainValid()
			var seg []int
			for _, y := range p[from:] {
				if y.Block.V2 == nil || y.Height < t.Env.Net.HardforkV2.RequireHeight || y.TwinOf != nil {
					ok = false
				}
				seg = append(seg, y.Idx)
			}
			if ok {
				insert(mgrsim.Op{Kind: "addv-bad", Nodes: seg, Height: flavour})
			}
		}
		for _, op := range plan {
			if op.Kind == "prune" { // histories that prune at all also prune at the extremes
				insert(mgrsim.Op{Kind: "prune", Height: 0})
				insert(mgrsim.Op{Kind: "prune", Height: ^uint64(0)})
				break
			}
		}
	}
	if i%2 == 0 {
		// a stretch that the unobserved re-run performs without any read: a heavier chain that ends in a
		// body-invalid block (the reorg applies its valid part, fails and is rolled back), directly followed by
		// a prune of everything and a re-submission
		for _, c := range t.Nodes {
			if c.Parent != nil && c.TwinOf == nil && c.HdrOK && !c.BodyOK && c.Parent.ChainValid() && c.Parent.Parent != nil {
				var ids []int
				for _, y := range t.Path(c) {
					ids = append(ids, y.Idx)
				}
				plan = append(plan, mgrsim.Op{Kind: "add", Nodes: ids}, mgrsim.Op{Kind: "prune", Height: ^uint64(0)}, mgrsim.Op{Kind: "add", Nodes: ids[:len(ids)-1]})
				break
			}
		}
	}
	return plan, modes
}

// countDims: evidence that the dimensions of the generalisation pass are exercised (one key per occurrence).
func countDims(t *chaingen.Tree, cs mgrsim.Case, obs []mgrsim.Obs) (keys []string) {
	add := func(k string) { keys = append(keys, k) }
	d := driveOf(cs)
	for _, m := range d.Modes {
		add("mode:" + m)
	}
	if d.Order {
		add("mode:expiring-contract-order-option")
		for i := 3; i < len(orderTable(t)); i++ {
			add("mode:expiring-contract-order-option/blocks-with-a-prescribed-order")
		}
	}
	if d.First != "" {
		add("unobserved-re-run/first-read=" + d.First)
	}
	net := t.Env.Net
	marks := []struct {
		name string
		h    uint64
	}{{"v2-allow-height", net.HardforkV2.AllowHeight}, {"v2-require-height", net.HardforkV2.RequireHeight}, {"v2-final-cut-height", net.HardforkV2.FinalCutHeight}}
	// tree shapes (class 8) and block shapes (class 6)
	maxKids, leaves, depth := 0, 0, uint64(0)
	for _, n := range t.Nodes {
		if len(n.Children) > maxKids {
			maxKids = len(n.Children)
		}
		if len(n.Children) == 0 {
			leaves++
		}
		if n.Height > depth {
			depth = n.Height
		}
		for _, k := range n.Kinds {
			if k == "v1-revise-shrink" {
				add("blocks-carrying-a-v1-revision-that-shortens-the-window")
				break
			}
		}
		if len(n.Block.Transactions) > 0 && len(n.Block.V2Transactions()) > 0 {
			add("blocks-mixing-v1-and-v2-transactions")
		}
	}
	if maxKids >= 3 {
		add("tree:hub(node-with>=3-children)")
	}
	if leaves >= 4 {
		add("tree:>=4-leaves")
	}
	if depth >= 10 {
		add("tree:depth>=10")
	}
	bucket := func(n int) string {
		switch {
		case n == 0:
			return "0"
		case n == 1:
			return "1"
		default:
			return "2+"
		}
	}
	s0 := mgrsim.NewSim(t, nil)
	var prev mgrsim.Obs
	s0.Observe(&prev)
	for i, op := range cs.Plan {
		if i >= len(obs) {
			break
		}
		o := obs[i]
		switch op.Kind {
		case "reopen":
			add("op:reopen")
			if i+1 < len(cs.Plan) && len(cs.Plan[i+1].Nodes) > 0 && i+1 < len(obs) && !obs[i+1].Err && fmt.Sprint(obs[i+1].Best) != fmt.Sprint(o.Best) {
				add("op:reopen/next-call-moves-the-tip")
			}
		case "addv-bad":
			add(fmt.Sprintf("op:prevalidated-outside-precondition/%d", op.Height))
		case "prune":
			tip := uint64(len(prev.Best) - 1)
			switch {
			case op.Height == 0:
				add("prune-height:0")
			case op.Height == ^uint64(0):
				add("prune-height:max-uint64")
			case op.Height > tip+1:
				add("prune-height:beyond-tip")
			case op.Height == tip+1:
				add("prune-height:tip+1")
			case op.Height == tip:
				add("prune-height:tip")
			default:
				add("prune-height:mid-chain")
			}
		case "add", "addv":
			switch n := len(op.Nodes); {
			case n == 0:
				add("batch-size:0")
			case n == 1:
				add("batch-size:1")
			case n < 5:
				add("batch-size:2-4")
			case n < 10:
				add("batch-size:5-9")
			default:
				add("batch-size:10+")
			}
			seen := map[int]bool{}
			onePath := true
			for j, id := range op.Nodes {
				if id == 0 {
					add("op:batch-contains-genesis")
				}
				if seen[id] {
					add("op:batch-contains-a-block-twice")
				}
				seen[id] = true
				if j > 0 && id != 0 && op.Nodes[j-1] != 0 && (t.Nodes[id].Parent == nil || t.Nodes[id].Parent.Idx != op.Nodes[j-1]) {
					onePath = false
				}
			}
			if !onePath {
				add("batch-is-not-one-chain(branches-mixed-or-out-of-order)")
			}
		}
		add(fmt.Sprintf("reader:tips-seen-during-calls=%s", bucket(len(o.Polled))))
		if o.Notified && len(d.Modes) > 0 && d.Modes[0] == "listener-reads" {
			add("listener:notifications-that-read-the-manager")
		}
		if len(o.Best) == 0 || len(prev.Best) == 0 || o.Best[0] < 0 || prev.Best[0] < 0 || o.Panic {
			break
		}
		// reorg geometry (classes 3 and 6)
		if len(op.Nodes) > 0 && (op.Kind == "add" || op.Kind == "addv") {
			on := map[int]bool{}
			for _, id := range prev.Best {
				on[id] = true
			}
			b := t.Nodes[op.Nodes[len(op.Nodes)-1]]
			pt := t.Nodes[prev.Best[0]]
			if b.TwinOf == nil && b.Parent != nil && chaingen.HdrChainOK(b) && b.State.SufficientlyHeavierThan(pt.State) {
				f, applied, stillOK := b, 0, true
				var leg []*chaingen.Node
				for ; !on[f.Idx]; f = f.Parent {
					leg = append(leg, f)
				}
				for j := len(leg) - 1; j >= 0; j-- {
					if stillOK && leg[j].HdrOK && leg[j].BodyOK {
						applied++
					} else {
						stillOK = false
					}
				}
				reverted := int(pt.Height - f.Height)
				across := func(prefix string) {
					for _, m := range marks {
						if f.Height < m.h && (pt.Height >= m.h || b.Height >= m.h) && m.h < 500 {
							add(prefix + "-across:" + m.name)
						}
						if f.Height+1 == m.h && m.h < 500 {
							add(prefix + "-with-first-block-at:" + m.name)
						}
					}
				}
				if o.Err && cleanBatch(t, op, prev) && !stillOK {
					add(fmt.Sprintf("failed-reorg(reverted=%s,applied-before-the-invalid-block=%s)", bucket(reverted), bucket(applied)))
					across("failed-reorg")
				} else if !o.Err && o.Best[0] == b.Idx && reverted > 0 {
					add(fmt.Sprintf("reorg(reverted=%s)", bucket(reverted)))
					across("reorg")
				}
			}
		}
		prev = o
	}
	return
}

// countAdoptions classifies, for the evidence, the calls at which the per-call heaviest-known monitor had
// something to say: the last block was adoptable and sufficiently heavier.
func countAdoptions(t *chaingen.Tree, plan []mgrsim.Op, obs []mgrsim.Obs) (keys []string) {
	s := mgrsim.NewSim(t, nil)
	var prev mgrsim.Obs
	s.Observe(&prev)
	for i, op := range plan {
		if i >= len(obs) {
			break
		}
		if (op.Kind == "add" || op.Kind == "addv") && len(op.Nodes) > 0 && len(prev.Best) > 0 && prev.Best[0] >= 0 {
			b := t.Nodes[op.Nodes[len(op.Nodes)-1]]
			pt := t.Nodes[prev.Best[0]]
			if adoptable(t, b, prev, &op) && b.State.SufficientlyHeavierThan(pt.State) {
				keys = append(keys, "calls-where-last-block-must-be-adopted")
				if k := known(prev, b.Idx); k.Supp {
					keys = append(keys, "calls-where-last-block-must-be-adopted/already-applied-once")
				}
			} else if b.TwinOf == nil && b.ChainValid() && b.State.SufficientlyHeavierThan(pt.State) {
				keys = append(keys, "calls-where-heavier-valid-last-block-is-not-adoptable(bodies-missing)")
			}
		}
		prev = obs[i]
		if prev.Panic {
			break
		}
	}
	return
}

// corpus: minimised earlier failures and hand-picked shapes, run first.
func corpus() []mgrsim.Case {
	var out []mgrsim.Case
	// a block that chains transactions inside itself is reverted and the competing branch re-mines the same
	// transactions (at once, Remine 4, or possibly a block later, Remine 2); shapes: 1-2-3 | 2-4-5-6 and
	// 1-2-3-4 | 1-5-6-7-8, submitted branch after branch
	shapes := [][]int{{0, 1, 2, 2, 4, 5}, {0, 1, 2, 3, 1, 5, 6, 7}}
	plans := [][]mgrsim.Op{
		{{Kind: "add", Nodes: []int{1, 2, 3}}, {Kind: "add", Nodes: []int{4, 5, 6}}},
		{{Kind: "add", Nodes: []int{1, 2, 3, 4}}, {Kind: "add", Nodes: []int{5, 6}}, {Kind: "add", Nodes: []int{7, 8}}},
	}
	kinds := [][]string{{"v1-chain"}, {"v1-chain-3", "v1-siafund-chain"}, {"v2-ephemeral", "v1-chain"}}
	for regime := 0; regime < 3; regime++ {
		for si := range shapes {
			for ki, ks := range kinds {
				if regime == 0 && ki == 2 || regime == 2 && ki != 2 {
					continue
				}
				for _, remine := range []int{4, 2} {
					out = append(out, mgrsim.Case{Seed: uint64(1000 + 100*regime + 10*si + ki + 5*remine), Regime: regime, Plan: plans[si],
						Opts: chaingen.GenOpts{Shape: shapes[si], TxPerBlock: 2, Kinds: ks, Remine: remine}})
				}
			}
		}
	}
	// a v1 revision that shortens the proof window is reverted by a reorg (and the chain runs past both the old
	// and the revised window end)
	for regime := 0; regime < 2; regime++ {
		for si := range shapes {
			for v := 0; v < 2; v++ {
				out = append(out, mgrsim.Case{Seed: uint64(2000 + 100*regime + 10*si + v), Regime: regime, Plan: plans[si],
					Opts: chaingen.GenOpts{Shape: shapes[si], TxPerBlock: 3, Kinds: []string{"v1-form", "v1-revise-shrink", "v1-revise-shrink"}}})
			}
		}
	}
	return out
}
