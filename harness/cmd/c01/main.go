// Command c01 checks C01 (best chain always valid, heaviest-known, never loses
// work) on the real chain.Manager: generated fork trees, submission plans,
// monitors against the tree's independent validity labels, and cases for the
// Coq manager model.
package main

import (
	"bytes"

	"encoding/json"
	"fmt"
	"go.sia.tech/coreutils/chain"
	"os"

	"verif/harness/internal/chaingen"
	"verif/harness/internal/hx"
	"verif/harness/internal/mgrsim"
	"verif/harness/internal/rng"
	"verif/harness/internal/storeobs"
)

func main() { hx.Main("C01", run) }

type failure struct {
	kind, detail string
	at           int
}

// runCase runs the plan and evaluates the monitors; returns observations and the first failure.
func runCase(t *chaingen.Tree, plan []mgrsim.Op, final bool) ([]mgrsim.Obs, *failure) {
	s := mgrsim.NewSim(t, nil)
	var prev mgrsim.Obs
	s.Observe(&prev)
	var obs []mgrsim.Obs
	submitted := map[int]bool{0: true}
	var fail *failure
	report := func(i int, kind, format string, a ...any) {
		if fail == nil {
			fail = &failure{kind, fmt.Sprintf(format, a...), i}
		}
	}
	all := append([]mgrsim.Op(nil), plan...)
	for _, op := range plan {
		if op.Kind == "prune" {
			final = false // a pruned node legitimately refuses forks below the pruned height (C19)
		}
	}
	if final {
		all = append(all, mgrsim.FinalFlush(t)...)
	}
	for i, op := range all {
		for _, id := range op.Nodes {
			if t.Nodes[id].TwinOf == nil {
				submitted[id] = true // a same-id twin does not count as a submission of the genuine block
			}
		}
		o := s.Do(op)
		if i < len(plan) {
			obs = append(obs, o)
		}
		checkStep(t, op, prev, o, submitted, func(kind, format string, a ...any) { report(i, kind, format, a...) })
		prev = o
		if o.Panic {
			break
		}
	}
	if final && fail == nil {
		// heaviest-known: after every valid branch was submitted whole, no valid block is sufficiently heavier than the tip
		tip := t.Nodes[prev.Best[0]]
		for _, x := range t.Nodes {
			if x.ChainValid() && mgrsim.Heavier(x, tip) {
				report(len(all), "c01-not-heaviest", "every valid branch was submitted as a whole, yet valid block %d is sufficiently heavier than the tip %d", x.Idx, tip.Idx)
			}
		}
	}
	return obs, fail
}

func checkStep(t *chaingen.Tree, op mgrsim.Op, prev, o mgrsim.Obs, submitted map[int]bool, report func(kind, format string, a ...any)) {
	if o.Panic {
		report("c01-panic", "%v panicked: %s", op, o.ErrText)
		return
	}
	// the reported chain is parent-linked from genesis, every block valid
	for i, id := range o.Best {
		if id < 0 {
			report("c01-best-chain-broken", "after %v BestIndex(%d) is missing or unknown to the generator", op, len(o.Best)-1-i)
			return
		}
		n := t.Nodes[id]
		if i+1 < len(o.Best) {
			if n.Parent == nil || n.Parent.Idx != o.Best[i+1] {
				report("c01-best-chain-not-linked", "after %v block %d at height %d does not link to %d", op, id, n.Height, o.Best[i+1])
				return
			}
		} else if id != 0 {
			report("c01-best-chain-not-from-genesis", "after %v the best chain starts at %d", op, id)
			return
		}
		if n.Parent != nil && !(n.HdrOK && n.BodyOK) {
			report("c01-invalid-block-adopted", "after %v the best chain contains block %d (corruption %q, hdr_ok=%v body_ok=%v)", op, id, n.Corrupt, n.HdrOK, n.BodyOK)
			return
		}
		if !submitted[id] {
			report("c01-unsubmitted-block", "after %v the best chain contains block %d that was never submitted", op, id)
			return
		}
	}
	if o.AboveTip != 0 {
		report("c01-best-index-above-tip", "after %v BestIndex still answers for %d height(s) above the tip (height %d)", op, o.AboveTip, len(o.Best)-1)
		return
	}
	for _, id := range o.Best {
		if k := o.Known[id]; k.Body && !k.Good {
			report("c01-best-chain-body-not-genuine", "after %v the stored body of best-chain block %d is not the block that was validated (a same-id copy)", op, id)
			return
		}
	}
	tipN := t.Nodes[o.Best[0]]
	// reported tip state = replay of exactly those blocks (the generator's builder / linear node produced FullState)
	var buf bytes.Buffer
	_ = buf
	if !bytes.Equal(o.TipState, encFull(tipN)) {
		report("c01-tip-state-differs", "after %v TipState differs from the linear replay of the best chain (tip %d)", op, tipN.Idx)
		return
	}
	prevTip := t.Nodes[prev.Best[0]]
	if tipN != prevTip {
		if !mgrsim.Heavier(tipN, prevTip) {
			report("c01-tip-moved-without-sufficient-work", "%v moved the tip %d -> %d although the new chain is not sufficiently heavier", op, prevTip.Idx, tipN.Idx)
		}
		ptw, _ := prevTip.Work()
		ntw, _ := tipN.Work()
		if ntw.Cmp(ptw) < 0 {
			report("c01-work-decreased", "%v lowered the tip's total work (%d -> %d)", op, prevTip.Idx, tipN.Idx)
		}
		if o.Err {
			report("c01-failed-call-moved-tip", "%v returned an error but the tip moved %d -> %d: %s", op, prevTip.Idx, tipN.Idx, o.ErrText)
		}
	}
	if o.Notified != (tipN != prevTip) {
		report("c01-notify-mismatch", "%v: listeners notified=%v but tip changed=%v", op, o.Notified, tipN != prevTip)
	}
	if o.Err {
		// every chain query exactly as before (DESIGN 4a): best chain, tip state, and the store's view of best-chain blocks
		if fmt.Sprint(o.Best) != fmt.Sprint(prev.Best) || !bytes.Equal(o.TipState, prev.TipState) {
			report("c01-failed-call-changed-chain", "%v failed (%s) but the best chain changed from %v to %v", op, o.ErrText, prev.Best, o.Best)
		}
		onBest := map[int]bool{}
		for _, id := range prev.Best {
			onBest[id] = true
		}
		for i, k := range o.Known {
			p := prev.Known[i]
			if onBest[k.ID] && k != p && !(op.Kind == "addv" && !p.Body && k.Body && k.Supp && k.State == p.State) {
				// (a pre-validated submission legitimately stores the blocks it was given, DESIGN 4a)
				report("c01-failed-call-changed-best-block", "%v failed (%s) but the stored record of best-chain block %d changed %+v -> %+v", op, o.ErrText, k.ID, p, k)
			}
		}
	}
	// the store only grows off the best chain: bodies stay, states only upgrade, supplements only for valid blocks
	if op.Kind != "prune" {
		for i, k := range o.Known {
			p := prev.Known[i]
			n := t.Nodes[k.ID]
			if p.Body && !k.Body {
				report("c01-body-lost", "%v removed the body of block %d", op, k.ID)
			}
			if p.State%10 == 2 && k.State%10 != 2 {
				report("c01-state-downgraded", "%v replaced the full state of block %d by state kind %d", op, k.ID, k.State)
			}
			if k.Supp && !(n.ChainValid()) {
				report("c01-supplement-for-invalid-block", "%v left a supplement for invalid block %d", op, k.ID)
			}
			if k.State >= 10 {
				report("c01-header-missing", "%v: block %d has a state or body but no header", op, k.ID)
			}
		}
	}
}

// classifyTipState re-runs the history on an observed store and lets the C02 judge decide
// whether a tip state that differs from the linear replay is the known expiry-order finding
// (the only served data differing from a linear twin are permuted expiration lists, explained
// by the exported diffs) — then the kind is c01-tip-state-differs-by-expiry-order.
func classifyTipState(t *chaingen.Tree, plan []mgrsim.Op) string {
	nd, err := storeobs.NewNode(t, chain.NewMemDB(), nil)
	if err != nil {
		return "c01-tip-state-differs"
	}
	for _, op := range plan {
		if o := nd.Do(op); o.Panic {
			return "c01-tip-state-differs"
		}
	}
	f, _ := storeobs.Judge(nd, storeobs.NewTwins(t))
	if f != nil && f.Kind == storeobs.KindF8 {
		return "c01-tip-state-differs-by-expiry-order"
	}
	return "c01-tip-state-differs"
}

func encFull(n *chaingen.Node) []byte {
	return mgrsim.EncState(n.FullState)
}

func shrink(t *chaingen.Tree, plan []mgrsim.Op, kind string) []mgrsim.Op {
	fails := func(p []mgrsim.Op) bool {
		_, f := runCase(t, p, kind == "c01-not-heaviest")
		return f != nil && f.kind == kind
	}
	for changed := true; changed; {
		changed = false
		for i := range plan {
			c := append(append([]mgrsim.Op(nil), plan[:i]...), plan[i+1:]...)
			if fails(c) {
				plan, changed = c, true
				break
			}
		}
		if changed {
			continue
		}
		// shrink batches
		for i := range plan {
			for j := range plan[i].Nodes {
				if len(plan[i].Nodes) <= 1 {
					break
				}
				if plan[i].Kind == "addv" && j != 0 && j != len(plan[i].Nodes)-1 {
					continue // keep pre-validated batches contiguous (documented precondition)
				}
				c := append([]mgrsim.Op(nil), plan...)
				nodes := append(append([]int(nil), plan[i].Nodes[:j]...), plan[i].Nodes[j+1:]...)
				c[i] = mgrsim.Op{Kind: plan[i].Kind, Nodes: nodes}
				if fails(c) {
					plan, changed = c, true
					break
				}
			}
			if changed {
				break
			}
		}
	}
	return plan
}

func describe(t *chaingen.Tree) []string {
	var out []string
	for _, n := range t.Nodes {
		p := -1
		if n.Parent != nil {
			p = n.Parent.Idx
		}
		tw, d := n.Work()
		out = append(out, fmt.Sprintf("block %d parent %d height %d hdr_ok=%v body_ok=%v corrupt=%q kinds=%v tw=%s diff=%s", n.Idx, p, n.Height, n.HdrOK, n.BodyOK, n.Corrupt, n.Kinds, tw, d))
	}
	return out
}

// safeTree regenerates the case's tree; the generator builds blocks with real chain.Manager
// nodes, so a panic there ("mined block rejected", "replay failed") means a linear node refused a
// valid block or chain: that is reported as a failure of the node, not as a harness crash.
func safeTree(cs mgrsim.Case) (t *chaingen.Tree, msg string) {
	defer func() {
		if r := recover(); r != nil {
			t, msg = nil, fmt.Sprint(r)
		}
	}()
	return cs.Tree(), ""
}

func run(c *hx.Ctx) {
	res := c.Res
	res.Shard = 40
	res.Rule = "fork trees of real mined blocks (3 hardfork regimes, every tx kind, single-field corruptions) x random submission plans (path segments, single blocks, mixed batches, concatenated branches, duplicates, orphans first, pre-validated v2 segments); non-trivial := the history contains a reorg of depth >= 2 or a rejected submission; distinct by (tree seed, plan)"
	var cases []string
	doCase := func(cs mgrsim.Case, toCoq bool) {
		t := cs.Tree()
		obs, f := runCase(t, cs.Plan, true)
		reorg2, rejected := false, false
		for i, o := range obs {
			if o.Err {
				rejected = true
			}
			if i > 0 && len(obs[i-1].Best) > 2 && len(o.Best) > 0 {
				// depth of the reorg = blocks of the previous chain no longer on the chain
				on := map[int]bool{}
				for _, id := range o.Best {
					on[id] = true
				}
				d := 0
				for _, id := range obs[i-1].Best {
					if !on[id] {
						d++
					}
				}
				if d >= 2 {
					reorg2 = true
				}
			}
		}
		js, _ := json.Marshal(cs)
		res.Eval(string(js), reorg2 || rejected)
		res.Count("regime:" + chaingen.RegimeNames[cs.Regime])
		if mgrsim.HasTwin(t, cs.Plan) {
			res.Count("histories-with-same-id-twin(monitors-only)")
		}
		res.CountN("calls", len(cs.Plan))
		res.CountN("blocks", len(t.Nodes)-1)
		if reorg2 {
			res.Count("histories-with-reorg-depth>=2")
		}
		if rejected {
			res.Count("histories-with-rejection")
		}
		for _, n := range t.Nodes {
			if n.Corrupt != "" {
				res.Count("corruption:" + n.Corrupt)
			}
		}
		if f != nil && f.kind == "c01-tip-state-differs" {
			upto := append(append([]mgrsim.Op(nil), cs.Plan...), mgrsim.FinalFlush(t)...) // runCase appends the final flush
			if f.at+1 < len(upto) {
				upto = upto[:f.at+1]
			}
			if k := classifyTipState(t, upto); k != f.kind {
				res.Fail(k, f.detail+" — the C02 judge attributes the difference to the expiration-list order (known finding F8)", map[string]any{"case": cs, "tree": describe(t)})
				f = nil
			}
		}
		if f != nil {
			small := shrink(t, cs.Plan, f.kind)
			_, f2 := runCase(t, small, f.kind == "c01-not-heaviest")
			if f2 == nil {
				f2, small = f, cs.Plan
			}
			scs := cs
			scs.Plan = small
			res.Fail(f2.kind, f2.detail, map[string]any{"case": scs, "tree": describe(t)})
		}
		if toCoq && len(obs) == len(cs.Plan) && !mgrsim.HasTwin(t, cs.Plan) {
			cases = append(cases, mgrsim.CoqCase(t, cs.Plan, obs))
		}
		if len(res.Samples) < 2 {
			var ops []string
			for _, op := range cs.Plan {
				ops = append(ops, op.String())
			}
			res.Sample(map[string]any{"regime": chaingen.RegimeNames[cs.Regime], "tree": describe(t), "plan": ops})
		}
	}
	if c.Replay != "" {
		var rp struct {
			Replay struct {
				Case mgrsim.Case `json:"case"`
			} `json:"replay"`
		}
		b, _ := os.ReadFile(c.Replay)
		json.Unmarshal(b, &rp)
		doCase(rp.Replay.Case, true)
		res.WriteCases("Run.Run_C01", cases)
		return
	}
	for _, cs := range corpus() {
		doCase(cs, true)
	}
	n := c.Scale(240, 6000)
	for i := 0; i < n; i++ {
		r := c.R.Fork()
		cs := mgrsim.Case{Seed: r.U64(), Regime: i % 6, Opts: chaingen.GenOpts{Blocks: 5 + r.Intn(18), Branchiness: 2 + r.Intn(5), TxPerBlock: r.Intn(4), Corruptions: r.Intn(4), Jitter: r.Intn(4), OnInvalid: r.Intn(3), Twins: r.Intn(6) / 5}}
		if cs.Regime >= 3 && r.Bool() {
			cs.Opts.Jitter = 4000 // fast and slow blocks: branches diverge in work (near-ties for the 20% rule)
		}
		t, gerr := safeTree(cs)
		if t == nil {
			res.Eval(fmt.Sprint("generator ", cs.Seed), true)
			res.Fail("c01-linear-node-rejects-valid-block", "while building a fork tree a linear node (real chain.Manager fed only valid blocks in order) failed: "+gerr, map[string]any{"case": cs})
			continue
		}
		cs.Plan = mgrsim.GenPlan(rng.New(cs.Seed^0x5bd1e995), t, i%8 == 7)
		doCase(cs, true)
	}
	res.WriteCases("Run.Run_C01", cases)
}

// corpus: minimised earlier failures and hand-picked shapes, run first.
func corpus() []mgrsim.Case {
	return nil
}
