// Command c01 checks C01 (best chain always valid, heaviest-known, never loses
// work) on the real chain.Manager: generated fork trees, submission plans,
// monitors against the tree's independent validity labels, and cases for the
// Coq manager model.
package main

import (
	"bytes"

	"encoding/json"
	"fmt"
	"go.sia.tech/coreutils/chain"
	"os"

	"verif/harness/internal/chaingen"
	"verif/harness/internal/hx"
	"verif/harness/internal/mgrsim"
	"verif/harness/internal/rng"
	"verif/harness/internal/storeobs"
)

func main() { hx.Main("C01", run) }

type failure struct {
	kind, detail string
	at           int
}

// runCase runs the plan and evaluates the monitors; returns observations and the first failure.
func runCase(t *chaingen.Tree, plan []mgrsim.Op, final bool) ([]mgrsim.Obs, *failure) {
	s := mgrsim.NewSim(t, nil)
	var prev mgrsim.Obs
	s.Observe(&prev)
	var obs []mgrsim.Obs
	submitted := map[int]bool{0: true}
	var fail *failure
	report := func(i int, kind, format string, a ...any) {
		if fail == nil {
			fail = &failure{kind, fmt.Sprintf(format, a...), i}
		}
	}
	all := append([]mgrsim.Op(nil), plan...)
	if final {
		all = append(all, mgrsim.FinalFlush(t)...)
	}
	for i, op := range all {
		for _, id := range op.Nodes {
			if t.Nodes[id].TwinOf == nil {
				submitted[id] = true // a same-id twin does not count as a submission of the genuine block
			}
		}
		o := s.Do(op)
		if i < len(plan) {
			obs = append(obs, o)
		}
		checkStep(t, op, prev, o, submitted, func(kind, format string, a ...any) { report(i, kind, format, a...) })
		prev = o
		if o.Panic {
			break
		}
	}
	if final && fail == nil {
		// heaviest-known: after every valid branch was submitted whole, no valid block that the node could
		// adopt (bodies on both sides of the fork point in its store: a pruned node legitimately refuses forks
		// below the pruned height, C19) is sufficiently heavier than the tip
		tip := t.Nodes[prev.Best[0]]
		for _, x := range t.Nodes {
			if adoptable(t, x, prev, nil) && x.State.SufficientlyHeavierThan(tip.State) {
				report(len(all), "c01-not-heaviest", "every valid branch was submitted as a whole, yet valid block %d is sufficiently heavier than the tip %d and every block needed to reorganise to it is in the node's store", x.Idx, tip.Idx)
			}
		}
	}
	return obs, fail
}

func checkStep(t *chaingen.Tree, op mgrsim.Op, prev, o mgrsim.Obs, submitted map[int]bool, report func(kind, format string, a ...any)) {
	if o.Panic {
		report("c01-panic", "%v panicked: %s", op, o.ErrText)
		return
	}
	// the reported chain is parent-linked from genesis, every block valid
	for i, id := range o.Best {
		if id < 0 {
			report("c01-best-chain-broken", "after %v BestIndex(%d) is missing or unknown to the generator", op, len(o.Best)-1-i)
			return
		}
		n := t.Nodes[id]
		if i+1 < len(o.Best) {
			if n.Parent == nil || n.Parent.Idx != o.Best[i+1] {
				report("c01-best-chain-not-linked", "after %v block %d at height %d does not link to %d", op, id, n.Height, o.Best[i+1])
				return
			}
		} else if id != 0 {
			report("c01-best-chain-not-from-genesis", "after %v the best chain starts at %d", op, id)
			return
		}
		if n.Parent != nil && !(n.HdrOK && n.BodyOK) {
			report("c01-invalid-block-adopted", "after %v the best chain contains block %d (corruption %q, hdr_ok=%v body_ok=%v)", op, id, n.Corrupt, n.HdrOK, n.BodyOK)
			return
		}
		if !submitted[id] {
			report("c01-unsubmitted-block", "after %v the best chain contains block %d that was never submitted", op, id)
			return
		}
	}
	if o.AboveTip != 0 {
		report("c01-best-index-above-tip", "after %v BestIndex still answers for %d height(s) above the tip (height %d)", op, o.AboveTip, len(o.Best)-1)
		return
	}
	for _, id := range o.Best {
		if k := o.Known[id]; k.Body && !k.Good {
			report("c01-best-chain-body-not-genuine", "after %v the stored body of best-chain block %d is not the block that was validated (a same-id copy)", op, id)
			return
		}
	}
	tipN := t.Nodes[o.Best[0]]
	// reported tip state = replay of exactly those blocks (the generator's builder / linear node produced FullState)
	var buf bytes.Buffer
	_ = buf
	if !bytes.Equal(o.TipState, encFull(tipN)) {
		report("c01-tip-state-differs", "after %v TipState differs from the linear replay of the best chain (tip %d)", op, tipN.Idx)
		return
	}
	prevTip := t.Nodes[prev.Best[0]]
	if tipN != prevTip {
		if !mgrsim.Heavier(tipN, prevTip) {
			report("c01-tip-moved-without-sufficient-work", "%v moved the tip %d -> %d although the new chain is not sufficiently heavier", op, prevTip.Idx, tipN.Idx)
		}
		ptw, _ := prevTip.Work()
		ntw, _ := tipN.Work()
		if ntw.Cmp(ptw) < 0 {
			report("c01-work-decreased", "%v lowered the tip's total work (%d -> %d)", op, prevTip.Idx, tipN.Idx)
		}
		if o.Err {
			report("c01-failed-call-moved-tip", "%v returned an error but the tip moved %d -> %d: %s", op, prevTip.Idx, tipN.Idx, o.ErrText)
		}
	}
	// heaviest-known, per call: the reorg decision is taken for the last block of the submission. If that
	// block is valid with its whole ancestry (generator's labels), sufficiently heavier than the tip before
	// the call (core's rule on the generator's own states) and every block needed to reorganise to it is
	// available to the node, the call must end with that block as the tip.
	if (op.Kind == "add" || op.Kind == "addv") && len(op.Nodes) > 0 {
		b := t.Nodes[op.Nodes[len(op.Nodes)-1]]
		if b != tipN && adoptable(t, b, prev, &op) && b.State.SufficientlyHeavierThan(prevTip.State) {
			ptw, pd := prevTip.Work()
			btw, _ := b.Work()
			if !o.Err {
				report("c01-heavier-valid-chain-not-adopted", "%v returned no error, its last block %d is valid with its whole ancestry, every block needed to reorganise to it is available to the node and it is sufficiently heavier than the tip before the call (block %d: work %s > %s + %s/5), yet the tip is %d", op, b.Idx, prevTip.Idx, btw, ptw, pd, tipN.Idx)
			} else if cleanBatch(t, op, prev) {
				report("c01-heavier-valid-chain-refused", "%v failed (%s) although every submitted block is header-valid with a known parent, its last block %d is valid with its whole ancestry, every block needed to reorganise to it is available to the node and it is sufficiently heavier than the tip before the call (block %d: work %s > %s + %s/5)", op, o.ErrText, b.Idx, prevTip.Idx, btw, ptw, pd)
			}
		}
	}
	if o.Notified != (tipN != prevTip) {
		report("c01-notify-mismatch", "%v: listeners notified=%v but tip changed=%v", op, o.Notified, tipN != prevTip)
	}
	if o.Err {
		// every chain query exactly as before (DESIGN 4a): best chain, tip state, and the store's view of best-chain blocks
		if fmt.Sprint(o.Best) != fmt.Sprint(prev.Best) || !bytes.Equal(o.TipState, prev.TipState) {
			report("c01-failed-call-changed-chain", "%v failed (%s) but the best chain changed from %v to %v", op, o.ErrText, prev.Best, o.Best)
		}
		onBest := map[int]bool{}
		for _, id := range prev.Best {
			onBest[id] = true
		}
		for i, k := range o.Known {
			p := prev.Known[i]
			if onBest[k.ID] && k != p && !(op.Kind == "addv" && !p.Body && k.Body && k.Supp && k.State == p.State) {
				// (a pre-validated submission legitimately stores the blocks it was given, DESIGN 4a)
				report("c01-failed-call-changed-best-block", "%v failed (%s) but the stored record of best-chain block %d changed %+v -> %+v", op, o.ErrText, k.ID, p, k)
			}
		}
	}
	// the store only grows off the best chain: bodies stay, states only upgrade, supplements only for valid blocks
	if op.Kind != "prune" {
		for i, k := range o.Known {
			p := prev.Known[i]
			n := t.Nodes[k.ID]
			if p.Body && !k.Body {
				report("c01-body-lost", "%v removed the body of block %d", op, k.ID)
			}
			if p.State%10 == 2 && k.State%10 != 2 {
				report("c01-state-downgraded", "%v replaced the full state of block %d by state kind %d", op, k.ID, k.State)
			}
			if k.Supp && !(n.ChainValid()) {
				report("c01-supplement-for-invalid-block", "%v left a supplement for invalid block %d", op, k.ID)
			}
			if k.State >= 10 {
				report("c01-header-missing", "%v: block %d has a state or body but no header", op, k.ID)
			}
		}
	}
}

// adoptable is the ground truth for "the node can reorganise to x": x and its whole ancestry are valid
// (labels from core and a fresh linear node), and every block strictly above the fork point of x and the
// current tip is available to the node — on the best chain's side the blocks that must be reverted still
// have their bodies (a pruned body makes the reorg legitimately impossible, C19); on x's side, for a
// call (op != nil), each block is part of the submission or stored with its genuine body (a same-id copy
// submitted later legitimately replaces a body that was never applied). At the end of a history
// (op == nil) every valid block has just been submitted genuinely by the final flush, so x's side needs no
// condition: a node that then lacks or shadows one of those bodies is at fault. before is the observation
// preceding the call.
func adoptable(t *chaingen.Tree, x *chaingen.Node, before mgrsim.Obs, op *mgrsim.Op) bool {
	if x.TwinOf != nil || x.Parent == nil || !x.ChainValid() || len(before.Best) == 0 || before.Best[0] < 0 {
		return false
	}
	inOp := map[int]bool{}
	if op != nil {
		for _, id := range op.Nodes {
			if t.Nodes[id].TwinOf != nil {
				return false // a same-id copy in the submission may replace a stored body
			}
			inOp[id] = true
		}
	}
	onBest := map[int]bool{}
	for _, id := range before.Best {
		onBest[id] = true
	}
	f := x
	for ; !onBest[f.Idx]; f = f.Parent {
		if k := known(before, f.Idx); op != nil && !(inOp[f.Idx] || k.Body && k.Good) {
			return false
		}
	}
	for _, id := range before.Best {
		if id == f.Idx {
			break
		}
		if !known(before, id).Body {
			return false
		}
	}
	return true
}

// known returns the store's record of (non-twin) node id in an observation.
func known(o mgrsim.Obs, id int) mgrsim.KnownEntry {
	if id < len(o.Known) && o.Known[id].ID == id {
		return o.Known[id]
	}
	for _, k := range o.Known {
		if k.ID == id {
			return k
		}
	}
	return mgrsim.KnownEntry{ID: id}
}

// cleanBatch: nothing in the submission itself justifies an error — every block is header-valid, not
// from the future, not a same-id copy, and its parent is known to the node or precedes it in the batch.
func cleanBatch(t *chaingen.Tree, op mgrsim.Op, before mgrsim.Obs) bool {
	seen := map[int]bool{}
	for _, id := range op.Nodes {
		y := t.Nodes[id]
		if y.TwinOf != nil || y.Parent == nil || !y.HdrOK || y.Future {
			return false
		}
		if k := known(before, y.Parent.Idx); !(seen[y.Parent.Idx] || k.State == 1 || k.State == 2) {
			return false
		}
		seen[id] = true
	}
	return true
}

// classifyTipState re-runs the history on an observed store and lets the C02 judge decide
// whether a tip state that differs from the linear replay — or a valid chain refused because the
// state reached in the middle of the reorg differs from the one its blocks commit to — is the known
// expiry-order finding (the only served data differing from a linear twin are permuted expiration
// lists, explained by the exported diffs); then the kind is c01-tip-state-differs-by-expiry-order /
// c01-valid-chain-refused-by-expiry-order. Anything else keeps its kind.
func classifyTipState(t *chaingen.Tree, plan []mgrsim.Op, kind string) string {
	nd, err := storeobs.NewNode(t, chain.NewMemDB(), nil)
	if err != nil {
		return kind
	}
	for _, op := range plan {
		if o := nd.Do(op); o.Panic {
			return kind
		}
	}
	f, _ := storeobs.Judge(nd, storeobs.NewTwins(t))
	if f != nil && f.Kind == storeobs.KindF8 {
		return byExpiryOrder[kind]
	}
	return kind
}

var byExpiryOrder = map[string]string{
	"c01-tip-state-differs":           "c01-tip-state-differs-by-expiry-order",
	"c01-heavier-valid-chain-refused": "c01-valid-chain-refused-by-expiry-order",
}

func encFull(n *chaingen.Node) []byte {
	return mgrsim.EncState(n.FullState)
}

func shrink(t *chaingen.Tree, plan []mgrsim.Op, kind string) []mgrsim.Op {
	fails := func(p []mgrsim.Op) bool {
		_, f := runCase(t, p, kind == "c01-not-heaviest")
		return f != nil && f.kind == kind
	}
	for changed := true; changed; {
		changed = false
		for i := range plan {
			c := append(append([]mgrsim.Op(nil), plan[:i]...), plan[i+1:]...)
			if fails(c) {
				plan, changed = c, true
				break
			}
		}
		if changed {
			continue
		}
		// shrink batches
		for i := range plan {
			for j := range plan[i].Nodes {
				if len(plan[i].Nodes) <= 1 {
					break
				}
				if plan[i].Kind == "addv" && j != 0 && j != len(plan[i].Nodes)-1 {
					continue // keep pre-validated batches contiguous (documented precondition)
				}
				c := append([]mgrsim.Op(nil), plan...)
				nodes := append(append([]int(nil), plan[i].Nodes[:j]...), plan[i].Nodes[j+1:]...)
				c[i] = mgrsim.Op{Kind: plan[i].Kind, Nodes: nodes}
				if fails(c) {
					plan, changed = c, true
					break
				}
			}
			if changed {
				break
			}
		}
	}
	return plan
}

func describe(t *chaingen.Tree) []string {
	var out []string
	for _, n := range t.Nodes {
		p := -1
		if n.Parent != nil {
			p = n.Parent.Idx
		}
		tw, d := n.Work()
		out = append(out, fmt.Sprintf("block %d parent %d height %d hdr_ok=%v body_ok=%v corrupt=%q kinds=%v tw=%s diff=%s", n.Idx, p, n.Height, n.HdrOK, n.BodyOK, n.Corrupt, n.Kinds, tw, d))
	}
	return out
}

// safeTree regenerates the case's tree; the generator builds blocks with real chain.Manager
// nodes, so a panic there ("mined block rejected", "replay failed") means a linear node refused a
// valid block or chain: that is reported as a failure of the node, not as a harness crash.
func safeTree(cs mgrsim.Case) (t *chaingen.Tree, msg string) {
	defer func() {
		if r := recover(); r != nil {
			t, msg = nil, fmt.Sprint(r)
		}
	}()
	return cs.Tree(), ""
}

func run(c *hx.Ctx) {
	res := c.Res
	res.Shard = 40
	res.Rule = "fork trees of real mined blocks (3 hardfork regimes, every tx kind, single-field corruptions) x random submission plans (path segments, single blocks, mixed batches, concatenated branches, duplicates, orphans first, pre-validated v2 segments); every fifth tree chains transactions inside blocks and re-mines the transactions of one branch on its siblings (same ids), plus directed revert-and-re-mine shapes; per call: a valid, sufficiently heavier, adoptable last block must become the tip; non-trivial := the history contains a reorg of depth >= 2 or a rejected submission; distinct by (tree seed, plan)"
	var cases []string
	doCase := func(cs mgrsim.Case, toCoq bool) {
		t := cs.Tree()
		obs, f := runCase(t, cs.Plan, true)
		reorg2, rejected := false, false
		for i, o := range obs {
			if o.Err {
				rejected = true
			}
			if i > 0 && len(obs[i-1].Best) > 2 && len(o.Best) > 0 {
				// depth of the reorg = blocks of the previous chain no longer on the chain
				on := map[int]bool{}
				for _, id := range o.Best {
					on[id] = true
				}
				d := 0
				for _, id := range obs[i-1].Best {
					if !on[id] {
						d++
					}
				}
				if d >= 2 {
					reorg2 = true
				}
			}
		}
		js, _ := json.Marshal(cs)
		res.Eval(string(js), reorg2 || rejected)
		res.Count("regime:" + chaingen.RegimeNames[cs.Regime])
		if mgrsim.HasTwin(t, cs.Plan) {
			res.Count("histories-with-same-id-twin(monitors-only)")
		}
		if cs.Opts.Remine > 0 {
			res.Count("histories-with-remined-transactions")
			for _, n := range t.Nodes {
				for _, k := range n.Kinds {
					if k == "remined-v1" || k == "remined-v2" {
						res.Count("blocks-carrying-" + k)
						break
					}
				}
			}
		}
		for _, k := range countAdoptions(t, cs.Plan, obs) {
			res.Count(k)
		}
		res.CountN("calls", len(cs.Plan))
		res.CountN("blocks", len(t.Nodes)-1)
		if reorg2 {
			res.Count("histories-with-reorg-depth>=2")
		}
		if rejected {
			res.Count("histories-with-rejection")
		}
		for _, n := range t.Nodes {
			if n.Corrupt != "" {
				res.Count("corruption:" + n.Corrupt)
			}
		}
		if f != nil && byExpiryOrder[f.kind] != "" {
			upto := append(append([]mgrsim.Op(nil), cs.Plan...), mgrsim.FinalFlush(t)...) // runCase appends the final flush
			if f.at+1 < len(upto) {
				upto = upto[:f.at+1]
			}
			if k := classifyTipState(t, upto, f.kind); k != f.kind {
				what := "difference"
				if f.kind == "c01-heavier-valid-chain-refused" {
					what = "refusal (the state reached inside the reorg is not the one the chain's blocks commit to)"
				}
				res.Fail(k, f.detail+" — the C02 judge attributes the "+what+" to the expiration-list order (known finding F8)", map[string]any{"case": cs, "tree": describe(t)})
				if f.kind == "c01-heavier-valid-chain-refused" {
					// the manager model takes a block's validity from its label; under F8 the node's applyTip
					// disagrees with the label, so this history is judged by the monitors only
					toCoq = false
					res.Count("histories-excluded-from-correspondence(refusal-attributed-to-F8)")
				}
				f = nil
			}
		}
		if f != nil {
			small := shrink(t, cs.Plan, f.kind)
			_, f2 := runCase(t, small, f.kind == "c01-not-heaviest")
			if f2 == nil {
				f2, small = f, cs.Plan
			}
			scs := cs
			scs.Plan = small
			res.Fail(f2.kind, f2.detail, map[string]any{"case": scs, "tree": describe(t)})
		}
		if toCoq && len(obs) == len(cs.Plan) && !mgrsim.HasTwin(t, cs.Plan) {
			cases = append(cases, mgrsim.CoqCase(t, cs.Plan, obs))
		}
		if len(res.Samples) < 2 {
			var ops []string
			for _, op := range cs.Plan {
				ops = append(ops, op.String())
			}
			res.Sample(map[string]any{"regime": chaingen.RegimeNames[cs.Regime], "tree": describe(t), "plan": ops})
		}
	}
	if c.Replay != "" {
		var rp struct {
			Replay struct {
				Case mgrsim.Case `json:"case"`
			} `json:"replay"`
		}
		b, _ := os.ReadFile(c.Replay)
		json.Unmarshal(b, &rp)
		doCase(rp.Replay.Case, true)
		res.WriteCases("Run.Run_C01", cases)
		return
	}
	for _, cs := range corpus() {
		if t, gerr := safeTree(cs); t == nil {
			res.Eval(fmt.Sprint("generator ", cs.Seed), true)
			res.Fail("c01-linear-node-rejects-valid-block", "while building a directed fork tree a linear node (real chain.Manager fed only valid blocks in order) failed: "+gerr, map[string]any{"case": cs})
			continue
		}
		doCase(cs, true)
	}
	n := c.Scale(240, 6000)
	for i := 0; i < n; i++ {
		r := c.R.Fork()
		cs := mgrsim.Case{Seed: r.U64(), Regime: i % 6, Opts: chaingen.GenOpts{Blocks: 5 + r.Intn(18), Branchiness: 2 + r.Intn(5), TxPerBlock: r.Intn(4), Corruptions: r.Intn(4), Jitter: r.Intn(4), OnInvalid: r.Intn(3), Twins: r.Intn(6) / 5}}
		if cs.Regime >= 3 && r.Bool() {
			cs.Opts.Jitter = 4000 // fast and slow blocks: branches diverge in work (near-ties for the 20% rule)
		}
		if i%5 == 1 {
			// every fifth history (all six regimes in turn): blocks chain transactions inside themselves and
			// sibling branches re-mine the transactions of the other branch, as after a real reorg
			cs.Opts.Chained, cs.Opts.Remine = 2, 1+int(cs.Seed%3)
			if cs.Opts.TxPerBlock == 0 {
				cs.Opts.TxPerBlock = 2
			}
		}
		t, gerr := safeTree(cs)
		if t == nil {
			res.Eval(fmt.Sprint("generator ", cs.Seed), true)
			res.Fail("c01-linear-node-rejects-valid-block", "while building a fork tree a linear node (real chain.Manager fed only valid blocks in order) failed: "+gerr, map[string]any{"case": cs})
			continue
		}
		cs.Plan = mgrsim.GenPlan(rng.New(cs.Seed^0x5bd1e995), t, i%8 == 7)
		doCase(cs, true)
	}
	res.WriteCases("Run.Run_C01", cases)
}

// countAdoptions classifies, for the evidence, the calls at which the per-call heaviest-known monitor had
// something to say: the last block was adoptable and sufficiently heavier.
func countAdoptions(t *chaingen.Tree, plan []mgrsim.Op, obs []mgrsim.Obs) (keys []string) {
	s := mgrsim.NewSim(t, nil)
	var prev mgrsim.Obs
	s.Observe(&prev)
	for i, op := range plan {
		if i >= len(obs) {
			break
		}
		if (op.Kind == "add" || op.Kind == "addv") && len(op.Nodes) > 0 && len(prev.Best) > 0 && prev.Best[0] >= 0 {
			b := t.Nodes[op.Nodes[len(op.Nodes)-1]]
			pt := t.Nodes[prev.Best[0]]
			if adoptable(t, b, prev, &op) && b.State.SufficientlyHeavierThan(pt.State) {
				keys = append(keys, "calls-where-last-block-must-be-adopted")
				if k := known(prev, b.Idx); k.Supp {
					keys = append(keys, "calls-where-last-block-must-be-adopted/already-applied-once")
				}
			} else if b.TwinOf == nil && b.ChainValid() && b.State.SufficientlyHeavierThan(pt.State) {
				keys = append(keys, "calls-where-heavier-valid-last-block-is-not-adoptable(bodies-missing)")
			}
		}
		prev = obs[i]
		if prev.Panic {
			break
		}
	}
	return
}

// corpus: minimised earlier failures and hand-picked shapes, run first.
func corpus() []mgrsim.Case {
	var out []mgrsim.Case
	// a block that chains transactions inside itself is reverted and the competing branch re-mines the same
	// transactions (at once, Remine 4, or possibly a block later, Remine 2); shapes: 1-2-3 | 2-4-5-6 and
	// 1-2-3-4 | 1-5-6-7-8, submitted branch after branch
	shapes := [][]int{{0, 1, 2, 2, 4, 5}, {0, 1, 2, 3, 1, 5, 6, 7}}
	plans := [][]mgrsim.Op{
		{{Kind: "add", Nodes: []int{1, 2, 3}}, {Kind: "add", Nodes: []int{4, 5, 6}}},
		{{Kind: "add", Nodes: []int{1, 2, 3, 4}}, {Kind: "add", Nodes: []int{5, 6}}, {Kind: "add", Nodes: []int{7, 8}}},
	}
	kinds := [][]string{{"v1-chain"}, {"v1-chain-3", "v1-siafund-chain"}, {"v2-ephemeral", "v1-chain"}}
	for regime := 0; regime < 3; regime++ {
		for si := range shapes {
			for ki, ks := range kinds {
				if regime == 0 && ki == 2 || regime == 2 && ki != 2 {
					continue
				}
				for _, remine := range []int{4, 2} {
					out = append(out, mgrsim.Case{Seed: uint64(1000 + 100*regime + 10*si + ki + 5*remine), Regime: regime, Plan: plans[si],
						Opts: chaingen.GenOpts{Shape: shapes[si], TxPerBlock: 2, Kinds: ks, Remine: remine}})
				}
			}
		}
	}
	return out
}
