// Command c12 checks C12 (honest connected nodes converge to the same heaviest
// chain) on real syncer.Syncer instances over loopback: branches of generated
// fork trees are assigned to 2..5 nodes, the nodes are connected in every
// connected topology and in random orders, tips are announced, and after
// quiescence every tip must be the heaviest valid chain among them.
package main

import (
	"encoding/json"
	"fmt"
	"net"
	"os"
	"sort"
	"strings"
	"sync"
	"sync/atomic"
	"time"

	"go.sia.tech/core/gateway"
	"go.sia.tech/core/types"
	"go.sia.tech/coreutils/chain"
	"go.sia.tech/coreutils/syncer"
	"verif/harness/internal/chaingen"
	"verif/harness/internal/hx"
	"verif/harness/internal/mgrsim"
	"verif/harness/internal/netsim"
	"verif/harness/internal/rng"
)

func main() { hx.Main("C12", func(c *hx.Ctx) { netsim.Supervised(c, "c12-process-crashed", run) }) }

// A Scen is one scenario; everything else is regenerated from it.
type Scen struct {
	Kind     string           `json:"kind"`   // net | pull
	Stream   string           `json:"stream"` // exact | finding
	Seed     uint64           `json:"seed"`
	Regime   int              `json:"regime"`
	Opts     chaingen.GenOpts `json:"opts"`
	Tips     []int            `json:"tips"`                 // initial tip (tree node index) per node
	Edges    [][2]int         `json:"edges"`                // connection order; [a,b]: a dials b
	Batch    uint64           `json:"batch"`                // WithMaxSendBlocks on every node (0 = default)
	MaxIn    int              `json:"max_in,omitempty"`     // WithMaxInboundPeers (0 = default)
	Boot     []bool           `json:"boot,omitempty"`       // node bootstrapped from a checkpoint (its tip) instead of genesis
	Announce bool             `json:"announce"`             // tips are re-announced while waiting (as the property says)
	Staged   bool             `json:"staged,omitempty"`     // each connection is made only after the previous one has finished syncing (both ends marked synced)
	HdrOnly  bool             `json:"hdr_only,omitempty"`   // tips are announced by header only (what syncLoop itself relays; v1 tips have no outline anyway)
	MidReorg []int            `json:"mid_reorg,omitempty"`  // [node, tree block]: that node adopts the chain to that block between its Headers answer and its first block answer
	Flaky    int64            `json:"flaky,omitempty"`      // the first connection of the first edge is cut after that many bytes written by the dialling side; links are re-established
	Restart  int              `json:"restart,omitempty"`    // 1+node: that node's syncer is closed after a moment and a fresh one is started over the same manager and re-linked
	Unobs    bool             `json:"unobserved,omitempty"` // the syncers talk to their managers directly (no recording wrapper serialising a node's calls)
	Bound    string           `json:"bound,omitempty"`      // which boundary shape a directed scenario is about (for the evidence counters)
	Steps    [][2]int         `json:"steps,omitempty"`      // kind "announce": [miner node, tree block]: the miner adds the block and announces it ONCE
	Compact  bool             `json:"compact,omitempty"`    // kind "announce": outlines carry hashes only (built against the miner's pool before the block was added)
	Honour   bool             `json:"honour,omitempty"`     // kind "announce": the peer stores honour bans (a banned honest peer cannot come back)
	Slot     int              `json:"-"`
}

func (s Scen) tree() *chaingen.Tree {
	r := rng.New(s.Seed)
	env := chaingen.NewEnv(r, s.Regime)
	return chaingen.Gen(r, env, s.Opts)
}

// safeTree is tree() for a seed that has not been tried yet: the generator gives up (panics) on the
// rare seed that makes two sibling blocks identical; such a seed is simply not used.
func (s Scen) safeTree() (t *chaingen.Tree) {
	defer func() {
		if recover() != nil {
			t = nil
		}
	}()
	return s.tree()
}

type failure struct {
	kind, detail string
}

type result struct {
	fail     *failure
	finding  *failure
	final    []int
	coq      string
	events   int
	hops     int
	elapsed  time.Duration
	reorgs   int
	notes    []string
	expected int
	cut      bool
}

// midReorg is the chain manager of a node that learns of a heavier chain while it is being pulled from: between
// its Headers answer and its first block answer it adopts `blocks` (so the blocks it serves no longer match the
// headers it announced — the honest way of sending "blocks that do not match the announced headers").
type midReorg struct {
	*chain.Manager
	blocks []types.Block
	seenH  atomic.Bool
	once   sync.Once
}

func (m *midReorg) Headers(index types.ChainIndex, max uint64) ([]types.BlockHeader, uint64, error) {
	hs, rem, err := m.Manager.Headers(index, max)
	if err == nil && len(hs) > 0 {
		m.seenH.Store(true)
	}
	return hs, rem, err
}

func (m *midReorg) reorg() {
	if m.seenH.Load() {
		m.once.Do(func() { m.Manager.AddBlocks(m.blocks) })
	}
}

func (m *midReorg) BlocksForHistory(history []types.BlockID, max uint64) ([]types.Block, uint64, error) {
	m.reorg()
	return m.Manager.BlocksForHistory(history, max)
}

// Block is what the SendCheckpoint handler asks first on the pre-validated path.
func (m *midReorg) Block(id types.BlockID) (types.Block, bool) {
	m.reorg()
	return m.Manager.Block(id)
}

func uidFor(seed uint64, i int) gateway.UniqueID {
	var id gateway.UniqueID
	r := rng.New(seed ^ uint64(0x9e37+i*7919))
	r.Bytes(id[:])
	id[0] |= 1
	return id
}

// heaviest returns the assigned tip with the most total work (first one on ties).
func heaviest(t *chaingen.Tree, tips []int) *chaingen.Node {
	var best *chaingen.Node
	for _, i := range tips {
		n := t.Nodes[i]
		if best == nil {
			best = n
			continue
		}
		a, _ := n.Work()
		b, _ := best.Work()
		if a.Cmp(b) > 0 {
			best = n
		}
	}
	return best
}

// separated reports whether h is sufficiently heavier than every other assigned tip.
func separated(t *chaingen.Tree, tips []int, h *chaingen.Node) bool {
	for _, i := range tips {
		n := t.Nodes[i]
		if n != h && !mgrsim.Heavier(h, n) {
			return false
		}
	}
	return true
}

func nodeOpts(s Scen) []syncer.Option {
	var o []syncer.Option
	if s.Batch > 0 {
		o = append(o, syncer.WithMaxSendBlocks(s.Batch))
	}
	if s.MaxIn > 0 {
		o = append(o, syncer.WithMaxInboundPeers(s.MaxIn))
	}
	return o
}

// bootNode builds a manager initialised at the checkpoint n (a v2 block) instead of genesis.
func bootNode(env *chaingen.Env, n *chaingen.Node) (*chain.DBStore, *chain.Manager, error) {
	store, ts, err := chain.NewDBStoreAtCheckpoint(chain.NewMemDB(), n.Parent.FullState, n.Block, nil)
	if err != nil {
		return nil, nil, err
	}
	return store, chain.NewManager(store, ts), nil
}

func runNet(s Scen) (res result) {
	start := time.Now()
	t := s.tree()
	n := len(s.Tips)
	nodes := make([]*netsim.Node, n)
	defer func() {
		for _, nd := range nodes {
			if nd != nil {
				nd.Close()
			}
		}
	}()
	booted := false
	var cut *netsim.CutDialer
	for i := 0; i < n; i++ {
		tipN := t.Nodes[s.Tips[i]]
		var store *chain.DBStore
		var cm *chain.Manager
		if i < len(s.Boot) && s.Boot[i] {
			var err error
			store, cm, err = bootNode(t.Env, tipN)
			if err != nil {
				res.fail = &failure{"c12-harness", "checkpoint bootstrap failed: " + err.Error()}
				return
			}
			booted = true
		} else {
			store, cm = netsim.NewChain(t.Env, t, tipN)
		}
		opt := netsim.Options{Opts: nodeOpts(s), UID: uidFor(s.Seed, i), Unobserved: s.Unobs}
		if len(s.MidReorg) == 2 && s.MidReorg[0] == i {
			mr := &midReorg{Manager: cm, blocks: chaingen.Blocks(t.Path(t.Nodes[s.MidReorg[1]]))}
			opt.Wrap = func(*chain.Manager) syncer.ChainManager { return mr }
		}
		if s.Flaky > 0 && len(s.Edges) > 0 && s.Edges[0][0] == i {
			cut = &netsim.CutDialer{Inner: &net.Dialer{LocalAddr: &net.TCPAddr{IP: net.ParseIP(netsim.IPFor(s.Slot, i))}}, Budget: s.Flaky, Times: 1}
			opt.Opts = append(opt.Opts, syncer.WithDialer(cut))
		}
		nd, err := netsim.Start(fmt.Sprintf("n%d", i), netsim.IPFor(s.Slot, i), t.Env, store, cm, opt)
		if err != nil {
			res.fail = &failure{"c12-harness", "cannot start node: " + err.Error()}
			return
		}
		nodes[i] = nd
	}
	trustAll := func() {
		for _, nd := range nodes {
			for _, o := range nodes {
				nd.PS.Trusted[o.IP] = true
			}
		}
	}
	trustAll()
	// relink: re-establish every edge neither end of which sees the other any more
	relink := func() {
		for _, e := range s.Edges {
			a, b := nodes[e[0]], nodes[e[1]]
			if !a.Connected(b.IP) && !b.Connected(a.IP) {
				a.Connect(b)
			}
		}
	}
	for _, e := range s.Edges {
		if err := nodes[e[0]].Connect(nodes[e[1]]); err != nil {
			res.notes = append(res.notes, fmt.Sprintf("connect %d->%d: %v", e[0], e[1], err))
		}
		if s.Staged {
			a, b := nodes[e[0]], nodes[e[1]]
			if !netsim.WaitUntil(10*time.Second, func() bool { return a.PeerSynced(b.IP) && b.PeerSynced(a.IP) }) {
				res.notes = append(res.notes, fmt.Sprintf("stage %d-%d did not settle", e[0], e[1]))
			}
		}
	}
	cand := s.Tips
	if len(s.MidReorg) == 2 {
		cand = append(append([]int(nil), s.Tips...), s.MidReorg[1])
	}
	h := heaviest(t, cand)
	res.expected = h.Idx
	sep := separated(t, cand, h)
	restarted := false
	restartAt := time.Now().Add(1300 * time.Millisecond)
	tipsNow := func() []int {
		out := make([]int, n)
		for i, nd := range nodes {
			if x, ok := t.ByID[nd.CM.Tip().ID]; ok {
				out[i] = x.Idx
			} else {
				out[i] = -1
			}
		}
		return out
	}
	allOn := func(ts []int, idx int) bool {
		for _, x := range ts {
			if x != idx {
				return false
			}
		}
		return true
	}
	// wait for quiescence: all tips on the heaviest chain, or no tip change for a while
	const stable = 4200 * time.Millisecond
	deadline := time.Now().Add(40 * time.Second)
	last := tipsNow()
	lastChange := time.Now()
	lastAnn := time.Time{}
	lastRelink := time.Now()
	for {
		if s.Announce && time.Since(lastAnn) > 250*time.Millisecond {
			for _, nd := range nodes {
				if s.HdrOnly {
					nd.AnnounceHeader()
				} else {
					nd.AnnounceTip()
				}
			}
			lastAnn = time.Now()
		}
		time.Sleep(40 * time.Millisecond)
		if s.Restart > 0 && !restarted && time.Now().After(restartAt) {
			// close the node's syncer in the middle of things and start a fresh one over the same store and manager
			restarted = true
			k := s.Restart - 1
			old := nodes[k]
			old.Close()
			nd, err := netsim.Start(fmt.Sprintf("n%d'", k), netsim.IPFor(s.Slot, k), t.Env, old.Store, old.CM, netsim.Options{Opts: nodeOpts(s), UID: uidFor(s.Seed, 100+k), Unobserved: true})
			if err != nil {
				res.fail = &failure{"c12-harness", "cannot restart node: " + err.Error()}
				return
			}
			nodes[k] = nd
			trustAll()
		}
		if (s.Flaky > 0 || restarted) && time.Since(lastRelink) > 400*time.Millisecond {
			relink()
			lastRelink = time.Now()
		}
		cur := tipsNow()
		if fmt.Sprint(cur) != fmt.Sprint(last) {
			last, lastChange = cur, time.Now()
		}
		if allOn(cur, h.Idx) {
			break
		}
		if time.Since(lastChange) > stable || time.Now().After(deadline) {
			break
		}
	}
	res.final = tipsNow()
	res.elapsed = time.Since(start)

	// direct probes of the read side (recorded like the syncers' own calls)
	pr := rng.New(s.Seed ^ 0xabcdef)
	for k := 0; k < 4 && n > 1; k++ {
		i, j := pr.Intn(n), pr.Intn(n)
		hist, _ := nodes[i].Rec.History()
		max := uint64([]int{1, 3, 100}[pr.Intn(3)])
		nodes[j].Rec.BlocksForHistory(hist[:], max)
		// a random block of i's best chain as a header index
		tip := nodes[i].CM.Tip()
		if idx, ok := nodes[i].CM.BestIndex(uint64(pr.Intn(int(tip.Height) + 1))); ok {
			nodes[j].Rec.Headers(idx, max)
		}
	}

	// monitors
	for i, nd := range nodes {
		if ps := nd.Panics(); len(ps) > 0 {
			res.fail = &failure{"c12-handler-panic", fmt.Sprintf("node %d recovered a panic in an RPC handler: %s", i, ps[0])}
			return
		}
		if !(i < len(s.Boot) && s.Boot[i]) {
			if k, d := netsim.AuditNode("c12", t, t.Nodes[s.Tips[i]], nd); k != "" {
				res.fail = &failure{k, fmt.Sprintf("node %d: %s", i, d)}
				return
			}
		} else if x, ok := t.ByID[nd.CM.Tip().ID]; !ok || !x.ChainValid() {
			res.fail = &failure{"c12-invalid-block-adopted", fmt.Sprintf("bootstrapped node %d is on a tip that is not a valid block of the tree", i)}
			return
		}
		if !(i < len(s.Boot) && s.Boot[i]) {
			if k, d := auditReads(t, nd.Rec.Log()); k != "" {
				res.fail = &failure{k, fmt.Sprintf("node %d: %s", i, d)}
				return
			}
		}
		if k, d := netsim.AuditTips("c12", t, t.Nodes[s.Tips[i]], nd.Tips()); k != "" {
			res.fail = &failure{k, fmt.Sprintf("node %d: %s", i, d)}
			return
		}
		res.reorgs += len(nd.Tips())
		for _, b := range nd.PS.Bans() {
			res.fail = &failure{"c12-honest-peer-banned", fmt.Sprintf("node %d banned %s: %s", i, b.Addr, b.Reason)}
			return
		}
	}
	// which pairs are actually connected?
	adj := map[[2]int]bool{}
	for i, nd := range nodes {
		for j, o := range nodes {
			if i != j && nd.Connected(o.IP) {
				adj[[2]int{i, j}], adj[[2]int{j, i}] = true, true
			}
		}
	}
	connected := func() bool {
		seen := map[int]bool{0: true}
		q := []int{0}
		for len(q) > 0 {
			x := q[0]
			q = q[1:]
			for y := 0; y < n; y++ {
				if adj[[2]int{x, y}] && !seen[y] {
					seen[y] = true
					q = append(q, y)
				}
			}
		}
		return len(seen) == n
	}()
	if !connected {
		res.notes = append(res.notes, "peer graph not connected at the end")
	}
	if !allOn(res.final, res.final[0]) {
		// no convergence: near-tie (by design) or a lighter node that stalled?
		var stalled []string
		for e := range adj {
			a, b := t.Nodes[res.final[e[0]]], t.Nodes[res.final[e[1]]]
			if mgrsim.Heavier(b, a) {
				stalled = append(stalled, fmt.Sprintf("node %d (tip %d) is connected to node %d whose tip %d is sufficiently heavier", e[0], a.Idx, e[1], b.Idx))
			}
		}
		sort.Strings(stalled)
		desc := fmt.Sprintf("final tips %v (initial %v, heaviest %d, separated=%v, edges %v, batch %d, regime %s)", res.final, s.Tips, h.Idx, sep, s.Edges, s.Batch, chaingen.RegimeNames[s.Regime])
		if len(stalled) > 0 && connected {
			res.fail = &failure{"c12-lighter-node-stalled", stalled[0] + "; " + desc}
			return
		}
		if !connected {
			return // nothing to demand
		}
		pairwise := true
		for _, x := range res.final {
			for _, y := range res.final {
				if x != y && mgrsim.Heavier(t.Nodes[x], t.Nodes[y]) {
					pairwise = false
				}
			}
		}
		if pairwise {
			res.finding = &failure{"c12-near-tie-no-convergence", "tips differ and no final tip is sufficiently heavier than another (|tw_a - tw_b| <= diff/5): " + desc}
		} else {
			res.finding = &failure{"c12-near-tie-shielded-no-convergence", "tips differ; no node's tip is sufficiently heavier than a neighbour's, but two non-adjacent nodes are separated by a node that is in a near-tie with both: " + desc}
		}
	} else if connected && res.final[0] != h.Idx {
		hw, _ := h.Work()
		fw, _ := t.Nodes[res.final[0]].Work()
		if fw.Cmp(hw) < 0 {
			res.fail = &failure{"c12-converged-to-lighter-chain", fmt.Sprintf("all nodes ended on tip %d although tip %d has more work", res.final[0], h.Idx)}
			return
		}
	}
	if cut != nil {
		res.notes = append(res.notes, fmt.Sprintf("connections cut: %d", cut.Cuts.Load()))
		if cut.Cuts.Load() > 0 {
			res.cut = true
		}
	}
	if !booted && !s.Unobs && s.Restart == 0 && len(s.MidReorg) == 0 {
		res.coq, res.events = coqEvents(t, s, nodes, res.final)
	}
	return
}

// auditReads checks every recorded answer of the read side (History, Headers, BlocksForHistory) of an honest
// node against the tree: the oracle is the path to the tip the node had when it answered.
//
//	History: the 10 most recent blocks, then exponentially spaced ones (offsets 7 + 2^(i-8)) down to genesis;
//	Headers(index): the best chain above index, error iff index is not on it;
//	BlocksForHistory(hist): the best chain above the first id of hist that is on the best chain (genesis if none).
func auditReads(t *chaingen.Tree, log []netsim.Call) (string, string) {
	for _, c := range log {
		tipN, ok := t.ByID[c.TipAft.ID]
		if !ok {
			continue
		}
		chain := append([]*chaingen.Node{t.Nodes[0]}, t.Path(tipN)...) // by height
		onChain := func(id types.BlockID) (int, bool) {
			n, ok := t.ByID[id]
			if !ok || int(n.Height) >= len(chain) || chain[n.Height] != n {
				return 0, false
			}
			return int(n.Height), true
		}
		serve := func(from int, max uint64) ([]types.BlockID, uint64) {
			var out []types.BlockID
			for h := from + 1; h < len(chain) && uint64(len(out)) < max; h++ {
				out = append(out, chain[h].ID)
			}
			return out, uint64(len(chain)-1-from) - uint64(len(out))
		}
		same := func(a, b []types.BlockID) bool {
			if len(a) != len(b) {
				return false
			}
			for i := range a {
				if a[i] != b[i] {
					return false
				}
			}
			return true
		}
		switch c.Kind {
		case "history":
			th := len(chain) - 1
			for i, id := range c.Res {
				off := i
				if i >= 10 {
					off = 7 + 1<<(i-8)
				}
				if off > th {
					off = th
				}
				if chain[th-off].ID != id {
					return "c12-history-sample-wrong", fmt.Sprintf("History()[%d] of a node on tip %d is not the block %d below the tip", i, tipN.Idx, off)
				}
			}
		case "headers":
			h, on := onChain(c.Index.ID)
			if on && uint64(h) != c.Index.Height {
				on = false
			}
			if on != (c.Err == "") {
				return "c12-headers-wrong-answer", fmt.Sprintf("Headers(%v) of a node on tip %d: on best chain = %v but error = %q", c.Index, tipN.Idx, on, c.Err)
			}
			if on {
				want, rem := serve(h, c.Max)
				if !same(want, c.Res) || rem != c.Rem {
					return "c12-headers-wrong-answer", fmt.Sprintf("Headers(%v, %d) of a node on tip %d does not return its best chain above the index", c.Index, c.Max, tipN.Idx)
				}
			}
		case "bfh":
			if c.Err != "" {
				continue
			}
			att := 0
			for _, id := range c.IDs {
				if h, on := onChain(id); on {
					att = h
					break
				}
			}
			want, rem := serve(att, c.Max)
			if !same(want, c.Res) || rem != c.Rem {
				return "c12-blocks-for-history-wrong-attach", fmt.Sprintf("BlocksForHistory(%d ids, %d) of a node on tip %d does not serve its best chain above the first history id that is on it (height %d)", len(c.IDs), c.Max, tipN.Idx, att)
			}
		}
	}
	return "", ""
}

func idxOf(t *chaingen.Tree, id types.BlockID) (int, bool) {
	n, ok := t.ByID[id]
	if !ok {
		return 0, false
	}
	return n.Idx, true
}

func nl(xs []int) string {
	s := make([]string, len(xs))
	for i, x := range xs {
		s[i] = fmt.Sprint(x)
	}
	return "[" + strings.Join(s, "; ") + "]"
}

func idList(t *chaingen.Tree, ids []types.BlockID) ([]int, bool) {
	out := make([]int, len(ids))
	for i, id := range ids {
		x, ok := idxOf(t, id)
		if !ok {
			return nil, false
		}
		out[i] = x
	}
	return out, true
}

func pathIdx(t *chaingen.Tree, n *chaingen.Node) []int {
	var out []int
	for _, x := range t.Path(n) {
		out = append(out, x.Idx)
	}
	return out
}

// coqEvents renders the recorded calls of all nodes as a CEvents case.
func coqEvents(t *chaingen.Tree, s Scen, nodes []*netsim.Node, final []int) (string, int) {
	type ev struct {
		seq uint64
		s   string
	}
	var evs []ev
	for i, nd := range nodes {
		for _, c := range nd.Rec.Log() {
			switch c.Kind {
			case "add", "addv":
				l, ok := idList(t, c.IDs)
				tip, ok2 := idxOf(t, c.TipAft.ID)
				if !ok || !ok2 {
					return "", 0
				}
				evs = append(evs, ev{c.Seq, fmt.Sprintf("EAdd %d %v %s %v %d", i, c.Kind == "addv", nl(l), c.Err != "", tip)})
			case "history":
				l, ok := idList(t, c.Res)
				if !ok {
					return "", 0
				}
				evs = append(evs, ev{c.Seq, fmt.Sprintf("EHist %d %s", i, nl(l))})
			case "headers":
				a, ok := idxOf(t, c.Index.ID)
				if !ok {
					continue
				}
				if an := t.Nodes[a]; an.Height != c.Index.Height {
					continue
				}
				r := "None"
				if c.Err == "" {
					l, ok := idList(t, c.Res)
					if !ok {
						return "", 0
					}
					r = fmt.Sprintf("(Some (%s, %d))", nl(l), c.Rem)
				}
				evs = append(evs, ev{c.Seq, fmt.Sprintf("EHdrs %d %d %d %s", i, a, c.Max, r)})
			case "bfh":
				hl, ok := idList(t, c.IDs)
				l, ok2 := idList(t, c.Res)
				if !ok || !ok2 || c.Err != "" {
					continue
				}
				evs = append(evs, ev{c.Seq, fmt.Sprintf("EBfh %d %s %d (%s, %d)", i, nl(hl), c.Max, nl(l), c.Rem)})
			}
		}
	}
	sort.Slice(evs, func(a, b int) bool { return evs[a].seq < evs[b].seq })
	// bound the size of a case: keep the first 400 events (replay is prefix-closed)
	cut := false
	if len(evs) > 400 {
		evs, cut = evs[:400], true
	}
	strs := make([]string, len(evs))
	for i, e := range evs {
		strs[i] = e.s
	}
	var inits []string
	for _, ti := range s.Tips {
		inits = append(inits, nl(pathIdx(t, t.Nodes[ti])))
	}
	fin := nl(final)
	if cut {
		// the final tips cannot be compared on a truncated log: replay them from the model itself
		return "", 0
	}
	return fmt.Sprintf("CEvents %s\n  [%s]\n  [%s]\n  %s", mgrsim.CoqUniverse(t), strings.Join(inits, "; "), strings.Join(strs, ";\n   "), fin), len(evs)
}

// runPull: node 0 pulls once from the passive node 1.
func runPull(s Scen) (res result) {
	t := s.tree()
	ti, tj := t.Nodes[s.Tips[0]], t.Nodes[s.Tips[1]]
	si, ci := netsim.NewChain(t.Env, t, ti)
	sj, cj := netsim.NewChain(t.Env, t, tj)
	ni, err := netsim.Start("puller", netsim.IPFor(s.Slot, 0), t.Env, si, ci, netsim.Options{Opts: nodeOpts(s), UID: uidFor(s.Seed, 0)})
	if err != nil {
		res.fail = &failure{"c12-harness", err.Error()}
		return
	}
	defer ni.Close()
	nj, err := netsim.Start("passive", netsim.IPFor(s.Slot, 1), t.Env, sj, cj, netsim.Options{Opts: append(nodeOpts(s), syncer.WithSyncInterval(time.Hour)), UID: uidFor(s.Seed, 1)})
	if err != nil {
		res.fail = &failure{"c12-harness", err.Error()}
		return
	}
	defer nj.Close()
	ni.PS.Trusted[nj.IP], nj.PS.Trusted[ni.IP] = true, true
	if err := ni.Connect(nj); err != nil {
		res.fail = &failure{"c12-harness", "connect: " + err.Error()}
		return
	}
	heavier := mgrsim.Heavier(tj, ti)
	ok := netsim.WaitUntil(25*time.Second, func() bool {
		ps := ni.S.Peers()
		if heavier {
			return ni.CM.Tip().ID == tj.ID && len(ps) == 1 && ps[0].Synced()
		}
		return len(ps) == 1 && ps[0].Synced()
	})
	fin, _ := idxOf(t, ni.CM.Tip().ID)
	res.final = []int{fin}
	res.expected = ti.Idx
	if heavier {
		res.expected = tj.Idx
	}
	if k, d := netsim.AuditNode("c12", t, ti, ni); k != "" {
		res.fail = &failure{k, d}
		return
	}
	for _, nd := range []*netsim.Node{ni, nj} {
		if k, d := auditReads(t, nd.Rec.Log()); k != "" {
			res.fail = &failure{k, d}
			return
		}
	}
	if !ok {
		res.fail = &failure{"c12-pull-did-not-complete", fmt.Sprintf("node on tip %d connected to a passive peer on tip %d (sufficiently heavier: %v) with batch %d: after 25 s its tip is %d and the peer is not marked synced", ti.Idx, tj.Idx, heavier, s.Batch, fin)}
		return
	}
	// reconstruct the pull from the two logs
	var tried []int
	att := "None"
	var hs []int
	gotHeaders := false
	for _, c := range nj.Rec.Log() {
		if c.Kind != "headers" || gotHeaders {
			continue
		}
		a, ok := idxOf(t, c.Index.ID)
		if !ok {
			return
		}
		if c.Err != "" {
			tried = append(tried, a)
			continue
		}
		att = fmt.Sprintf("(Some %d)", a)
		hs, _ = idList(t, c.Res)
		gotHeaders = true
	}
	var subs []string
	for _, c := range ni.Rec.Log() {
		if c.Kind == "add" || c.Kind == "addv" {
			l, ok := idList(t, c.IDs)
			if !ok {
				return
			}
			subs = append(subs, fmt.Sprintf("(%v, %s)", c.Kind == "addv", nl(l)))
		}
	}
	// the request size is the implementation's choice (a constant capped by MaxSendBlocks): take what this run used,
	// the largest Max of the block requests the puller sent (see cmd/c11/project.go)
	var bpr uint64
	for _, c := range nj.Rec.Log() {
		if c.Kind == "bfh" && c.Max > bpr {
			bpr = c.Max
		}
	}
	if bpr == 0 {
		bpr = s.Batch
		if bpr == 0 {
			bpr = 100
		}
	}
	res.coq = fmt.Sprintf("CPull %s (Params 10000 %d %d) %s %s %s %s %s [%s] %d", mgrsim.CoqUniverse(t), bpr, t.Env.Net.HardforkV2.RequireHeight,
		nl(pathIdx(t, ti)), nl(pathIdx(t, tj)), nl(tried), att, nl(hs), strings.Join(subs, "; "), fin)
	res.events = len(subs)
	return
}

// connected graphs on n labelled nodes, as edge lists
func connectedGraphs(n int) [][][2]int {
	var all [][2]int
	for i := 0; i < n; i++ {
		for j := i + 1; j < n; j++ {
			all = append(all, [2]int{i, j})
		}
	}
	var out [][][2]int
	for mask := 1; mask < 1<<len(all); mask++ {
		var es [][2]int
		for k, e := range all {
			if mask>>k&1 == 1 {
				es = append(es, e)
			}
		}
		seen := map[int]bool{0: true}
		for changed := true; changed; {
			changed = false
			for _, e := range es {
				if seen[e[0]] != seen[e[1]] {
					seen[e[0]], seen[e[1]] = true, true
					changed = true
				}
			}
		}
		if len(seen) == n {
			out = append(out, es)
		}
	}
	return out
}

func genScen(r *rng.R, i int, stream string, thorough bool) (Scen, bool) {
	s := Scen{Kind: "net", Stream: stream, Seed: r.U64(), Announce: true}
	s.Regime = i % 3
	if stream == "finding" {
		s.Regime = []int{3, 4, 5, 0, 2}[i%5]
	}
	s.Opts = chaingen.GenOpts{Blocks: 6 + r.Intn(10), Branchiness: 2 + r.Intn(3), TxPerBlock: r.Intn(3)}
	if s.Regime >= 3 {
		s.Opts.Jitter = 4000
	}
	if s.Regime%3 != 2 && i%2 == 1 {
		// below the require height the element store is in use: forks that move siafunds and contracts, so that
		// reorgs revert and re-apply every kind of element (a store-level mistake surfaces as a failed reorg:
		// honest peer banned, node stalled)
		s.Opts.Kinds = v1Heavy
		s.Opts.TxPerBlock = 2 + r.Intn(2)
	}
	n := 2 + r.Intn(3)
	if thorough && r.Chance(1, 4) {
		n = 5
	}
	t := s.safeTree()
	if t == nil {
		return s, false
	}
	var valid []int
	for _, x := range t.Nodes {
		if x.ChainValid() {
			valid = append(valid, x.Idx)
		}
	}
	for try := 0; try < 200; try++ {
		s.Tips = nil
		for k := 0; k < n; k++ {
			s.Tips = append(s.Tips, valid[r.Intn(len(valid))])
		}
		h := heaviest(t, s.Tips)
		sep := separated(t, s.Tips, h)
		if stream == "exact" && sep {
			break
		}
		if stream == "finding" && !sep {
			break
		}
		if try == 199 {
			return s, false
		}
	}
	var gs [][][2]int
	if n <= 4 {
		gs = connectedGraphs(n)
	} else {
		// random connected graph on 5: a random spanning tree plus random extra edges
		var es [][2]int
		p := r.Perm(n)
		for k := 1; k < n; k++ {
			es = append(es, [2]int{p[r.Intn(k)], p[k]})
		}
		for k := 0; k < r.Intn(4); k++ {
			a, b := r.Intn(n), r.Intn(n)
			if a != b {
				es = append(es, [2]int{a, b})
			}
		}
		gs = [][][2]int{es}
	}
	g := gs[(i/3)%len(gs)]
	if r.Bool() {
		g = gs[r.Intn(len(gs))]
	}
	for _, k := range r.Perm(len(g)) {
		e := g[k]
		if r.Bool() {
			e = [2]int{e[1], e[0]}
		}
		s.Edges = append(s.Edges, e)
	}
	s.Batch = []uint64{1, 3, 100}[(i/2)%3]
	if i%5 == 4 {
		s.Unobs = true
		// an unobserved node leaves no call log to replay under the C02 judge, so the known expiry-order finding
		// (v1 contracts sharing a window end) could not be attributed: no v1 contracts in these trees
		s.Opts.Kinds = noContracts
	}
	if r.Chance(1, 5) {
		s.MaxIn = 1 + r.Intn(3)
	}
	// checkpoint bootstrap: one node starts from a checkpoint (a v2 block at or above the require height that
	// lies on every assigned chain: a bootstrapped node cannot reorg below its checkpoint) instead of genesis.
	// (Above the Oak hardfork height: below it the store walks ancestor timestamps that a checkpoint store does
	// not have; the generated networks put that height at 1, mainnet's lies far below any checkpoint.)
	if r.Chance(1, 2) {
		h := heaviest(t, s.Tips)
		var ca *chaingen.Node
		for x := h; x != nil; x = x.Parent {
			if onAllChains(t, s.Tips, x) {
				ca = x
				break
			}
		}
		if ca != nil && ca != h && ca.Parent != nil && ca.Block.V2 != nil && ca.Height >= t.Env.Net.HardforkV2.RequireHeight && ca.Height > t.Env.Net.HardforkOak.Height+1 {
			k := r.Intn(n)
			if t.Nodes[s.Tips[k]] != h {
				s.Tips[k] = ca.Idx
				s.Boot = make([]bool, n)
				s.Boot[k] = true
			}
		}
	}
	return s, true
}

// onAllChains: x is an ancestor of (or equal to) every assigned tip.
func onAllChains(t *chaingen.Tree, tips []int, x *chaingen.Node) bool {
	for _, ti := range tips {
		ok := false
		for y := t.Nodes[ti]; y != nil; y = y.Parent {
			if y == x {
				ok = true
			}
		}
		if !ok {
			return false
		}
	}
	return true
}

func genPull(r *rng.R, i int) Scen {
	s := Scen{Kind: "pull", Stream: "exact", Seed: r.U64(), Regime: i % 6}
	s.Opts = chaingen.GenOpts{Blocks: 5 + r.Intn(14), Branchiness: 2 + r.Intn(3), TxPerBlock: r.Intn(3)}
	if s.Regime >= 3 && r.Bool() {
		s.Opts.Jitter = 4000
	}
	if s.Regime%3 != 2 && i%3 == 1 {
		s.Opts.Kinds = v1Heavy
		s.Opts.TxPerBlock = 2 + r.Intn(2)
	}
	if i%7 == 6 {
		// a long, mostly linear tree: history spacing beyond the first ten entries
		s.Opts = chaingen.GenOpts{Blocks: 30 + r.Intn(30), Branchiness: 12}
	}
	t := s.safeTree()
	for t == nil {
		s.Seed = r.U64()
		t = s.safeTree()
	}
	var valid []int
	for _, x := range t.Nodes {
		if x.ChainValid() {
			valid = append(valid, x.Idx)
		}
	}
	s.Tips = []int{valid[r.Intn(len(valid))], valid[r.Intn(len(valid))]}
	s.Batch = []uint64{1, 3, 100, 0}[i%4]
	return s
}

func describe(t *chaingen.Tree) []string {
	var out []string
	for _, n := range t.Nodes {
		p := -1
		if n.Parent != nil {
			p = n.Parent.Idx
		}
		tw, d := n.Work()
		out = append(out, fmt.Sprintf("block %d parent %d height %d v2=%v tw=%s diff=%s", n.Idx, p, n.Height, n.Block.V2 != nil, tw, d))
	}
	return out
}

// shrink tries smaller variants of a failing network scenario: fewer edges (while connected), batch 100.
func shrink(s Scen, kind string) Scen {
	fails := func(c Scen) bool {
		r := runNet(c)
		return r.fail != nil && r.fail.kind == kind
	}
	for i := 0; i < len(s.Edges) && len(s.Edges) > 1; i++ {
		c := s
		c.Edges = append(append([][2]int(nil), s.Edges[:i]...), s.Edges[i+1:]...)
		seen := map[int]bool{c.Edges[0][0]: true}
		for ch := true; ch; {
			ch = false
			for _, e := range c.Edges {
				if seen[e[0]] != seen[e[1]] {
					seen[e[0]], seen[e[1]] = true, true
					ch = true
				}
			}
		}
		if len(seen) != len(s.Tips) {
			continue
		}
		if fails(c) {
			s = c
			i--
		}
	}
	return s
}

func run(c *hx.Ctx) {
	res := c.Res
	res.Shard = 60
	res.Rule = "real syncers over loopback (own 127.x.y.z per node): fork-tree branches assigned to 2..5 nodes x every connected topology on <= 4 nodes x connection orders/directions x MaxSendBlocks {1,3,100} x inbound limits x checkpoint-bootstrapped nodes; exact stream (one tip sufficiently heavier than all others) and finding stream (near-ties); directed single pulls for the pull model; non-trivial := at least one node had to reorg away from a fork (not a plain extension)"
	tieHistoryToSource(c) // gotr_tie.go: histHeight regenerated from chain/manager.go and compared with Net/Converge.v (one extra cases file)
	var mu sync.Mutex
	var cases []string
	handle := func(s Scen, r result) {
		mu.Lock()
		defer mu.Unlock()
		js, _ := json.Marshal(s)
		t := s.tree()
		nontriv := false
		for _, ti := range s.Tips {
			x := t.Nodes[ti]
			onExp := false
			for y := t.Nodes[r.expected]; y != nil; y = y.Parent {
				if y == x {
					onExp = true
				}
			}
			if !onExp {
				nontriv = true
			}
		}
		res.Eval(string(js), nontriv)
		// assumed law WFW (Net/Converge.v): every block is sufficiently heavier than its parent
		for _, x := range t.Nodes {
			if x.Parent != nil && x.HdrOK && !mgrsim.Heavier(x, x.Parent) {
				res.Fail("c12-law-child-not-heavier-than-parent", fmt.Sprintf("block %d is not sufficiently heavier than its parent %d: the work law assumed by the convergence theorems does not hold for this tree", x.Idx, x.Parent.Idx), map[string]any{"scenario": s, "tree": describe(t)})
				break
			}
		}
		res.Count("kind:" + s.Kind)
		res.Count("stream:" + s.Stream)
		res.Count("regime:" + chaingen.RegimeNames[s.Regime])
		res.Count(fmt.Sprintf("nodes:%d", len(s.Tips)))
		res.Count(fmt.Sprintf("batch:%d", s.Batch))
		res.CountN("events", r.events)
		res.CountN("reorg-notifications", r.reorgs)
		for _, b := range s.Boot {
			if b {
				res.Count("checkpoint-bootstrapped-nodes")
			}
		}
		if r.fail != nil && r.fail.kind != "c12-harness" {
			res.Fail(r.fail.kind, r.fail.detail, map[string]any{"scenario": s, "tree": describe(t), "final": r.final, "notes": r.notes})
		} else if r.fail != nil {
			res.Notes = append(res.Notes, r.fail.detail)
			res.Count("harness-problem")
		}
		if r.finding != nil {
			res.Fail(r.finding.kind, r.finding.detail, map[string]any{"scenario": s, "tree": describe(t), "final": r.final})
		}
		if r.fail == nil && r.finding == nil && s.Kind == "net" {
			res.Count("converged")
		}
		if len(s.MidReorg) == 2 {
			res.Count("dim:peer-reorgs-between-headers-and-blocks")
		}
		if s.Flaky > 0 {
			res.Count("dim:link-cut-mid-exchange-and-relinked")
			if r.cut {
				res.Count("dim:link-cut-mid-exchange-and-relinked/cut-happened")
			}
		}
		if s.Restart > 0 {
			res.Count("dim:syncer-restarted-over-same-manager")
		}
		if s.Unobs {
			res.Count("dim:unobserved-nodes-judged-at-end-only")
		}
		if s.Bound != "" {
			res.Count("dim:boundary/" + s.Bound)
		}
		if r.coq != "" {
			cases = append(cases, r.coq)
		}
		if len(res.Samples) < 3 {
			res.Sample(map[string]any{"scenario": s, "final": r.final, "expected": r.expected, "elapsed_ms": r.elapsed.Milliseconds()})
		}
	}
	exec := func(s Scen) result {
		id := fmt.Sprintf("%s-%x", s.Kind, s.Seed)
		netsim.Begin(id, s)
		defer netsim.End(id)
		if s.Kind == "pull" {
			return runPull(s)
		}
		if s.Kind == "announce" {
			return runAnnounce(s)
		}
		return runNet(s)
	}
	if c.Replay != "" {
		var rp struct {
			Replay struct {
				Scenario Scen `json:"scenario"`
			} `json:"replay"`
		}
		b, _ := os.ReadFile(c.Replay)
		json.Unmarshal(b, &rp)
		s := rp.Replay.Scenario
		handle(s, exec(s))
		res.WriteCases("Run.Run_C12", cases)
		return
	}
	var scens []Scen
	scens = append(scens, corpus()...)
	scens = append(scens, announceScens(c.Thorough)...)
	nExact, nFinding, nPull := c.Scale(32, 400), c.Scale(10, 120), c.Scale(140, 900)
	for i := 0; i < nExact; i++ {
		if s, ok := genScen(c.R.Fork(), i, "exact", c.Thorough); ok {
			scens = append(scens, s)
		}
	}
	for i := 0; i < nFinding; i++ {
		if s, ok := genScen(c.R.Fork(), i, "finding", c.Thorough); ok {
			scens = append(scens, s)
		}
	}
	for i := 0; i < nPull; i++ {
		scens = append(scens, genPull(c.R.Fork(), i))
	}
	// run in parallel slots (each slot has its own 127.x /16)
	par := 20
	var wg sync.WaitGroup
	ch := make(chan Scen)
	results := make([]struct {
		s Scen
		r result
	}, 0, len(scens))
	var rmu sync.Mutex
	for w := 0; w < par; w++ {
		wg.Add(1)
		go func(slot int) {
			defer wg.Done()
			for s := range ch {
				s.Slot = slot
				r := exec(s)
				if r.fail != nil && s.Kind == "net" && r.fail.kind != "c12-harness" {
					small := shrink(s, r.fail.kind)
					if r2 := runNet(small); r2.fail != nil && r2.fail.kind == r.fail.kind {
						s, r = small, r2
					}
				}
				rmu.Lock()
				results = append(results, struct {
					s Scen
					r result
				}{s, r})
				rmu.Unlock()
			}
		}(w)
	}
	for _, s := range scens {
		ch <- s
	}
	close(ch)
	wg.Wait()
	sort.Slice(results, func(a, b int) bool { return results[a].s.Seed < results[b].s.Seed })
	for _, x := range results {
		handle(x.s, x.r)
	}
	res.WriteCases("Run.Run_C12", cases)
}

// every kind except v1 contracts (formation, revision, proof)
var noContracts = []string{"v1-transfer", "v1-siafund", "v2-transfer", "v2-ephemeral", "v2-siafund", "v2-form", "v2-revise", "v2-renew", "v2-proof", "v2-expire"}

// transaction kinds of the v1 element store (siafund spends first: every branch spends the same genesis outputs)
var v1Heavy = []string{"v1-siafund", "v1-siafund", "v1-transfer", "v1-form", "v1-revise", "v1-proof", "v1-revise-window"}

// forkShape: a trunk of `trunk` blocks, then fork X of lx blocks and fork Y of ly blocks on the trunk tip.
// Returns the shape and the node indices of the trunk tip and the two fork tips.
func forkShape(trunk, lx, ly int) (shape []int, tt, tx, ty int) {
	for k := 0; k < trunk; k++ {
		shape = append(shape, k)
	}
	tt = trunk
	for k := 0; k < lx; k++ {
		if k == 0 {
			shape = append(shape, tt)
		} else {
			shape = append(shape, trunk+k)
		}
	}
	tx = trunk + lx
	for k := 0; k < ly; k++ {
		if k == 0 {
			shape = append(shape, tt)
		} else {
			shape = append(shape, tx+k)
		}
	}
	ty = tx + ly
	return
}

// corpus: hand-picked shapes, run first. A line a-b-c in which the far node is exactly one
// block behind once the middle node has caught up by syncing (only a header is relayed then):
// linear chains in the v1-only, overlap and v2-only regimes, and the same with two blocks.
func corpus() []Scen {
	var out []Scen
	for regime := 0; regime < 3; regime++ {
		for _, lead := range []int{1, 2} {
			s := Scen{Kind: "net", Stream: "exact", Seed: uint64(7000 + regime), Regime: regime, Announce: true,
				Opts: chaingen.GenOpts{Blocks: 10, Branchiness: 0}, Batch: 100}
			s.Tips = []int{10, 10 - lead, 10 - lead}
			s.Edges = [][2]int{{1, 2}, {0, 1}}
			out = append(out, s)
		}
	}
	// star, two forks above the require height, several small requests per fork: the syncing centre has unsynced
	// peers on fork X (12 blocks) and on fork Y (8 blocks), both hanging on the trunk tip the centre holds;
	// with WithMaxSendBlocks(5) X needs three requests and every unsynced peer is a worker, so a Y peer is asked
	// for X's first request (and answers with Y blocks, which attach to the same checkpoint). Which worker gets
	// which request is up to the scheduler: repeated. Separated works: everybody must end on X.
	for rep := 0; rep < 5; rep++ {
		shape := []int{0, 1}      // trunk: nodes 1, 2
		for k := 0; k < 12; k++ { // X: nodes 3..14
			if k == 0 {
				shape = append(shape, 2)
			} else {
				shape = append(shape, 2+k)
			}
		}
		for k := 0; k < 8; k++ { // Y: nodes 15..22
			if k == 0 {
				shape = append(shape, 2)
			} else {
				shape = append(shape, 14+k)
			}
		}
		s := Scen{Kind: "net", Stream: "exact", Seed: uint64(8100 + rep), Regime: []int{2, 2, 5, 2, 5}[rep], Announce: true,
			Opts: chaingen.GenOpts{Shape: shape, TxPerBlock: rep % 2}, Batch: 5}
		s.Tips = []int{2, 14, 22, 14, 22}
		s.Edges = [][2]int{{0, 1}, {0, 2}, {3, 0}, {4, 0}}
		if rep%2 == 1 {
			s.Edges = [][2]int{{2, 0}, {1, 0}, {0, 4}, {0, 3}}
		}
		out = append(out, s)
	}
	// line a-b-c, connection order a-b first: a holds fork X, b the equal-work fork Y (neither replaces the other, each
	// stores the other's fork as a sidechain and marks the peer synced), c holds Y plus one block. Then b-c: b adopts
	// Y+1 and relays its header to a, whose only peer is b: a knows the parent (a stored sidechain block that is not
	// its tip) and must resync. Tips are announced by header only. Works separated by the extra block: all end on Y+1.
	for rep, regime := range []int{0, 2, 1} {
		const fl = 6
		shape := []int{}
		for k := 0; k < fl; k++ { // X: nodes 1..fl
			shape = append(shape, k)
		}
		for k := 0; k < fl+1; k++ { // Y: nodes fl+1..2fl, then Y+1: node 2fl+1
			if k == 0 {
				shape = append(shape, 0)
			} else {
				shape = append(shape, fl+k)
			}
		}
		s := Scen{Kind: "net", Stream: "exact", Seed: uint64(8300 + rep), Regime: regime, Announce: true, Staged: true, HdrOnly: true,
			Opts: chaingen.GenOpts{Shape: shape}, Batch: 100}
		s.Tips = []int{fl, 2 * fl, 2*fl + 1}
		s.Edges = [][2]int{{0, 1}, {1, 2}}
		if rep == 1 {
			s.Edges = [][2]int{{1, 0}, {2, 1}}
		}
		out = append(out, s)
	}
	// deep forks above the require height whose fork point lies strictly between two entries of the history sample
	// (own fork longer than 10 blocks and not 11, 15, 23, 39 ...): the attach point is below the fork point, so the
	// pre-validated batch starts with blocks the node already has on its best chain and continues with the fork.
	for k, l := range []int{12, 13, 14, 24, 25, 26} {
		trunk := 6
		if l > 20 {
			trunk = 18
		}
		shape, _, tx, ty := forkShape(trunk, l, l+2)
		regime := []int{2, 5}[k%2]
		out = append(out, Scen{Kind: "pull", Stream: "exact", Seed: uint64(8500 + k), Regime: regime, Opts: chaingen.GenOpts{Shape: shape}, Tips: []int{tx, ty}, Batch: []uint64{100, 0, 5}[k%3]})
		if k%2 == 0 {
			out = append(out, Scen{Kind: "net", Stream: "exact", Seed: uint64(8600 + k), Regime: regime, Announce: true, Opts: chaingen.GenOpts{Shape: shape}, Tips: []int{tx, ty}, Edges: [][2]int{{k % 4 / 2, 1 - k%4/2}}, Batch: 100})
		}
	}
	// forks below the require height that both spend the same siafund outputs (and more): the reorg reverts one
	// spend and applies the other
	for k, regime := range []int{0, 3, 1} {
		shape, _, tx, ty := forkShape(1, 3, 5)
		o := chaingen.GenOpts{Shape: shape, Kinds: []string{"v1-siafund", "v1-siafund", "v1-transfer"}, TxPerBlock: 3}
		out = append(out, Scen{Kind: "net", Stream: "exact", Seed: uint64(8700 + k), Regime: regime, Announce: true, Opts: o, Tips: []int{tx, ty, tx}, Edges: [][2]int{{0, 1}, {1, 2}}, Batch: 100})
		out = append(out, Scen{Kind: "pull", Stream: "exact", Seed: uint64(8750 + k), Regime: regime, Opts: o, Tips: []int{tx, ty}})
	}
	// a peer that reorgs onto a heavier chain between its header answer and its block answer (header-matched and
	// pre-validated path): the blocks it serves do not match the headers it announced, honestly
	for k, regime := range []int{0, 2, 1, 5} {
		trunk := 2
		if regime%3 == 1 {
			trunk = 5 + 4*(k%2) // below / above the require height of the overlap regime
		}
		shape, _, tx, ty := forkShape(trunk, 2, 4)
		tz := len(shape) + 6
		for q := 0; q < 6; q++ { // Z: 6 blocks on the trunk tip
			if q == 0 {
				shape = append(shape, trunk)
			} else {
				shape = append(shape, len(shape))
			}
		}
		out = append(out, Scen{Kind: "net", Stream: "exact", Seed: uint64(9000 + k), Regime: regime, Announce: true, Opts: chaingen.GenOpts{Shape: shape, TxPerBlock: 1, Kinds: noContracts},
			Tips: []int{tx, ty}, Edges: [][2]int{{0, 1}}, MidReorg: []int{1, tz}, Batch: []uint64{100, 3}[k%2]})
	}
	// a link that dies in the middle of an exchange (after a byte budget) and is re-established; a syncer that is
	// closed in the middle of things and replaced by a fresh one over the same manager
	for k, budget := range []int64{500, 2500, 9000} {
		shape, _, tx, ty := forkShape(2, 3, 7)
		out = append(out, Scen{Kind: "net", Stream: "exact", Seed: uint64(9100 + k), Regime: []int{0, 2, 1}[k], Announce: true, Opts: chaingen.GenOpts{Shape: shape, TxPerBlock: 2},
			Tips: []int{tx, ty, tx}, Edges: [][2]int{{0, 1}, {2, 0}}, Flaky: budget, Batch: []uint64{100, 3, 1}[k]})
	}
	for k, regime := range []int{2, 0} {
		shape, _, tx, ty := forkShape(2, 3, 9)
		out = append(out, Scen{Kind: "net", Stream: "exact", Seed: uint64(9200 + k), Regime: regime, Announce: true, Opts: chaingen.GenOpts{Shape: shape, TxPerBlock: 1, Kinds: noContracts},
			Tips: []int{tx, ty, tx}, Edges: [][2]int{{0, 1}, {0, 2}}, Restart: 1, Batch: 2})
	}
	// boundary shapes: request bases exactly at require-1 / require / require+1 (overlap regime: allow 3, require 8),
	// requests whose size makes a later base land on the require height, own forks of exactly 10, 11, 15, 16 blocks
	// (the history sample's dense part ends at 10; entries at 11 and 15)
	for k, fp := range []int{2, 3, 7, 8, 9} {
		shape, _, tx, ty := forkShape(fp, 2, 4)
		out = append(out, Scen{Kind: "pull", Stream: "exact", Seed: uint64(9300 + k), Regime: 1 + 3*(k%2), Opts: chaingen.GenOpts{Shape: shape, TxPerBlock: 1}, Tips: []int{tx, ty}, Batch: 100, Bound: fmt.Sprintf("fork-point-height-%d(allow3,require8)", fp)})
	}
	for k, b := range []uint64{1, 2, 3} {
		shape, _, tx, ty := forkShape(5, 1, 6)
		out = append(out, Scen{Kind: "pull", Stream: "exact", Seed: uint64(9320 + k), Regime: 1, Opts: chaingen.GenOpts{Shape: shape}, Tips: []int{tx, ty}, Batch: b, Bound: "request-base-lands-on-require-height"})
	}
	for k, l := range []int{10, 11, 15, 16} {
		shape, _, tx, ty := forkShape(8, l, l+2)
		out = append(out, Scen{Kind: "pull", Stream: "exact", Seed: uint64(9340 + k), Regime: []int{2, 0}[k%2], Opts: chaingen.GenOpts{Shape: shape}, Tips: []int{tx, ty}, Bound: fmt.Sprintf("own-fork-%d-blocks", l)})
	}
	return out
}
