package main

// Model tie by regeneration (harness/internal/gotr): the closure histHeight of
// chain.Manager.History (chain/manager.go) is translated from the current source on
// every run into run/C12/C12Gen.v and compared inside Coq with the hand-written
// hist_offset / hist_entry of coq/Net/Converge.v (which C12_attach_point_is_common_ancestor
// is proved about): all 32 history positions x tip heights 0..200 and a few huge ones.
// The hand-written statements are idiomatic N (2 ^ (i - 8), N.min), so the comparison is
// by evaluation on that domain, not textual; in addition Coq proves on this run that the two
// agree for all i < 32 and all tip heights < 2^64 (a script that no longer goes through after
// a refactoring is a note, never an alarm). A source outside the translated subset gives
// a note in the evidence; a difference gives a correspondence mismatch of the file
// gotr_C12_hist_height_gen.v.
//
// This file and the single call in run() are the whole addition to this command.

import (
	"verif/harness/internal/gotr"
	"verif/harness/internal/hx"
)

func tieHistoryToSource(c *hx.Ctx) {
	if err := gotr.SelfCheck(); err != nil {
		c.Res.Notes = append(c.Res.Notes, "go/ast translator (gotr): "+err.Error()+"; nothing is regenerated on this run")
		return
	}
	tie := gotr.NewTie("C12", c.Res, c.Repo, "Net.Converge")
	d := tie.Func("chain/manager.go", "Manager.History/histHeight", "hist_height_gen", []gotr.Param{{Name: "tipHeight", Type: gotr.U64}})
	tips := append(gotr.Range(0, 200), 1<<23+6, 1<<23+7, 1<<23+8, 1<<32, 1<<63, ^uint64(0))
	// Go returns the height tipHeight - min(offset, tipHeight); the model indexes the tip-first
	// best chain at position min(hist_offset i, tip_height)
	tie.Compare(d, "tipHeight - N.min (hist_offset i) tipHeight", "hist_offset / hist_entry (Net/Converge.v)", gotr.Grid(gotr.Range(0, 31), tips))
	// and, for all 32 positions and every uint64 tip height, by a proof checked on this run
	tie.Prove(d, "i < 32 -> tipHeight < 2 ^ 64 -> hist_height_gen i tipHeight = tipHeight - N.min (hist_offset i) tipHeight", `  intros i tipHeight Hi Ht. unfold hist_height_gen, hist_offset. cbv zeta.
  rewrite N.shiftl_mul_pow2, N.mul_1_l.
  assert (Hp : 2 ^ (i - 8) <= 2 ^ 23) by (apply N.pow_le_mono_r; lia).
  assert (Hp1 : 1 <= 2 ^ (i - 8)) by (pose proof (N.pow_nonzero 2 (i - 8)); lia).
  change (2 ^ 23) with 8388608 in Hp. change (2 ^ 64) with 18446744073709551616 in *.
  generalize dependent (2 ^ (i - 8)). intros X Hp Hp1.
  rewrite (N.mod_small i), (N.mod_small X), (N.mod_small (7 + X)) by lia.
  split_ifs; lia.`)
	tie.Finish()
}
