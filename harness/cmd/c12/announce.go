package main

// Announcement scenarios: every link is established and every node is synced on
// a common tip BEFORE a new tip exists. Then a node "mines" the next block of
// the tree (adds it to its manager) and announces it exactly ONCE — by outline
// for a v2 block (optionally the compact form whose transactions are hashes
// only, built against the miner's pool), by header for a v1 block. No further
// announcements, no re-connections: every node must reach the new tip within
// the deadline through the syncers' own relaying.
//
// Topologies with hubs (stars with 3-4 leaves, small trees) need a relay to
// reach ALL neighbours; overlap-regime blocks that mix v1 and v2 transactions
// need the announcer to serve both kinds of missing transactions.

import (
	"fmt"
	"time"

	"go.sia.tech/core/gateway"
	"go.sia.tech/core/types"
	"verif/harness/internal/chaingen"
	"verif/harness/internal/netsim"
)

func runAnnounce(s Scen) (res result) {
	start := time.Now()
	t := s.tree()
	n := len(s.Tips)
	nodes := make([]*netsim.Node, n)
	defer func() {
		for _, nd := range nodes {
			if nd != nil {
				nd.Close()
			}
		}
	}()
	for i := 0; i < n; i++ {
		store, cm := netsim.NewChain(t.Env, t, t.Nodes[s.Tips[i]])
		nd, err := netsim.Start(fmt.Sprintf("n%d", i), netsim.IPFor(s.Slot, i), t.Env, store, cm, netsim.Options{Opts: nodeOpts(s), UID: uidFor(s.Seed, i)})
		if err != nil {
			res.fail = &failure{"c12-harness", "cannot start node: " + err.Error()}
			return
		}
		nodes[i] = nd
	}
	if !s.Honour {
		for _, nd := range nodes {
			for _, o := range nodes {
				nd.PS.Trusted[o.IP] = true
			}
		}
	}
	for _, e := range s.Edges {
		if err := nodes[e[0]].Connect(nodes[e[1]]); err != nil {
			res.fail = &failure{"c12-harness", fmt.Sprintf("connect %d->%d: %v", e[0], e[1], err)}
			return
		}
		a, b := nodes[e[0]], nodes[e[1]]
		if !netsim.WaitUntil(10*time.Second, func() bool { return a.PeerSynced(b.IP) && b.PeerSynced(a.IP) }) {
			res.fail = &failure{"c12-harness", fmt.Sprintf("link %d-%d did not settle before mining", e[0], e[1])}
			return
		}
	}
	tipsNow := func() []int {
		out := make([]int, n)
		for i, nd := range nodes {
			out[i] = -1
			if x, ok := t.ByID[nd.CM.Tip().ID]; ok {
				out[i] = x.Idx
			}
		}
		return out
	}
	bansOfHonest := func() string {
		for i, nd := range nodes {
			for _, b := range nd.PS.Bans() {
				return fmt.Sprintf("node %d banned %s: %s", i, b.Addr, b.Reason)
			}
		}
		return ""
	}
	for _, st := range s.Steps {
		miner, blk := nodes[st[0]], t.Nodes[st[1]]
		res.expected = blk.Idx
		b := chaingen.DeepCopyBlock(blk.Block)
		if err := miner.Rec.AddBlocks([]types.Block{b}); err != nil || miner.CM.Tip().ID != blk.ID {
			res.fail = &failure{"c12-harness", fmt.Sprintf("the miner could not add block %d: %v", blk.Idx, err)}
			return
		}
		how := "header"
		if b.V2 != nil {
			how = "outline"
			var pool []types.Transaction
			var pool2 []types.V2Transaction
			if s.Compact {
				how = "compact outline"
				pool, pool2 = b.Transactions, b.V2Transactions()
			}
			miner.S.BroadcastV2BlockOutline(gateway.OutlineBlock(b, pool, pool2))
		} else {
			miner.S.BroadcastV2Header(b.Header())
		}
		ok := netsim.WaitUntil(15*time.Second, func() bool {
			for _, nd := range nodes {
				if nd.CM.Tip().ID != blk.ID {
					return false
				}
			}
			return true
		})
		res.final = tipsNow()
		if ban := bansOfHonest(); ban != "" {
			res.fail = &failure{"c12-honest-peer-banned", fmt.Sprintf("%s (after node %d announced block %d, v1 txns %d, v2 txns %d, by %s)", ban, st[0], blk.Idx, len(b.Transactions), len(b.V2Transactions()), how)}
			return
		}
		if !ok {
			res.fail = &failure{"c12-announced-tip-not-propagated", fmt.Sprintf("all links were up and every node was synced on the previous tip; node %d added block %d and announced it once by %s: after 15 s the tips are %v (edges %v, regime %s)", st[0], blk.Idx, how, res.final, s.Edges, chaingen.RegimeNames[s.Regime])}
			return
		}
	}
	res.final = tipsNow()
	res.elapsed = time.Since(start)
	for i, nd := range nodes {
		if ps := nd.Panics(); len(ps) > 0 {
			res.fail = &failure{"c12-handler-panic", fmt.Sprintf("node %d recovered a panic in an RPC handler: %s", i, ps[0])}
			return
		}
		if k, d := netsim.AuditNode("c12", t, t.Nodes[s.Tips[i]], nd); k != "" {
			res.fail = &failure{k, fmt.Sprintf("node %d: %s", i, d)}
			return
		}
		if k, d := auditReads(t, nd.Rec.Log()); k != "" {
			res.fail = &failure{k, fmt.Sprintf("node %d: %s", i, d)}
			return
		}
		if k, d := netsim.AuditTips("c12", t, t.Nodes[s.Tips[i]], nd.Tips()); k != "" {
			res.fail = &failure{k, fmt.Sprintf("node %d: %s", i, d)}
			return
		}
		res.reorgs += len(nd.Tips())
	}
	res.coq, res.events = coqEvents(t, s, nodes, res.final)
	return
}

// announceScens: the corpus of announcement scenarios.
func announceScens(thorough bool) []Scen {
	var out []Scen
	lin := func(n int) []int {
		sh := make([]int, n)
		for k := range sh {
			sh[k] = k
		}
		return sh
	}
	star := func(leaves int) [][2]int {
		var es [][2]int
		for k := 1; k <= leaves; k++ {
			if k%2 == 0 {
				es = append(es, [2]int{k, 0})
			} else {
				es = append(es, [2]int{0, k})
			}
		}
		return es
	}
	same := func(n, tip int) []int {
		ts := make([]int, n)
		for k := range ts {
			ts[k] = tip
		}
		return ts
	}
	// hubs: stars with 3 and 4 leaves, a small tree; two new tips, mined at a leaf and then at another node
	k := 0
	for _, regime := range []int{0, 2, 1} {
		for _, topo := range []struct {
			n     int
			edges [][2]int
			steps [][2]int
		}{
			{4, star(3), [][2]int{{1, 5}, {0, 6}}},
			{5, star(4), [][2]int{{2, 5}, {4, 6}}},
			{5, [][2]int{{0, 1}, {1, 2}, {3, 1}, {3, 4}}, [][2]int{{4, 5}, {2, 6}}},
		} {
			k++
			if !thorough && (k+regime)%3 == 0 {
				continue
			}
			out = append(out, Scen{Kind: "announce", Stream: "exact", Seed: uint64(8800 + k), Regime: regime,
				Opts: chaingen.GenOpts{Shape: lin(6), TxPerBlock: 1}, Tips: same(topo.n, 4), Edges: topo.edges, Steps: topo.steps, Batch: 100})
		}
	}
	// overlap regime: v2 blocks between the allow and the require height that carry v1 and v2 transactions,
	// announced by a compact outline (all transactions missing from the receiver's pool); peer stores honour bans
	for i, regime := range []int{1, 4, 1} {
		if i == 2 && !thorough {
			break
		}
		out = append(out, Scen{Kind: "announce", Stream: "exact", Seed: uint64(8900 + i), Regime: regime, Compact: true, Honour: true,
			Opts: chaingen.GenOpts{Shape: lin(7), TxPerBlock: 3, Kinds: []string{"v1-transfer", "v2-transfer", "v1-transfer", "v1-siafund"}},
			Tips: same(2+i%2, 3), Edges: [][2]int{{0, 1}, {1, 2}}[:1+i%2], Steps: [][2]int{{0, 4}, {1, 5}, {0, 6}, {1, 7}}, Batch: 100})
	}
	return out
}
