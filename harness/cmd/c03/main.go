// Command c03 checks C03 (every durable commit point reopens to a consistent
// chain and catches up) on the real chain.DBStore / chain.Manager: histories
// over generated fork trees run on a manager whose store calls the real
// DBStore.Flush() after the block steps a schedule selects (exactly what the
// size/time threshold of shouldFlush does when it fires), over a database that
// deep-copies its committed image at every Flush. Every image is reopened
// (NewDBStore + NewManager on a copy), audited against the tree's labels and
// the linear twin of its tip, and then fed the whole history again; the final
// tip must be the uninterrupted run's. The runs are rendered as cases for the
// Coq crash model (coq/Chain/Crash.v) and, from the reopened state, for the
// manager model (coq/Chain/Manager.v).
package main

import (
	"bytes"
	"encoding/json"
	"fmt"
	"os"
	"path/filepath"
	"reflect"
	"strings"
	"sync"
	"time"

	"go.etcd.io/bbolt"
	"go.sia.tech/core/types"
	"go.sia.tech/coreutils"
	"go.sia.tech/coreutils/chain"
	"verif/harness/internal/chaingen"
	"verif/harness/internal/hx"
	"verif/harness/internal/mgrsim"
	"verif/harness/internal/rng"
	"verif/harness/internal/storeobs"
)

func main() { hx.Main("C03", run) }

// A Case determines a tree, a plan and a flush schedule.
type Case struct {
	Seed   uint64           `json:"seed"`
	Regime int              `json:"regime"`
	Opts   chaingen.GenOpts `json:"opts"`
	Plan   []mgrsim.Op      `json:"plan"`
	// Sched: "all" (the threshold fires after every block step), "none", or one character
	// per block step after opening ('1' = fires)
	Sched string `json:"sched"`
	Bolt  bool   `json:"bolt,omitempty"` // run the node on a BoltChainDB
	// Cache: the store runs on chain.NewCacheDB(database); the images are the commits of the
	// database underneath the cache
	Cache bool `json:"cache,omitempty"`
	// Directed: a hand-built tree instead of a generated one
	Directed string `json:"directed,omitempty"`
	// Quiet: the harness reads nothing of the running store between the steps (no view, no
	// probe); only the committed images are looked at
	Quiet bool `json:"quiet,omitempty"`
	// Net: network parameters other than the regime's
	Net *storeobs.NetParams `json:"net,omitempty"`
	// CrashAtWrite > 0: live variant stopping inside a step, at the n-th Put/Delete that reaches the database
	CrashAtWrite int `json:"crash_at_write,omitempty"`
	// CrashAt > 0: the live variant — the node stops after block step CrashAt, the database
	// discards its uncommitted window and is itself reopened
	CrashAt int `json:"crash_at,omitempty"`
	// NaturalAt > 0: before the store performs block step NaturalAt the harness waits until
	// the 5 s threshold of shouldFlush has passed, so that the store's own flush test fires
	// at its real position inside ApplyBlock / RevertBlock
	NaturalAt int `json:"natural_at,omitempty"`
}

// Tree regenerates the case's tree.
func (c Case) Tree() *chaingen.Tree {
	r := rng.New(c.Seed)
	env := chaingen.NewEnv(r, c.Regime)
	c.Net.Apply(env)
	if c.Directed == "shared-expiration-list" {
		s := chaingen.NewScript(r, env)
		b1 := s.Extend(s.T.Nodes[0], func(b *chaingen.Builder) {
			for i := 0; i < 3; i++ {
				b.AddV1Form(r, 3, 6)
			}
		})
		ids := chaingen.ContractsOf(b1.Block)
		b2 := s.Extend(b1, nil)
		b3 := s.Extend(b2, func(b *chaingen.Builder) {
			if len(ids) > 0 {
				b.AddV1ProofOf(ids[0])
			}
		})
		b4 := s.Extend(b3, func(b *chaingen.Builder) {
			if len(ids) > 1 {
				b.AddV1ReviseOf(ids[1], 7)
			}
		})
		s.Extend(s.Extend(b4, nil), nil)
		return s.T
	}
	return chaingen.Gen(r, env, c.Opts)
}

func (c Case) fires(step int) bool {
	switch c.Sched {
	case "all":
		return true
	case "none", "":
		return false
	}
	i := step - 1 // step 0 is the opening
	return i >= 0 && i < len(c.Sched) && c.Sched[i] == '1'
}

// kindAlias: data of the database changed although nothing was committed (a store step may
// only write through Put/Delete of the open batch).
const kindAlias = "c03-committed-data-modified-outside-a-commit"

type failure struct {
	kind, detail string
	image        int
}

type outcome struct {
	nd                *storeobs.Node
	rec               *storeobs.RecDB
	fail              *failure
	images            int
	audited           int
	skipped           int
	midReorg          int // images committed inside a multi-step reorg
	unsep             int
	bestChainCatchUps int
	steps             int
	reverts           int
	coq               string
	finalTip          int

	naturalFired  bool
	boundsChecked int
	openWrites    int       // writes that reached the database while the store was opened
	known         []failure // known-finding observations (the history goes on)
	knownStream   int
}

func encState(n *chaingen.Node) []byte { return mgrsim.EncState(n.FullState) }

// separated reports whether tip is sufficiently heavier than every other block with a valid chain.
func separated(t *chaingen.Tree, tip *chaingen.Node) bool {
	for _, x := range t.Nodes {
		if x != tip && x.ChainValid() && !mgrsim.Heavier(tip, x) {
			return false
		}
	}
	return true
}

var boltDir string

func newBackend(cs Case) (chain.DB, func()) {
	if !cs.Bolt {
		return chain.NewMemDB(), func() {}
	}
	if boltDir == "" {
		boltDir, _ = os.MkdirTemp("", "vh-c03-bolt-")
	}
	path := filepath.Join(boltDir, fmt.Sprintf("%d-%s.db", cs.Seed, cs.Sched))
	os.Remove(path)
	bdb, err := bbolt.Open(path, 0600, &bbolt.Options{NoSync: true, NoFreelistSync: true})
	if err != nil {
		panic(err)
	}
	db := coreutils.NewBoltChainDB(bdb)
	return db, func() { db.Close(); os.Remove(path) }
}

// twinsOf caches the linear twins per tree (they are expensive and shared by all runs over a tree).
var twinCache = map[*chaingen.Tree]*storeobs.Twins{}
var twinMu sync.Mutex

func twinsOf(t *chaingen.Tree) *storeobs.Twins {
	twinMu.Lock()
	defer twinMu.Unlock()
	if tw, ok := twinCache[t]; ok {
		return tw
	}
	if len(twinCache) > 4 {
		twinCache = map[*chaingen.Tree]*storeobs.Twins{}
	}
	tw := storeobs.NewTwins(t)
	twinCache[t] = tw
	return tw
}

// naturalWait is how long the harness idles before one block step so that the store's own
// time-based flush test may fire inside it: the interval the store reports (a method
// FlushThresholds returning a time.Duration, should the implementation expose one) plus a
// margin, else a little over today's 5 s; never more than 12 s. Nothing depends on the store
// actually committing then.
func naturalWait(store any) time.Duration {
	wait := 5100 * time.Millisecond
	if m := reflect.ValueOf(store).MethodByName("FlushThresholds"); m.IsValid() && m.Type().NumIn() == 0 {
		for _, out := range m.Call(nil) {
			if d, ok := out.Interface().(time.Duration); ok && d > 0 {
				wait = d + 100*time.Millisecond
			}
		}
	}
	return min(wait, 12*time.Second)
}

func runCase(t *chaingen.Tree, cs Case, wantCoq bool) (o outcome) {
	backend, closeDB := newBackend(cs)
	defer closeDB()
	rec := storeobs.NewRecDB(backend)
	var nd *storeobs.Node
	rec.StepNow = func() int {
		switch {
		case nd == nil:
			return 0
		case nd.Rec.Pending != nil:
			return len(nd.Steps)
		}
		return len(nd.Steps) - 1
	}
	var err error
	var db chain.DB = rec
	if cs.Cache {
		db = chain.NewCacheDB(rec)
	}
	nd, err = storeobs.NewNodeOpt(t, db, nil, cs.Quiet)
	if err != nil {
		o.fail = &failure{"c03-store-does-not-open", err.Error(), -1}
		return
	}
	o.nd, o.rec = nd, rec
	o.openWrites = rec.Writes
	natural := 0
	if cs.NaturalAt > 0 {
		nd.Rec.Before = func(bool) {
			if len(nd.Steps) == cs.NaturalAt {
				// give the store's own time threshold a chance to fire inside this step. When it fires is
				// not part of the property: if the store exposes its interval use it, otherwise wait a
				// little over the 5 s it has today; whatever commit then happens (or not) is what is audited
				time.Sleep(naturalWait(nd.Inner))
				natural = len(rec.Images)
			}
		}
	}
	defer func() {
		if cs.NaturalAt > 0 && o.nd != nil && o.fail == nil {
			// the store's own test must have committed during that step
			found := false
			for _, im := range rec.Images[min(natural, len(rec.Images)):] {
				if im.Step == cs.NaturalAt {
					found = true
				}
			}
			if found {
				o.naturalFired = true
			}
		}
	}()
	nd.OnStep = func(st *storeobs.StepRec) {
		rec.CheckHandedOut()
		if cs.fires(len(nd.Steps) - 1) {
			if err := nd.Inner.Flush(); err != nil {
				panic(err)
			}
		}
	}
	plain := storeobs.PlainOps(cs.Plan)
	for _, op := range cs.Plan {
		obs := storeobs.DoOp(nd, op)
		rec.CheckHandedOut()
		if rec.AliasErr != "" {
			o.fail = &failure{kindAlias, fmt.Sprintf("during %v (block step %d): %s", op, len(nd.Steps)-1, rec.AliasErr), -1}
			return
		}
		if obs.Panic {
			o.fail = &failure{"c03-manager-call-panics", fmt.Sprintf("%v panicked: %s", op, obs.ErrText), -1}
			return
		}
	}
	o.steps = len(nd.Steps)
	final, ok := t.ByID[nd.Sim.CM.Tip().ID]
	if !ok {
		o.fail = &failure{"c03-unknown-final-tip", "the uninterrupted run ended on a block the generator does not know", -1}
		return
	}
	o.finalTip = final.Idx
	tw := twinsOf(t)
	_, stats := storeobs.Judge(nd, tw)
	o.reverts = stats.Reverts
	R := t.Env.Net.HardforkV2.RequireHeight
	sep := separated(t, final)
	// which steps lie strictly inside a manager call's reorg (not the last step of the call)
	inside := func(step int) bool {
		return step+1 < len(nd.Steps) && nd.Steps[step+1].Call == nd.Steps[step].Call && step > 0
	}
	o.images = len(rec.Images)
	type reopened struct {
		known []mgrsim.KnownEntry
		best  []int
		hist  []mgrsim.Obs
	}
	var dumps []string
	var mcases []string
	var bounds []string
	boundsOK := cs.Sched == "all" && cs.NaturalAt == 0 && !stats.Trigger
	seenStep := map[int]bool{}
	fail := func(k int, kind, format string, a ...any) {
		if o.fail == nil {
			o.fail = &failure{kind, fmt.Sprintf(format, a...), k}
		}
	}
	blockName := func(id types.BlockID) uint64 {
		if x, ok := t.ByID[id]; ok {
			return uint64(x.Idx)
		}
		return 999999
	}
	for k, im := range rec.Images {
		if im.Step >= len(nd.Steps) {
			fail(k, "c03-commit-outside-a-step", "image %d was committed during step %d, which never completed", k, im.Step)
			break
		}
		st := nd.Steps[im.Step]
		// 1. reopen
		db1 := im.Open()
		var store *chain.DBStore
		var tipIdx = -1
		tipStateOK := true
		func() {
			defer func() {
				if r := recover(); r != nil {
					fail(k, "c03-image-reopen-panics", "NewDBStore on the image committed after step %d panicked: %v", im.Step, r)
				}
			}()
			s, ts, err := chain.NewDBStore(db1, t.Env.Net, t.Env.Genesis, nil)
			if err != nil {
				fail(k, "c03-image-does-not-reopen", "NewDBStore on the image committed after step %d: %v", im.Step, err)
				return
			}
			store = s
			chain.NewManager(s, ts)
			if x, ok := t.ByID[ts.Index.ID]; ok {
				tipIdx = x.Idx
				if _, bs, ok := s.Block(ts.Index.ID); !ok || bs == nil {
					tipIdx = -1
					fail(k, "c03-image-tip-block-incomplete", "the image committed after step %d reopens to tip %d whose body or supplement is not in the image", im.Step, x.Idx)
				}
				tipStateOK = bytes.Equal(mgrsim.EncState(ts), encState(x))
			}
		}()
		if store == nil {
			break
		}
		view := storeobs.TakeView(db1, store, nd.MaxH)
		if wantCoq {
			// the dump of the image in the vocabulary of the store model
			pst := &storeobs.StepRec{View: view}
			pst.Probe(store, nd.Names)
			tipS := "None"
			if tipIdx >= 0 {
				tipS = fmt.Sprintf("(Some %d)", tipIdx)
			}
			dumps = append(dumps, "("+nd.Names.CoqDump(pst, blockName, k%3 == 0 || k+1 == len(rec.Images))+", "+tipS+")")
		}
		if o.fail != nil {
			break
		}
		// the images after the expiry-order trigger differ from the twin by design (C02's known finding)
		if stats.TriggerStep >= 0 && im.Step >= stats.TriggerStep {
			o.skipped++
			continue
		}
		o.audited++
		if inside(im.Step) {
			o.midReorg++
		}
		if !tipStateOK {
			fail(k, "c03-image-tip-state-differs", "the image committed after step %d reopens to tip %d with a state that is not the linear replay of its chain", im.Step, tipIdx)
			break
		}
		// 2. a tip the node had at that block boundary
		if st.Tip < 0 || tipIdx != st.Tip {
			had := false
			for _, s2 := range nd.Steps {
				if s2.Tip == tipIdx {
					had = true
				}
			}
			fail(k, "c03-image-tip-not-the-boundary-tip", "the image committed after step %d (store tip %d at that boundary) reopens to tip %d (a tip the node had at some boundary: %v)", im.Step, st.Tip, tipIdx, had)
			break
		}
		tip := t.Nodes[st.Tip]
		// 3. C01 audit: the best chain is the path of the tip
		path := t.Path(tip)
		for h := uint64(0); h < uint64(len(view.Best)); h++ {
			want := "-"
			if h == 0 {
				want = t.Nodes[0].ID.String()
			} else if int(h) <= len(path) {
				want = path[h-1].ID.String()
			}
			if view.Best[h] != want {
				fail(k, "c03-image-best-chain-broken", "the image committed after step %d: BestIndex(%d) = %s, the chain of tip %d has %s there", im.Step, h, view.Best[h], tip.Idx, want)
			}
		}
		// 4. C02 audit: everything served equals the linear twin of that tip
		lin, err := tw.Get(nil, tip)
		if err != nil {
			fail(k, "c03-twin-failed", "%v", err)
			break
		}
		if f, _ := storeobs.CompareWithTwin(view, lin, false, nil); f != nil {
			fail(k, "c03-image-"+strings.TrimPrefix(f.Kind, "c02-"), "the image committed after step %d (%s of block %d, tip %d) is not consistent with the chain of its tip: %s", im.Step, stepName(st), st.Node, tip.Idx, f.Detail)
		}
		if f, _ := storeobs.CheckProofs(view, lin, R); f != nil {
			fail(k, "c03-image-"+strings.TrimPrefix(f.Kind, "c02-"), "the image committed after step %d: %s", im.Step, f.Detail)
		}
		if o.fail != nil {
			break
		}
		// 5. catch-up: the reopened node is fed the whole history again
		var db2 chain.DB = im.Open()
		if cs.Cache {
			db2 = chain.NewCacheDB(db2) // the audit above read the image directly; catch up through a fresh cache
		}
		nd2, err := storeobs.NewNodeFromImage(t, db2, nd.Steps[:im.Step+1], nd.Names)
		if err != nil {
			fail(k, "c03-image-does-not-reopen", "second reopen: %v", err)
			break
		}
		sim := nd2.Sim
		var ro reopened
		var first mgrsim.Obs
		sim.Observe(&first)
		ro.known, ro.best = first.Known, first.Best
		if boundsOK && !seenStep[im.Step] {
			seenStep[im.Step] = true
			var ks, best []string
			for _, e := range ro.known {
				ks = append(ks, fmt.Sprintf("(%d, (%d, %v, %v))", e.ID, e.State, e.Body, e.Supp))
			}
			for _, b := range ro.best {
				if b < 0 {
					b = 999999
				}
				best = append(best, fmt.Sprint(b))
			}
			bounds = append(bounds, fmt.Sprintf("([%s], [%s])", strings.Join(ks, "; "), strings.Join(best, "; ")))
		}
		for _, op := range plain {
			obs := nd2.DoObserved(op)
			ro.hist = append(ro.hist, obs)
			if obs.Panic {
				fail(k, "c03-catch-up-panics", "re-submitting %v to the node reopened from the image after step %d panicked: %s", op, im.Step, obs.ErrText)
				break
			}
		}
		if o.fail != nil {
			break
		}
		// the catch-up run is a history of its own: judge its store like C02 does. It may contain
		// reorgs the uninterrupted run never made, and with them the expiry-order finding.
		if f, _ := storeobs.Judge(nd2, tw); f != nil {
			if f.Kind == storeobs.KindF8 {
				o.known = append(o.known, failure{"c03-catch-up-expiry-order-history-dependent", fmt.Sprintf("while catching up from the image after step %d the reopened node reverted a block that resolves or re-windows a contract sharing its window end: %s", im.Step, f.Detail), k})
				o.knownStream++
				continue
			}
			fail(k, "c03-catch-up-"+strings.TrimPrefix(f.Kind, "c02-"), "while catching up from the image after step %d: %s", im.Step, f.Detail)
			break
		}
		end, ok := t.ByID[sim.CM.Tip().ID]
		switch {
		case !ok:
			fail(k, "c03-catch-up-ends-elsewhere", "the node reopened from the image after step %d ends on an unknown block", im.Step)
		case end != final && mgrsim.Heavier(final, end):
			// whatever else the tree holds: the history contains the batch that took the uninterrupted
			// node to its final tip, and a manager whose tip is sufficiently lighter than the end of a
			// batch it is handed reorganises to it, whether or not it has stored those blocks before
			fail(k, "c03-catch-up-stays-behind", "the node reopened from the image after step %d (tip %d) and fed the whole history again ends on block %d, which is sufficiently lighter than block %d, the tip of the uninterrupted run, although the history contains the call that took the uninterrupted node there", im.Step, tip.Idx, end.Idx, final.Idx)
		case end != final && !sep:
			o.unsep++
		case end != final:
			fail(k, "c03-catch-up-ends-elsewhere", "the node reopened from the image after step %d (tip %d) and fed the whole history again ends on block %d; the uninterrupted run ends on %d, which is sufficiently heavier than every other valid chain", im.Step, tip.Idx, end.Idx, final.Idx)
		case !bytes.Equal(mgrsim.EncState(sim.CM.TipState()), encState(final)):
			fail(k, "c03-catch-up-state-differs", "the node reopened from the image after step %d reaches the final tip %d with a different state", im.Step, final.Idx)
		}
		// 5b. catch-up from a peer that is on the chain the uninterrupted node had when the call
		// during which this image was committed was over: every block of that chain was stored
		// before the image was committed (AddBlocks stores its batch before it reorganises), so
		// the reopened node is handed known blocks only; a tip that is sufficiently lighter must
		// be given up for that chain all the same
		if j := im.Step; o.fail == nil && j < len(nd.Steps) {
			for j+1 < len(nd.Steps) && nd.Steps[j+1].Call == nd.Steps[im.Step].Call {
				j++
			}
			if nd.Steps[j].Tip >= 0 {
				target := t.Nodes[nd.Steps[j].Tip]
				if target != tip && mgrsim.Heavier(target, tip) {
					var db3 chain.DB = im.Open()
					if nd3, err := storeobs.NewNodeFromImage(t, db3, nd.Steps[:im.Step+1], nd.Names); err == nil {
						var ids []int
						for _, y := range t.Path(target) {
							ids = append(ids, y.Idx)
						}
						op := mgrsim.Op{Kind: "add", Nodes: ids}
						obs := nd3.DoObserved(op)
						o.bestChainCatchUps++
						if end3, ok := t.ByID[nd3.Sim.CM.Tip().ID]; obs.Panic {
							fail(k, "c03-catch-up-panics", "handing the chain %v to the node reopened from the image after step %d panicked: %s", op, im.Step, obs.ErrText)
						} else if !ok || end3 != target {
							if f, _ := storeobs.Judge(nd3, tw); f != nil && f.Kind == storeobs.KindF8 {
								o.knownStream++
							} else {
								e := -1
								if ok {
									e = end3.Idx
								}
								fail(k, "c03-catch-up-stays-behind", "the node reopened from the image after step %d (tip %d) was handed, in one call, the blocks of the chain the uninterrupted node was on after that call (tip %d, sufficiently heavier; all of them stored before the image was committed) and ends on block %d (the call returned an error: %v %s)", im.Step, tip.Idx, target.Idx, e, obs.Err, obs.ErrText)
							}
						}
					}
				}
			}
		}
		if wantCoq && !stats.Trigger && len(ro.hist) == len(plain) && (k < 1 || k+1 == len(rec.Images) || inside(im.Step) && len(mcases) < 2) {
			var hs []string
			for i := range plain {
				hs = append(hs, "("+qualify(mgrsim.CoqOp(t, plain[i]))+", "+qualify(mgrsim.CoqObs(ro.hist[i]))+")")
			}
			var ks []string
			for _, e := range ro.known {
				ks = append(ks, fmt.Sprintf("(%d, (%d, %v, %v))", e.ID, e.State, e.Body, e.Supp))
			}
			var best []string
			for _, b := range ro.best {
				if b < 0 {
					b = 999999
				}
				best = append(best, fmt.Sprint(b))
			}
			mcases = append(mcases, fmt.Sprintf("mk_mcase %s\n   [%s]\n   [%s]\n   [%s]", qualify(mgrsim.CoqUniverse(t)), strings.Join(ks, "; "), strings.Join(best, "; "), strings.Join(hs, ";\n    ")))
		}
		if o.fail != nil {
			break
		}
	}
	if wantCoq && o.fail == nil {
		// the boundaries check needs every step's image (none skipped, none judged a known finding)
		if !boundsOK || len(o.known) > 0 || o.skipped > 0 || len(bounds) != len(nd.Steps) {
			bounds = nil
		}
		var ops []string
		if bounds != nil {
			for _, op := range plain {
				ops = append(ops, qualify(mgrsim.CoqOp(t, op)))
			}
		}
		univ := "[]"
		if bounds != nil {
			univ = qualify(mgrsim.CoqUniverse(t))
		}
		if cc := coqCase(nd, rec, dumps, mcases); cc != "" {
			o.coq = cc + fmt.Sprintf("\n %s\n [%s]\n [%s]", univ, strings.Join(ops, "; "), strings.Join(bounds, ";\n  "))
		}
		if bounds != nil {
			o.boundsChecked = len(bounds)
		}
	}
	return
}

func stepName(s *storeobs.StepRec) string {
	if s.Apply {
		return "ApplyBlock"
	}
	return "RevertBlock"
}

// qualify makes the manager-model constructors explicit (Chain.Store has a Blk too).
func qualify(s string) string {
	r := strings.NewReplacer("Blk ", "Manager.Blk ", "mk_obs ", "Run_C01.mk_obs ", "AddBlocks ", "Manager.AddBlocks ", "AddValidated ", "Manager.AddValidated ", "Prune ", "Manager.Prune ")
	return r.Replace(s)
}

func coqCase(nd *storeobs.Node, rec *storeobs.RecDB, dumps, mcases []string) string {
	for _, st := range nd.Steps {
		if st.Node < 0 {
			return ""
		}
	}
	n := nd.Names
	blocks := map[int]storeobs.Diffs{}
	var order []int
	for _, st := range nd.Steps {
		if st.Apply {
			if _, ok := blocks[st.Node]; !ok {
				blocks[st.Node] = st.Diffs
				order = append(order, st.Node)
			}
		}
	}
	var bl []string
	for _, idx := range order {
		bl = append(bl, fmt.Sprintf("(%d, (%d, %s))", idx, nd.T.Nodes[idx].Height, blocks[idx].Coq(n)))
	}
	perStep := map[int]int{}
	for _, im := range rec.Images {
		perStep[im.Step]++
	}
	var evs []string
	for i, st := range nd.Steps {
		c := "CRevert"
		if st.Apply {
			c = "CApply"
		}
		evs = append(evs, fmt.Sprintf("CStep (%s %d) %v", c, st.Node, perStep[i] > 0))
		for j := 1; j < perStep[i]; j++ {
			evs = append(evs, "CFlush")
		}
	}
	ids := func(xs []types.Hash256) string {
		s := make([]string, len(xs))
		for i, x := range xs {
			s[i] = fmt.Sprint(n.ID(x))
		}
		return "[" + strings.Join(s, "; ") + "]"
	}
	probe := fmt.Sprintf("(Probe %s %s %s)", ids(n.SC), ids(n.SF), ids(n.FC))
	return fmt.Sprintf("mk_case3 %d\n [%s]\n %s\n [%s]\n [%s]\n [%s]", nd.T.Env.Net.HardforkV2.RequireHeight,
		strings.Join(bl, ";\n  "), probe, strings.Join(evs, "; "), strings.Join(dumps, ";\n  "), strings.Join(mcases, ";\n  "))
}

func describe(t *chaingen.Tree) []string {
	var out []string
	for _, n := range t.Nodes {
		p := -1
		if n.Parent != nil {
			p = n.Parent.Idx
		}
		out = append(out, fmt.Sprintf("block %d parent %d height %d valid=%v corrupt=%q kinds=%v", n.Idx, p, n.Height, n.ChainValid(), n.Corrupt, n.Kinds))
	}
	return out
}

func describeSteps(nd *storeobs.Node, rec *storeobs.RecDB) []string {
	var out []string
	commits := map[int]int{}
	for _, im := range rec.Images {
		commits[im.Step]++
	}
	for i, s := range nd.Steps {
		out = append(out, fmt.Sprintf("step %d (call %d): %s block %d (height %d) -> tip %d; commits here: %d", i, s.Call, stepName(s), s.Node, s.Height, s.Tip, commits[i]))
	}
	return out
}

func shrink(t *chaingen.Tree, cs Case, kind string) Case {
	fails := func(c Case) bool {
		o := runCase(t, c, false)
		return o.fail != nil && o.fail.kind == kind
	}
	for changed := true; changed; {
		changed = false
		for i := range cs.Plan {
			c := cs
			c.Plan = append(append([]mgrsim.Op(nil), cs.Plan[:i]...), cs.Plan[i+1:]...)
			if fails(c) {
				cs, changed = c, true
				break
			}
		}
	}
	return cs
}

func run(c *hx.Ctx) {
	res := c.Res
	res.Shard = 12
	res.Rule = "fork trees of real mined blocks (6 hardfork regimes, every transaction kind, corrupted blocks so that reorgs fail half-way) x submission plans x flush schedules (the threshold fires after every block step / after a random subset / all 2^k subsets in the thorough tier); every committed image is reopened, audited and caught up; non-trivial := an image committed strictly inside a multi-block reorg was audited; distinct by (tree seed, plan, schedule)"
	defer func() {
		if boltDir != "" {
			os.RemoveAll(boltDir)
		}
	}()
	var cases []string
	doCase := func(cs Case, toCoq bool) {
		t := cs.Tree()
		o := runCase(t, cs, toCoq)
		js, _ := json.Marshal(cs)
		res.Eval(string(js), o.midReorg > 0)
		res.Count("regime:" + chaingen.RegimeNames[cs.Regime])
		if cs.Bolt {
			res.Count("backend:bolt")
		} else {
			res.Count("backend:memdb")
		}
		if cs.Cache {
			res.Count("store-on-a-CacheDB (images = commits of the database underneath)")
		}
		if cs.Quiet {
			res.Count("unobserved-runs (nothing of the running store is read between the steps)")
		}
		if cs.Net != nil {
			res.Count(fmt.Sprintf("network:allow=%d,require=%d,final-cut=%d,maturity=%d", t.Env.Net.HardforkV2.AllowHeight, t.Env.Net.HardforkV2.RequireHeight, t.Env.Net.HardforkV2.FinalCutHeight, t.Env.Net.MaturityDelay))
		}
		if cs.Opts.Remine > 0 {
			res.Count("trees-with-re-mined-and-same-block-chained-transactions")
		}
		for _, op := range cs.Plan {
			switch op.Kind {
			case "reopen":
				res.Count("clean-reopens-in-the-middle-of-a-history")
			case "adds":
				res.Count("calls-with-arguments-overwritten-after-the-call")
			case "addn":
				res.Count("calls-with-a-second-call-started-from-the-reorg-callback")
			}
		}
		if o.nd != nil {
			seen := map[int]bool{}
			for _, st := range o.nd.Steps {
				if st.Apply && st.Node >= 0 && !seen[st.Node] {
					seen[st.Node] = true
					for _, k := range t.Nodes[st.Node].Kinds {
						res.Count("applied-tx:" + k)
					}
				}
			}
		}
		switch cs.Sched {
		case "all", "none":
			res.Count("schedule:" + cs.Sched)
		default:
			res.Count("schedule:subset")
		}
		res.CountN("block-steps", o.steps)
		res.CountN("revert-steps", o.reverts)
		res.CountN("images-committed", o.images)
		res.CountN("images-audited-and-caught-up", o.audited)
		res.CountN("images-committed-inside-a-reorg", o.midReorg)
		res.CountN("images-skipped-after-expiry-order-trigger", o.skipped)
		res.CountN("catch-ups-ending-elsewhere-without-separation", o.unsep)
		res.CountN("catch-ups-handed-only-known-blocks-of-a-sufficiently-heavier-chain", o.bestChainCatchUps)
		res.CountN("catch-ups-in-the-expiry-order-finding-stream", o.knownStream)
		res.CountN("images-compared-with-the-manager-model's-block-boundaries", o.boundsChecked)
		if len(o.known) > 0 {
			kf := o.known[0]
			res.Fail(kf.kind, kf.detail, map[string]any{"case": cs, "tree": describe(t), "image": kf.image, "steps": describeSteps(o.nd, o.rec)})
		}
		if o.nd != nil && o.finalTip >= 0 && separated(t, t.Nodes[o.finalTip]) {
			res.Count("histories-with-separated-final-tip")
		}
		if f := o.fail; f != nil {
			small := shrink(t, cs, f.kind)
			o2 := runCase(t, small, false)
			if o2.fail == nil || o2.fail.kind != f.kind {
				o2, small = o, cs
			}
			rp := map[string]any{"case": small, "tree": describe(t), "image": o2.fail.image}
			if o2.nd != nil {
				rp["steps"] = describeSteps(o2.nd, o2.rec)
			}
			res.Fail(o2.fail.kind, o2.fail.detail, rp)
		}
		if o.coq != "" {
			cases = append(cases, o.coq)
		}
		// live crash points: stop after a block step, let the database discard its window, reopen it
		if o.fail == nil && o.nd != nil && o.steps > 1 {
			var points []int
			if cs.Directed != "" {
				for k := 1; k < o.steps; k++ {
					points = append(points, k)
				}
			} else if cs.Sched != "all" {
				pr := rng.New(cs.Seed ^ 0x11fe)
				points = []int{1 + pr.Intn(o.steps-1)}
				if c.Thorough {
					points = append(points, 1+pr.Intn(o.steps-1), 1+pr.Intn(o.steps-1))
				}
			}
			// and stops in the middle of a step (or of a cache flush): at the n-th Put/Delete that
			// reaches the database; negative entries of points are write numbers
			if w0, w1 := o.openWrites, o.rec.Writes; w1 > w0 {
				pr := rng.New(cs.Seed ^ 0x77e)
				nw := 1
				if cs.Directed != "" || c.Thorough {
					nw = 6
				}
				for j := 0; j < nw; j++ {
					points = append(points, -(w0 + 1 + pr.Intn(w1-w0)))
				}
			}
			for _, k := range points {
				lcs := cs
				if k < 0 {
					lcs.CrashAtWrite, k = -k, -1
				}
				lo := runLive(t, lcs, k, o.finalTip)
				if !lo.crashed && lo.fail == nil {
					continue
				}
				if lcs.CrashAtWrite > 0 {
					res.Count("live-crash-points-inside-a-step (at a Put/Delete reaching the database)")
				}
				res.Count("live-crash-points (database reopened after Cancel)")
				if lo.pending > 0 {
					res.Count("live-crash-points-with-an-uncommitted-window")
				}
				if lo.unsep {
					res.Count("catch-ups-ending-elsewhere-without-separation")
				}
				lcs.CrashAt = max(k, 0)
				if lo.known != nil {
					res.Fail(lo.known.kind, lo.known.detail, map[string]any{"case": lcs, "tree": describe(t)})
				}
				if lo.fail != nil {
					res.Fail(lo.fail.kind, lo.fail.detail, map[string]any{"case": lcs, "tree": describe(t), "steps": describeSteps(o.nd, o.rec)})
					break
				}
			}
		}
		if len(res.Samples) < 2 && o.nd != nil {
			var ops []string
			for _, op := range cs.Plan {
				ops = append(ops, op.String())
			}
			res.Sample(map[string]any{"regime": chaingen.RegimeNames[cs.Regime], "tree": describe(t), "plan": ops, "schedule": cs.Sched, "steps": describeSteps(o.nd, o.rec)})
		}
	}
	if c.Replay != "" {
		var rp struct {
			Replay struct {
				Case Case `json:"case"`
			} `json:"replay"`
		}
		b, _ := os.ReadFile(c.Replay)
		json.Unmarshal(b, &rp)
		doCase(rp.Replay.Case, true)
		res.WriteCases("Run.Run_C03", cases)
		return
	}
	// corpus first: minimised earlier findings (replay files)
	if files, _ := filepath.Glob("corpus/C03/*.json"); len(files) > 0 {
		for _, f := range files {
			var rp struct {
				Replay struct {
					Case Case `json:"case"`
				} `json:"replay"`
			}
			if b, err := os.ReadFile(f); err == nil && json.Unmarshal(b, &rp) == nil && len(rp.Replay.Case.Plan) > 0 {
				doCase(rp.Replay.Case, true)
				res.Count("corpus-cases")
			}
		}
	}
	// hand-built histories around a shared expiration list (every live crash point)
	for _, regime := range []int{0, 1, 3} {
		for _, sched := range []string{"none", "all", "0101010101"} {
			cs, _ := contractCase(regime, sched)
			cs.Cache = regime == 1
			doCase(cs, true)
		}
	}
	// the store's own threshold: a few histories in which the harness waits 5 s before one block
	// step (they sleep concurrently)
	type natRes struct {
		cs Case
		t  *chaingen.Tree
		o  outcome
	}
	nat := c.Scale(8, 48)
	natCh := make(chan natRes, nat)
	for i := 0; i < nat; i++ {
		r := c.R.Fork()
		cs := Case{Seed: r.U64(), Regime: i % 6, Opts: chaingen.GenOpts{Blocks: 5 + r.Intn(8), Branchiness: 2 + r.Intn(2), TxPerBlock: 1 + r.Intn(4), Jitter: r.Intn(4)}, Sched: "none"}
		t := cs.Tree()
		pr := rng.New(cs.Seed ^ 0x5bd1e995)
		cs.Plan = reorgPlan(pr, t)
		// choose the step: a revert step for every other case, if the history has one
		probe := runCase(t, cs, false)
		if probe.nd == nil || probe.steps < 2 {
			natCh <- natRes{cs: cs, t: t}
			continue
		}
		cs.NaturalAt = 1 + pr.Intn(probe.steps-1)
		if i%2 == 1 {
			for j, st := range probe.nd.Steps {
				if !st.Apply && j > 0 {
					cs.NaturalAt = j
					break
				}
			}
		}
		go func() { natCh <- natRes{cs: cs, t: t, o: runCase(t, cs, true)} }()
	}
	n := c.Scale(64, 800)
	enumerated := 0
	for i := 0; i < n; i++ {
		r := c.R.Fork()
		cs := Case{Seed: r.U64(), Regime: i % 6, Opts: chaingen.GenOpts{Blocks: 5 + r.Intn(10), Branchiness: 2 + r.Intn(3), TxPerBlock: 1 + r.Intn(4), Corruptions: r.Intn(3), Jitter: r.Intn(4), OnInvalid: r.Intn(2)}}
		if i%5 == 1 {
			cs.Opts.Chained, cs.Opts.Remine = 1, 2 // re-mined transactions, same-block v1 chains
		}
		if cs.Regime%3 == 1 && i%2 == 1 {
			cs.Net = &[]storeobs.NetParams{{Allow: 2, Require: 3, FinalCut: 4}, {Allow: 4, Require: 4, FinalCut: 6}, {Allow: 1, Require: 6, FinalCut: 6}}[(i/2)%3]
		}
		if i%7 == 3 || i%7 == 5 {
			if cs.Net == nil {
				cs.Net = &storeobs.NetParams{}
			}
			cs.Net.Maturity = uint64(i%7 - 2 + 2*(i%7/5)) // 1 or 5
		}
		if i%5 == 3 {
			// same-block contract shapes among the ordinary kinds (see chaingen/contractshapes.go)
			cs.Opts.Kinds = append(append(append([]string(nil), chaingen.TxKinds...), chaingen.ShapeKinds...), chaingen.ShapeKinds...)
			cs.Opts.TxPerBlock = 2 + r.Intn(3)
		}
		t := cs.Tree()
		pr := rng.New(cs.Seed ^ 0x5bd1e995)
		if i%2 == 0 {
			cs.Plan = mgrsim.GenPlan(pr, t, false)
		} else {
			cs.Plan = reorgPlan(pr, t)
		}
		cs.Bolt = c.Thorough && i%4 == 3 || i%16 == 15
		cs.Quiet = i%4 == 1
		if i%3 == 2 {
			cs.Plan = storeobs.Spice(rng.New(cs.Seed^0xabc), cs.Plan, i%2 == 0)
		}
		cs.Cache = i%3 == 2
		cs.Sched = "all"
		doCase(cs, true)
		// a random subset of the block steps
		var sb strings.Builder
		for j := 0; j < 64; j++ {
			if pr.Chance(1, 3) {
				sb.WriteByte('1')
			} else {
				sb.WriteByte('0')
			}
		}
		cs.Sched = sb.String()
		doCase(cs, true)
		if c.Thorough && enumerated < 6000 {
			// all schedules of short histories
			o := runCase(t, Case{Seed: cs.Seed, Regime: cs.Regime, Opts: cs.Opts, Plan: cs.Plan, Sched: "none"}, false)
			if k := o.steps - 1; k >= 1 && k <= 10 {
				for mask := 0; mask < 1<<k; mask++ {
					b := make([]byte, k)
					for j := range b {
						b[j] = '0' + byte(mask>>j&1)
					}
					cs.Sched = string(b)
					doCase(cs, mask%16 == 5)
					enumerated++
				}
				res.Count("histories-with-all-schedules-enumerated")
			}
		}
	}
	for i := 0; i < nat; i++ {
		nr := <-natCh
		if nr.cs.NaturalAt == 0 {
			continue
		}
		res.Count("histories-idling-before-a-step-for-the-store's-own-threshold")
		js, _ := json.Marshal(nr.cs)
		res.Eval(string(js), nr.o.midReorg > 0)
		res.CountN("images-committed", nr.o.images)
		res.CountN("images-audited-and-caught-up", nr.o.audited)
		if !nr.o.naturalFired && nr.o.fail == nil {
			res.Count("own-threshold-did-not-fire-during-the-chosen-step (not judged)")
		}
		if nr.o.naturalFired && nr.o.nd != nil && nr.cs.NaturalAt < len(nr.o.nd.Steps) {
			if nr.o.nd.Steps[nr.cs.NaturalAt].Apply {
				res.Count("own-threshold-fired-inside:ApplyBlock")
			} else {
				res.Count("own-threshold-fired-inside:RevertBlock")
			}
		}
		if f := nr.o.fail; f != nil {
			rp := map[string]any{"case": nr.cs, "tree": describe(nr.t), "image": f.image}
			if nr.o.nd != nil {
				rp["steps"] = describeSteps(nr.o.nd, nr.o.rec)
			}
			res.Fail(f.kind, f.detail, rp)
		}
		if nr.o.coq != "" {
			cases = append(cases, nr.o.coq)
		}
	}
	res.WriteCases("Run.Run_C03", cases)
}
