package main

import (
	"bytes"
	"fmt"
	"strings"

	"go.sia.tech/coreutils/chain"
	"verif/harness/internal/chaingen"
	"verif/harness/internal/mgrsim"
	"verif/harness/internal/storeobs"
)

// The "live" crash points: the node really stops after block step crashAt — the
// harness abandons the manager inside the call, the database itself discards
// its uncommitted window (Cancel), and THAT database (not a copy taken at the
// last Flush) is reopened, audited and caught up. What is on the committed side
// must be byte for byte what the last commit stored.

const crashSignal = storeobs.CrashSignal

type liveOutcome struct {
	fail    *failure
	known   *failure
	crashed bool
	pending int // block steps since the last commit at the crash point
	unsep   bool
}

func runLive(t *chaingen.Tree, cs Case, crashAt int, finalIdx int) (lo liveOutcome) {
	backend, closeDB := newBackend(Case{Seed: cs.Seed, Sched: fmt.Sprintf("live%d-%s", crashAt, cs.Sched), Bolt: cs.Bolt})
	defer closeDB()
	rec := storeobs.NewRecDB(backend)
	rec.CrashAtWrite = cs.CrashAtWrite
	var nd *storeobs.Node
	rec.StepNow = func() int {
		switch {
		case nd == nil:
			return 0
		case nd.Rec.Pending != nil:
			return len(nd.Steps)
		}
		return len(nd.Steps) - 1
	}
	var err error
	var db chain.DB = rec
	if cs.Cache {
		db = chain.NewCacheDB(rec) // its overlay dies with the process
	}
	func() {
		defer func() {
			if r := recover(); r != nil {
				err = fmt.Errorf("%v", r)
			}
		}()
		nd, err = storeobs.NewNodeOpt(t, db, nil, cs.Quiet)
	}()
	if err != nil && strings.Contains(err.Error(), crashSignal) {
		return // the chosen write lies inside the opening of the store: no history yet
	}
	if err != nil {
		lo.fail = &failure{"c03-store-does-not-open", err.Error(), -1}
		return
	}
	nd.OnStep = func(st *storeobs.StepRec) {
		rec.CheckHandedOut()
		if cs.fires(len(nd.Steps) - 1) {
			if err := nd.Inner.Flush(); err != nil {
				panic(err)
			}
		}
		if len(nd.Steps)-1 == crashAt {
			panic(crashSignal)
		}
	}
	for _, op := range cs.Plan {
		obs := storeobs.DoOp(nd, op)
		if obs.Panic && strings.Contains(obs.ErrText, crashSignal) {
			lo.crashed = true
			break
		}
		if obs.Panic {
			lo.fail = &failure{"c03-manager-call-panics", fmt.Sprintf("%v panicked: %s", op, obs.ErrText), -1}
			return
		}
	}
	if !lo.crashed {
		return
	}
	fail := func(kind, format string, a ...any) {
		if lo.fail == nil {
			where := fmt.Sprintf("after block step %d", crashAt)
			if cs.CrashAtWrite > 0 {
				where = fmt.Sprintf("at write %d, inside the step after block step %d", cs.CrashAtWrite, len(nd.Steps)-1)
			}
			lo.fail = &failure{kind, fmt.Sprintf("process stopped %s (%d block steps after the last commit), the database discarded its uncommitted window: ", where, lo.pending) + fmt.Sprintf(format, a...), crashAt}
		}
	}
	// the process is gone; the database drops what was not committed
	rec.Cancel()
	last := rec.Images[len(rec.Images)-1]
	lo.pending = len(nd.Steps) - 1 - last.Step
	if last.Step >= len(nd.Steps) {
		fail("c03-commit-inside-an-unfinished-step", "the database committed during block step %d, which never completed: the last commit is no block boundary", last.Step)
		return
	}
	if rec.AliasErr != "" {
		fail(kindAlias, "%s", rec.AliasErr)
		return
	}
	if d := storeobs.DiffImage(rec.Committed(), last); d != "" {
		fail(kindAlias, "what the database holds is not what the last commit (after block step %d) stored: %s", last.Step, d)
		return
	}
	// reopen that very database
	var store *chain.DBStore
	func() {
		defer func() {
			if r := recover(); r != nil {
				fail("c03-image-reopen-panics", "NewDBStore panicked: %v", r)
			}
		}()
		s, ts, err := chain.NewDBStore(backend, t.Env.Net, t.Env.Genesis, nil)
		if err != nil {
			fail("c03-image-does-not-reopen", "NewDBStore: %v", err)
			return
		}
		chain.NewManager(s, ts)
		store = s
		want := nd.Steps[last.Step].Tip
		x, ok := t.ByID[ts.Index.ID]
		if !ok || x.Idx != want {
			fail("c03-image-tip-not-the-boundary-tip", "it reopens to a tip that is not the tip %d of the last commit", want)
			return
		}
		if !bytes.Equal(mgrsim.EncState(ts), encState(x)) {
			fail("c03-image-tip-state-differs", "it reopens to tip %d with a state that is not the linear replay of its chain", x.Idx)
		}
	}()
	if store == nil || lo.fail != nil {
		return
	}
	tw := twinsOf(t)
	prior := nd.Steps[:last.Step+1]
	_, stats := storeobs.Judge(&storeobs.Node{T: t, Steps: prior, Names: nd.Names}, tw)
	if stats.Trigger {
		return // C02's expiry-order finding already in the committed history: not judged here
	}
	tip := t.Nodes[nd.Steps[last.Step].Tip]
	view := storeobs.TakeView(backend, store, nd.MaxH)
	lin, err := tw.Get(nil, tip)
	if err != nil {
		fail("c03-twin-failed", "%v", err)
		return
	}
	if f, _ := storeobs.CompareWithTwin(view, lin, false, nil); f != nil {
		fail("c03-image-"+strings.TrimPrefix(f.Kind, "c02-"), "the reopened database is not consistent with the chain of its tip %d: %s", tip.Idx, f.Detail)
		return
	}
	if f, _ := storeobs.CheckProofs(view, lin, t.Env.Net.HardforkV2.RequireHeight); f != nil {
		fail("c03-image-"+strings.TrimPrefix(f.Kind, "c02-"), "%s", f.Detail)
		return
	}
	backend.Cancel()
	// catch up on the same database
	nd2, err := storeobs.NewNodeFromImage(t, backend, prior, nd.Names)
	if err != nil {
		fail("c03-image-does-not-reopen", "second reopen: %v", err)
		return
	}
	for _, op := range storeobs.PlainOps(cs.Plan) {
		obs := nd2.Do(op)
		if obs.Panic {
			fail("c03-catch-up-panics", "re-submitting %v panicked: %s", op, obs.ErrText)
			return
		}
	}
	if f, _ := storeobs.Judge(nd2, tw); f != nil {
		if f.Kind == storeobs.KindF8 {
			lo.known = &failure{"c03-catch-up-expiry-order-history-dependent", fmt.Sprintf("while catching up after a stop at block step %d the reopened node reverted a block that resolves or re-windows a contract sharing its window end: %s", crashAt, f.Detail), crashAt}
			return
		}
		fail("c03-catch-up-"+strings.TrimPrefix(f.Kind, "c02-"), "while catching up: %s", f.Detail)
		return
	}
	final := t.Nodes[finalIdx]
	end, ok := t.ByID[nd2.Sim.CM.Tip().ID]
	switch {
	case !ok:
		fail("c03-catch-up-ends-elsewhere", "the node ends on an unknown block")
	case end != final && mgrsim.Heavier(final, end):
		fail("c03-catch-up-stays-behind", "fed the whole history again the node ends on block %d, which is sufficiently lighter than block %d, the tip of the uninterrupted run, although the history contains the call that took the uninterrupted node there", end.Idx, final.Idx)
	case end != final && !separated(t, final):
		lo.unsep = true
	case end != final:
		fail("c03-catch-up-ends-elsewhere", "fed the whole history again the node ends on block %d; the uninterrupted run ends on %d", end.Idx, final.Idx)
	case !bytes.Equal(mgrsim.EncState(nd2.Sim.CM.TipState()), encState(final)):
		fail("c03-catch-up-state-differs", "the node reaches the final tip %d with a different state", final.Idx)
	}
	return
}

// contractCase is a hand-built history around one expiration list: block 1 forms three v1
// contracts with one window end, block 3 resolves the first of them by storage proof, block
// 4 re-windows the second; everything arrives in one AddBlocks call.
func contractCase(regime int, sched string) (Case, *chaingen.Tree) {
	cs := Case{Seed: uint64(7100 + regime), Regime: regime, Directed: "shared-expiration-list", Sched: sched}
	t := cs.Tree()
	var ids []int
	for _, n := range t.Nodes[1:] {
		ids = append(ids, n.Idx)
	}
	cs.Plan = []mgrsim.Op{{Kind: "add", Nodes: ids}}
	return cs, t
}
