// Command c05 checks C05 (the transaction pool is always a valid, minable
// continuation of the tip) on the real chain.Manager and coreutils.MineBlock:
// histories of block submissions (reorgs) interleaved with pool submissions of
// every flavour; after every step the reported pool is re-validated with core on
// the generator's own state, a block is mined from it and offered to a fresh
// linear node, and every accepted transaction that left the pool must have a
// reason the property allows.
package main

import (
	"encoding/json"
	"fmt"
	"os"
	"strings"
	"time"

	"go.sia.tech/core/types"
	"go.sia.tech/coreutils/chain"
	"verif/harness/internal/chaingen"
	"verif/harness/internal/hx"
	"verif/harness/internal/mgrsim"
	"verif/harness/internal/poolsim"
	"verif/harness/internal/rng"
	"verif/harness/internal/storeobs"
)

func main() { hx.Main("C05", run) }

type failure struct{ kind, detail string }
type stats map[string]int

type tracked struct {
	v2    bool
	t1    types.Transaction
	t2    types.V2Transaction
	abs   poolsim.ATx
	since int
}

// byExpiryOrder re-runs the block submissions of a history on an observed store and asks the C02
// judge whether the first thing that differs from a linear twin is the known expiry-order finding.
func byExpiryOrder(t *chaingen.Tree, ops []mgrsim.Op) (yes bool) {
	defer func() {
		if recover() != nil {
			yes = false
		}
	}()
	nd, err := storeobs.NewNode(t, chain.NewMemDB(), nil)
	if err != nil {
		return false
	}
	for _, op := range ops {
		if o := nd.Do(op); o.Panic {
			return false
		}
	}
	f, _ := storeobs.Judge(nd, storeobs.NewTwins(t))
	return f != nil && f.Kind == storeobs.KindF8
}

// assemble builds a block from the lists by the rule of MineBlock with every transaction of
// the block counted (law L3 is checked on this block: a sequentially valid, in-weight list
// makes a valid block body)
func assemble(n *chaingen.Node, v1 []types.Transaction, v2 []types.V2Transaction) types.Block {
	cs := n.FullState
	b := types.Block{ParentID: cs.Index.ID, Timestamp: types.CurrentTimestamp(), MinerPayouts: []types.SiacoinOutput{{Value: cs.BlockReward(), Address: types.VoidAddress}}}
	child := cs.Index.Height + 1
	var weight uint64
	for _, t := range v1 {
		if weight += cs.TransactionWeight(t); weight > cs.MaxBlockWeight() {
			break
		}
		b.Transactions = append(b.Transactions, t)
		b.MinerPayouts[0].Value = b.MinerPayouts[0].Value.Add(t.TotalFees())
	}
	if child >= cs.Network.HardforkV2.AllowHeight {
		b.V2 = &types.V2BlockData{Height: child}
		for _, t := range v2 {
			if weight += cs.V2TransactionWeight(t); weight > cs.MaxBlockWeight() {
				break
			}
			b.V2.Transactions = append(b.V2.Transactions, t)
			b.MinerPayouts[0].Value = b.MinerPayouts[0].Value.Add(t.MinerFee)
		}
		b.V2.Commitment = cs.Commitment(types.VoidAddress, b.Transactions, b.V2Transactions())
	}
	chaingen.FindNonce(cs, &b)
	return b
}

func runCase(cs poolsim.Case, coqWanted bool) (coqOut string, failOut *failure, stOut stats, rOut *poolsim.Runner) {
	var t *chaingen.Tree
	var w *poolsim.World
	var fail *failure
	defer func() {
		if p := recover(); p != nil {
			coqOut, failOut = "", &failure{"c05-state-corrupted", fmt.Sprint("the history broke an invariant of the harness (memory shared with the manager was modified?): ", p)}
			if fail != nil {
				failOut = fail // the monitor that fired first names the violation
			} else if strings.Contains(fmt.Sprint(p), "mined block rejected") || strings.Contains(fmt.Sprint(p), "twin rejected") {
				failOut = &failure{"c05-mined-block-rejected", fmt.Sprint("a block assembled from the pool does not replay on a fresh node: ", p)}
			}
			if stOut == nil {
				stOut = stats{}
			}
		}
	}()
	t = cs.Tree()
	w = poolsim.NewWorld(t)
	report := func(kind, detail string) {
		if fail == nil {
			fail = &failure{kind, detail}
		}
	}
	r := poolsim.NewRunner(w, report)
	for _, n := range t.Nodes {
		if !n.ChainValid() {
			r.NoCoq = "tree with invalid blocks (failed reorgs are not projected)"
		}
	}
	st := stats{}
	track := map[types.TransactionID]*tracked{}
	maxPool := r.MW * poolsim.CapBlocks
	var prevWeight uint64
	// a third of the histories read the pool from inside the reorg / pool-change notifications
	if cs.Seed%3 == 0 {
		r.Listen()
		st["histories-with-listener-reads"]++
	}
	// the lists as last read (ids to ask for when another call than the listing comes first)
	var last1 []types.Transaction
	var last2 []types.V2Transaction
	lastTip := w.Info(r.Tip).Index
	// firstRead: the step's call was made with Runner.DeferNext (nothing read the pool since); one
	// reading call of the given kind comes first and is judged by the lists read right after it
	firstRead := func(kind, what string) {
		if kind == "" || fail != nil {
			return
		}
		if bad := r.FirstRead(kind, last1, last2, lastTip); bad != "" {
			report("c05-first-read-differs", "after "+what+": "+bad)
		}
	}

	// ledgers of the blocks the tip passed through since the pool was last judged
	var pendingLedgers []*poolsim.NodeInfo
	addPath := func(from, to *chaingen.Node) {
		if from == nil || from == to {
			return
		}
		rev, app := poolsim.TreePath(from, to)
		for _, x := range rev {
			pendingLedgers = append(pendingLedgers, w.Info(x.Parent))
		}
		for _, x := range app {
			pendingLedgers = append(pendingLedgers, w.Info(x))
		}
	}
	// the monitors evaluated after every step; pathFrom is the tip before the step
	check := func(step int, what string, pathFrom *chaingen.Node, addedWeight uint64, mineRecord bool) {
		if fail != nil {
			return
		}
		tip := r.Tip
		v1, v2 := r.Pool()
		if fail != nil {
			return
		}
		last1, last2, lastTip = v1, v2, w.Info(tip).Index
		st["steps"]++
		st["pool-transactions-validated"] += len(v1) + len(v2)
		// 1. every prefix valid: sequential validation by core from a fresh mid-state on the
		// generator's state of the tip, v1 supplements from the generator's ledger
		if pos, err := w.ValidatePool(tip, v1, v2); err != nil {
			report("c05-pool-invalid", fmt.Sprintf("after %s the reported pool (%d v1, %d v2) is not valid in order at position %d: %v", what, len(v1), len(v2), pos, err))
			return
		}
		// every reported transaction is retrievable by its id, from the lookup of its kind only
		for _, x := range v1 {
			id := x.ID()
			func() {
				defer func() {
					if p := recover(); p != nil {
						report("c05-lookup-panic", fmt.Sprint("a lookup by the id of a reported v1 transaction panicked: ", p))
					}
				}()
				if t, ok := r.CM.PoolTransaction(id); !ok || t.ID() != id {
					report("c05-lookup-missed", fmt.Sprintf("after %s PoolTransaction(<id of reported v1 transaction %x>) reports found=%v (pool: %d v1, %d v2)", what, id[:4], ok, len(v1), len(v2)))
				}
				if _, ok := r.CM.V2PoolTransaction(id); ok {
					report("c05-lookup-wrong-transaction", "V2PoolTransaction(<v1 id>) reports a transaction")
				}
			}()
		}
		for _, x := range v2 {
			id := x.ID()
			func() {
				defer func() {
					if p := recover(); p != nil {
						report("c05-lookup-panic", fmt.Sprint("a lookup by the id of a reported v2 transaction panicked: ", p))
					}
				}()
				if t, ok := r.CM.V2PoolTransaction(id); !ok || t.ID() != id {
					report("c05-lookup-missed", fmt.Sprintf("after %s V2PoolTransaction(<id of reported v2 transaction %x>) reports found=%v (pool: %d v1, %d v2)", what, id[:4], ok, len(v1), len(v2)))
				}
				if _, ok := r.CM.PoolTransaction(id); ok {
					report("c05-lookup-wrong-transaction", "PoolTransaction(<v2 id>) reports a transaction")
				}
			}()
		}
		st["lookups-of-reported-transactions"] += len(v1) + len(v2)
		if fail != nil {
			return
		}
		// the manager's tip state is the generator's
		if string(mgrsim.EncState(r.CM.TipState())) != string(mgrsim.EncState(tip.FullState)) {
			// the known expiry-order finding of the store (C02, F8) shows here as well once a reorg reverted a
			// block that resolved or re-windowed one of several v1 contracts sharing a window end: decided by
			// re-running the block submissions of this history on an observed store under the C02 judge (the only
			// served data differing from a linear twin are expiration lists, permuted as the exported diffs explain);
			// any other difference keeps its kind
			if byExpiryOrder(t, r.Ops) {
				report("c05-tip-state-differs-by-expiry-order", "TipState differs from the linear replay of the best chain; the C02 judge attributes the difference to the expiration-list order (after "+what+")")
			} else {
				report("c05-tip-state-differs", "TipState differs from the linear replay of the best chain")
			}
			return
		}
		// 2. a block mined from the pool is accepted by a fresh linear node
		b, ok := r.MineOnly()
		if fail != nil {
			return
		}
		if !ok {
			report("c05-mine-failed", "MineBlock found no nonce")
			return
		}
		twin2 := w.NewTwin(tip)
		if err := twin2.AddBlocks([]types.Block{b}); err != nil || twin2.Tip().ID != b.ID() {
			report("c05-mined-block-rejected", fmt.Sprintf("after %s the block MineBlock assembled from the pool (%d v1, %d v2 transactions on height %d) is rejected by a fresh node: %v", what, len(b.Transactions), len(b.V2Transactions()), tip.Height+1, err))
			return
		}
		// law L3 on this run's data: the list just validated, cut at the weight limit, makes a valid block
		twin := w.NewTwin(tip)
		lb := assemble(tip, v1, v2)
		if err := twin.AddBlocks([]types.Block{lb}); err != nil || twin.Tip().ID != lb.ID() {
			report("c05-law-L3-violated", fmt.Sprintf("a block assembled from a list that core validated in order, within the weight limit, was rejected: %v", err))
			return
		}
		st["mined-blocks-accepted-by-twin"]++
		if len(b.Transactions)+len(b.V2Transactions()) > 1 {
			st["mined-blocks-with-pool-transactions"]++
		}
		if len(b.Transactions) > 0 && len(b.V2Transactions()) > 1 {
			st["mined-blocks-mixing-v1-and-v2-pool-transactions"]++
		}
		if mineRecord {
			r.RecordMine(b)
		}
		// 3. retention
		in1, in2 := map[types.TransactionID]bool{}, map[types.TransactionID]bool{}
		var wsum uint64
		for _, x := range v1 {
			in1[x.ID()] = true
			wsum += tip.FullState.TransactionWeight(x)
		}
		for _, x := range v2 {
			in2[x.ID()] = true
			wsum += tip.FullState.V2TransactionWeight(x)
		}
		confirmed := map[types.TransactionID]bool{}
		for _, a := range poolsim.Ancestors(tip) {
			for _, x := range a.Block.Transactions {
				confirmed[x.ID()] = true
			}
			for _, x := range a.Block.V2Transactions() {
				confirmed[x.ID()] = true
			}
		}
		// every ledger the reorg passed through
		// (including the blocks of earlier steps after which the pool was not read)
		addPath(pathFrom, tip)
		ledgers := append(pendingLedgers, w.Info(tip))
		pendingLedgers = nil
		// outputs created by pooled / confirmed transactions
		madeBy := map[string]types.TransactionID{}
		for _, tr := range track {
			for _, o := range tr.abs.Outs {
				madeBy[o.Key] = tr.abs.ID
			}
		}
		gone := func(key string, cls int) string {
			for _, in := range ledgers {
				found := false
				for _, e := range in.LedgerEntries() {
					if e.Key == key {
						found = true
					}
				}
				if !found {
					return fmt.Sprintf("element %s is not an unspent element at block %d of the path", key, in.N.Idx)
				}
			}
			return ""
		}
		var evictedNow []*tracked
		leftNow := map[types.TransactionID]bool{}
		leftWhy := map[string]int{}
		for id, tr := range track {
			if in1[id] || in2[id] {
				continue
			}
			reason := ""
			switch {
			case confirmed[id]:
				reason = "confirmed"
			case tip.Height+1 < tr.abs.Lo || tip.Height+1 > tr.abs.Hi:
				reason = "height-window"
			case prevWeight+addedWeight >= maxPool:
				reason = "evicted-when-full"
			default:
				for _, in := range tr.abs.Ins {
					if maker, ok := madeBy[in.Key]; ok && !confirmed[maker] {
						// created by an unconfirmed transaction: fine while that one is pooled
						if !(in1[maker] || in2[maker]) {
							reason = "parent-left"
						}
						continue
					}
					if g := gone(in.Key, in.Cls); g != "" {
						reason = "input-spent-or-uncreated"
					}
					// a revision is only valid while it is newer than the contract on the chain: a block
					// of the path that revised the contract to the same or a higher number consumed it
					if in.Role == 1 && in.Cls == 2 {
						for _, li := range ledgers {
							for id, fce := range li.L.FC {
								if poolsim.Fc1Key(id) == in.Key && fce.FileContract.RevisionNumber >= in.Rev {
									reason = "contract-revised-on-chain"
								}
							}
						}
					}
				}
			}
			if reason == "" {
				report("c05-retention-lost", fmt.Sprintf("after %s transaction %x (v2=%v, accepted at step %d) is no longer reported although it is not confirmed, every input is still unspent at every block of the path, its parents are pooled, its height window [%d,%d] contains %d and the pool weight was %d", what, id[:4], tr.v2, tr.since, tr.abs.Lo, tr.abs.Hi, tip.Height+1, prevWeight+addedWeight))
				return
			}
			st["left:"+reason]++
			leftWhy[reason]++
			leftNow[id] = true
			if reason == "evicted-when-full" {
				evictedNow = append(evictedNow, tr)
			}
			if reason == "input-spent-or-uncreated" && pathFrom == tip {
				st["left:input-spent-transiently-in-failed-reorg"]++
			}
			delete(track, id)
		}
		// "evicted for low fees": a transaction that left a full pool on its own account (no transaction it
		// depends on left with it) paid no higher fee per weight than any transaction that stayed
		if len(evictedNow) > 0 {
			rate := func(tr *tracked) types.Currency {
				if tr.v2 {
					return tr.t2.MinerFee.Div64(tip.FullState.V2TransactionWeight(tr.t2))
				}
				return tr.t1.TotalFees().Div64(tip.FullState.TransactionWeight(tr.t1))
			}
			var minKept *types.Currency
			for _, tr := range track {
				if rt := rate(tr); minKept == nil || rt.Cmp(*minKept) < 0 {
					minKept = &rt
				}
			}
			for _, tr := range evictedNow {
				dependent := false
				for _, in := range tr.abs.Ins {
					if maker, ok := madeBy[in.Key]; ok && leftNow[maker] {
						dependent = true
					}
				}
				if dependent || minKept == nil {
					continue
				}
				st["evictions-judged-by-fee-rate"]++
				if rt := rate(tr); rt.Cmp(*minKept) > 0 {
					report("c05-evicted-not-lowest-fee", fmt.Sprintf("after %s the full pool evicted transaction %x, which pays %v per weight unit and depends on no other evicted transaction, while a transaction paying only %v stays", what, tr.abs.ID[:4], rt, *minKept))
					return
				}
			}
		}
		if rev, _ := poolsim.TreePath(pathFrom, tip); pathFrom != nil && len(rev) > 0 {
			// what one reorg did to the pool: confirmed some members, took some back from reverted blocks, invalidated some
			reentered := 0
			for _, x := range rev {
				for _, y := range x.Block.Transactions {
					if in1[y.ID()] {
						reentered++
					}
				}
				for _, y := range x.Block.V2Transactions() {
					if in2[y.ID()] {
						reentered++
					}
				}
			}
			mix := ""
			if leftWhy["confirmed"] > 0 {
				mix += "+confirms"
			}
			if reentered > 0 {
				mix += "+unconfirms"
			}
			if leftWhy["input-spent-or-uncreated"]+leftWhy["parent-left"] > 0 {
				mix += "+invalidates"
			}
			if mix != "" {
				st["reorg-mix:"+mix[1:]]++
			}
		}
		st["retained-checks"] += len(track)
		prevWeight = wsum
	}

	submit := func(step int, s *poolsim.Submission) uint64 {
		b1, b2 := r.Pool()
		inPool := map[types.TransactionID]bool{}
		for _, x := range b1 {
			inPool[x.ID()] = true
		}
		for _, x := range b2 {
			inPool[x.ID()] = true
		}
		var known bool
		var err error
		var pan bool
		// every fourth submission is followed by another reading call than the listing: the lookup of
		// a member (whether the set was accepted or rolled back), the v2 list, MineBlock
		fr := ""
		if step%4 == 3 {
			fr = []string{"v2-list", "lookup-v1", "lookup-v2", "mine", "partial-block"}[(step/4)%5]
			r.DeferNext = true
		}
		if s.V2 {
			known, err, pan = r.Submit2(s.Basis, s.V2s, s.Metas)
		} else {
			known, err, pan = r.Submit1(s.V1, s.Metas)
		}
		r.DeferNext = false
		st["submit:"+s.Flavor]++
		{
			// where the child height of this submission lies relative to the hardfork heights
			child, hf := r.Tip.Height+1, w.Env.Net.HardforkV2
			for name, h := range map[string]uint64{"allow": hf.AllowHeight, "require": hf.RequireHeight} {
				switch {
				case child+1 == h:
					st["submission-at-child-height:"+name+"-1"]++
				case child == h:
					st["submission-at-child-height:"+name]++
				case child == h+1:
					st["submission-at-child-height:"+name+"+1"]++
				}
			}
		}
		if pan {
			report("c05-submit-panic", fmt.Sprintf("submitting a %s set panicked", s.Flavor))
			return 0
		}
		if fr != "" {
			// (ids to ask for: the pool before the call and the members of the set)
			a1, a2 := append(append([]types.Transaction(nil), b1...), s.V1...), append(append([]types.V2Transaction(nil), b2...), s.V2s...)
			if bad := r.FirstRead(fr, a1, a2, w.Info(r.Tip).Index); bad != "" {
				report("c05-first-read-differs", fmt.Sprintf("after a %s submission (error: %v): %s", s.Flavor, err, bad))
				return 0
			}
		}
		var added uint64
		if err == nil && !known {
			st["sets-accepted"]++
			cs0 := r.Tip.FullState
			if s.V2 {
				// the pool holds the rebased copies: track those
				_, a2 := r.Pool()
				cur := map[types.TransactionID]types.V2Transaction{}
				for _, x := range a2 {
					cur[x.ID()] = x
				}
				for i, x := range s.V2s {
					if inPool[x.ID()] {
						continue
					}
					if c, ok := cur[x.ID()]; ok {
						track[x.ID()] = &tracked{v2: true, t2: c, abs: w.AbsV2(c, s.Metas[i]), since: step}
						added += cs0.V2TransactionWeight(c)
					}
				}
			} else {
				for i, x := range s.V1 {
					if !inPool[x.ID()] {
						track[x.ID()] = &tracked{t1: x, abs: w.AbsV1(x, s.Metas[i]), since: step}
						added += cs0.TransactionWeight(x)
					}
				}
			}
		} else if err != nil {
			st["sets-refused"]++
		}
		return added
	}

	for i, stp := range cs.Plan {
		if fail != nil {
			break
		}
		g := rng.New(stp.Seed ^ cs.Seed)
		before := r.Tip
		var added uint64
		if stp.Quiet {
			// no pool method is called in or after this step: the next step's call comes first
			switch stp.Kind {
			case "chain":
				r.Quiet = true
				if o := r.Chain(stp.Op); o.Err {
					st["chain-op-errors"]++
				}
				st["quiet-chain-steps"]++
			case "submit":
				// (building the set reads the pool; the submission itself and what follows do not)
				if s := r.Fabricate(g, stp.Flavor); s != nil {
					r.Quiet = true
					var err error
					if s.V2 {
						_, err, _ = r.Submit2Quiet(s.Basis, s.V2s, s.Metas)
					} else {
						_, err, _ = r.Submit1Quiet(s.V1, s.Metas)
					}
					if err != nil {
						st["quiet-sets-refused"]++
					} else {
						st["quiet-sets-accepted"]++
					}
				}
			}
			addPath(before, r.Tip)
			continue
		}
		r.Quiet = false
		switch stp.Kind {
		case "chain":
			_, poolV2 := r.Pool()
			// every third block submission is followed by another reading call than the listing
			fr := ""
			if g.Chance(1, 3) {
				fr = poolsim.FirstReaders[g.Intn(len(poolsim.FirstReaders))]
				r.DeferNext = true
			}
			o := r.Chain(stp.Op)
			r.DeferNext = false
			if r.Tip != before {
				firstRead(fr, stp.String())
			}
			// law used by C05_retention: the re-offered v1 transactions of the last reverted block
			// spend nothing a pooled v2 transaction uses
			if lr := r.LastReverted(); lr != nil && r.Tip != before {
				spent := map[types.Hash256]bool{}
				nowV1, _ := r.Pool()
				pooled := map[types.TransactionID]bool{}
				for _, x := range nowV1 {
					pooled[x.ID()] = true
				}
				for _, x := range lr.Block.Transactions {
					if len(x.MinerFees) == 0 || !pooled[x.ID()] {
						continue // only a re-offered transaction that re-entered the pool can displace another
					}
					for _, in := range x.SiacoinInputs {
						spent[types.Hash256(in.ParentID)] = true
					}
					for _, in := range x.SiafundInputs {
						spent[types.Hash256(in.ParentID)] = true
					}
					for _, sp := range x.StorageProofs {
						spent[types.Hash256(sp.ParentID)] = true
					}
				}
				for _, u := range poolV2 {
					for _, in := range u.SiacoinInputs {
						if spent[types.Hash256(in.Parent.ID)] {
							report("c05-law-reoffered-conflict", "a re-offered v1 transaction of the last reverted block re-entered the pool and spends an input of a pooled v2 transaction")
						}
					}
					for _, in := range u.SiafundInputs {
						if spent[types.Hash256(in.Parent.ID)] {
							report("c05-law-reoffered-conflict", "a re-offered v1 transaction of the last reverted block re-entered the pool and spends an input of a pooled v2 transaction")
						}
					}
				}
				st["reoffer-law-checks"]++
			}
			if o.Err {
				st["chain-op-errors"]++
				if r.Tip == before {
					// a reorg that failed on a block with an invalid body was rolled back: the valid blocks
					// below that block were applied transiently (and the blocks down to the fork point
					// reverted); their ledgers belong to the path the pool went through
					var best *chaingen.Node
					for _, i := range stp.Op.Nodes {
						n := t.Nodes[i]
						if n.HdrOK && !n.ChainValid() && mgrsim.Heavier(n, before) && (best == nil || mgrsim.Heavier(n, best)) {
							hdr := true
							for a := n; a != nil && a.Parent != nil; a = a.Parent {
								hdr = hdr && a.HdrOK && r.Known[a.Parent]
							}
							if hdr {
								best = n
							}
						}
					}
					if best != nil {
						v := best
						for a := best; a != nil; a = a.Parent {
							if !a.ChainValid() {
								v = a.Parent
							}
						}
						st["failed-reorgs"]++
						if v != nil && v != before {
							rv, ap := poolsim.TreePath(before, v)
							if len(rv)+len(ap) > 0 {
								st["failed-reorgs-with-transient-blocks"]++
								st["transient-blocks"] += len(rv) + len(ap)
							}
							addPath(before, v)
							addPath(v, before)
						}
					}
				}
			}
			if r.Tip != before {
				rev, _ := poolsim.TreePath(before, r.Tip)
				if len(rev) > 0 {
					st["reorgs-with-reverts"]++
				}
				st["tip-changes"]++
			}
		case "mine":
			if b, ok := r.MineOnly(); ok {
				fr := ""
				if g.Chance(1, 3) {
					fr = poolsim.FirstReaders[g.Intn(len(poolsim.FirstReaders))]
					r.DeferNext = true
				}
				adopted := r.Adopt(b)
				r.DeferNext = false
				if adopted {
					st["mined-blocks-adopted"]++
					firstRead(fr, "a block mined from the pool")
				} else if fail == nil {
					report("c05-mined-block-rejected", fmt.Sprintf("the node rejected the block it mined itself from its pool (%d v1, %d v2 transactions on height %d)", len(b.Transactions), len(b.V2Transactions()), before.Height+1))
				}
			}
		case "submit":
			if s := r.Fabricate(g, stp.Flavor); s != nil {
				added = submit(i, s)
			} else {
				st["submit-skipped"]++
			}
		case "side-reorg":
			// a heavier sibling branch of the tip that confirms pooled transactions and double-spends one
			if n, contested, done := r.SideReorg(g); done {
				st["side-reorgs"]++
				st["side-reorgs:pooled-transactions-confirmed-by-the-other-branch"] += n
				if contested {
					st["side-reorgs:input-of-a-pooled-transaction-spent-by-the-other-branch"]++
				}
				st["reorgs-with-reverts"]++
				st["tip-changes"]++
			} else {
				st["side-reorg-skipped"]++
			}
		case "empty-fork":
			if r.EmptyFork(2, 3) {
				st["reorgs-to-empty-forks"]++
			} else {
				st["empty-fork-skipped"]++
			}
		case "confirm-old":
			if r.ConfirmOld(stp.N) {
				st["blocks-confirming-one-earlier-transaction"]++
			} else {
				st["confirm-old-skipped"]++
			}
		case "fail-reorg":
			// a heavier side chain with an invalid second block: two blocks reverted, one applied, rollback
			if n1, contested := r.FailingReorg(g); n1 != nil {
				st["failed-reorgs"]++
				st["failed-reorgs-with-transient-blocks"]++
				st["transient-blocks"] += 3
				if contested {
					st["failed-reorgs-spending-a-pooled-input-transiently"]++
				}
				addPath(before, n1)
				addPath(n1, before)
			} else {
				st["fail-reorg-skipped"]++
			}
		case "fill":
			chains, size := 10, 1_000_000
			fl := stp.Flavor
			if i := strings.IndexByte(fl, ':'); i >= 0 {
				fmt.Sscanf(fl[i+1:], "%d:%d", &chains, &size)
				fl = fl[:i]
			}
			for _, s := range r.Fill(g, fl == "v2", chains, stp.N, size) {
				added += submit(i, s)
			}
			st["fills"]++
		}
		check(i, stp.String(), before, added, stp.Kind == "mine" || g.Chance(1, 3))
	}
	for k, v := range r.Stats {
		st[k] += v
	}
	{
		// transactions that ended up in blocks of two branches (confirmed, reverted, re-offered, mined again)
		in := map[types.TransactionID]int{}
		for _, n := range t.Nodes {
			if !n.ChainValid() || n.Corrupt != "" {
				continue
			}
			for _, x := range n.Block.Transactions {
				in[x.ID()]++
			}
			for _, x := range n.Block.V2Transactions() {
				in[x.ID()]++
			}
		}
		for _, c := range in {
			if c > 1 {
				st["transactions-confirmed-in-blocks-of-two-branches"]++
			}
		}
	}
	coq := ""
	if coqWanted && r.NoCoq == "" && fail == nil {
		coq = r.CoqCase()
	}
	return coq, fail, st, r
}

var flavors = []string{
	"fresh-v1", "fresh-v2", "chain-v1", "chain-v2", "chain-v2", "stale-v2", "stale-v2", "conflict-v1", "conflict-v2",
	"set-conflict-v1", "set-conflict-v2", "set-invalid-v1", "set-invalid-v2", "partly-known-v1", "partly-known-v2",
	"known-v1", "known-v2", "child-only-v1", "child-only-v2", "builder", "builder", "builder", "wrong-basis-v2", "corrupt-proof-v2", "dup-v1", "dup-v2", "resubmit-v1", "resubmit-v2", "resubmit-v2", "known-and-conflict-v1", "known-and-conflict-v2",
}

// corpus: directed histories, run first.
func corpus(seed uint64) []poolsim.Case {
	var out []poolsim.Case
	lin := func(regime, blocks int) poolsim.Case {
		return poolsim.Case{Seed: seed*977 + uint64(regime*31+blocks), Regime: regime, Opts: chaingen.GenOpts{Blocks: blocks, Branchiness: 0, TxPerBlock: 1}}
	}
	all := func(n int) poolsim.Step {
		var ids []int
		for i := 1; i <= n; i++ {
			ids = append(ids, i)
		}
		return poolsim.Step{Kind: "chain", Op: mgrsim.Op{Kind: "add", Nodes: ids}}
	}
	// a v1 contract whose window ends at the v2 require height, then blocks mined through that height
	c := lin(1, 4)
	c.Plan = []poolsim.Step{all(4), {Kind: "submit", Flavor: "form-v1-require", Seed: 1}, {Kind: "mine"}, {Kind: "submit", Flavor: "fresh-v2", Seed: 2}, {Kind: "mine"}, {Kind: "mine"}, {Kind: "mine"}, {Kind: "submit", Flavor: "fresh-v2", Seed: 3}, {Kind: "mine"}, {Kind: "mine"}}
	out = append(out, c)
	// a pool that fills a block exactly
	for _, slack := range []int{0, 7, 11, 12, 13} {
		c = lin(2, 3)
		c.Seed += uint64(slack)
		c.Plan = []poolsim.Step{all(3), {Kind: "submit", Flavor: fmt.Sprintf("exact-fill-v2:%d", slack), Seed: 10 + seed}, {Kind: "mine"}, {Kind: "submit", Flavor: "fresh-v2", Seed: 4}}
		out = append(out, c)
	}
	// a pool heavier than one block whose first non-fitting transaction has a small dependent behind it:
	// only a prefix of the pool may be mined
	c = lin(2, 3)
	c.Seed += 101
	c.Plan = []poolsim.Step{all(3), {Kind: "submit", Flavor: "filler-v2:1900000", Seed: 21 + seed}, {Kind: "submit", Flavor: "heavy-chain-v2", Seed: 22 + seed}, {Kind: "mine"}, {Kind: "mine"}, {Kind: "submit", Flavor: "fresh-v2", Seed: 23}}
	out = append(out, c)
	c = lin(0, 3)
	c.Seed += 102
	c.Plan = []poolsim.Step{all(3), {Kind: "submit", Flavor: "filler-v1", Seed: 24 + seed}, {Kind: "submit", Flavor: "heavy-chain-v1", Seed: 25 + seed}, {Kind: "mine"}, {Kind: "mine"}}
	out = append(out, c)
	c = lin(1, 4)
	c.Seed += 103
	c.Plan = []poolsim.Step{all(4), {Kind: "submit", Flavor: "filler-v1", Seed: 26 + seed}, {Kind: "submit", Flavor: "heavy-chain-v2", Seed: 27 + seed}, {Kind: "mine"}, {Kind: "mine"}}
	out = append(out, c)
	// pooled v2 resolutions (storage proof, renewal, expiration) and revisions that stay in the pool while
	// unrelated blocks (formations and transfers only) grow the accumulator underneath them
	for k := uint64(0); k < 3; k++ {
		c = poolsim.Case{Seed: seed*977 + 2000 + k, Regime: 2, Opts: chaingen.GenOpts{Blocks: 12, Branchiness: 0, TxPerBlock: 3, Kinds: []string{"v2-form", "v2-form", "v2-transfer", "v2-siafund"}}}
		c.Plan = []poolsim.Step{all(3)}
		for n := 4; n <= 12; n++ {
			for _, kind := range []string{"v2-proof", "v2-renew", "v2-expire", "v2-revise"} {
				c.Plan = append(c.Plan, poolsim.Step{Kind: "submit", Flavor: "builder:" + kind, Seed: uint64(n)*17 + k})
			}
			c.Plan = append(c.Plan, poolsim.Step{Kind: "chain", Op: mgrsim.Op{Kind: "add", Nodes: []int{n}}})
		}
		out = append(out, c)
	}
	// stretches of block submissions (one AddBlocks call each) during which no pool method is called,
	// long enough for accumulator trees to merge, after an ordinary submission and after a refused one
	for k := 0; k < 2; k++ {
		c = poolsim.Case{Seed: seed*977 + 3000 + uint64(k), Regime: 2, Opts: chaingen.GenOpts{Blocks: 36, Branchiness: 0, TxPerBlock: 0}}
		c.Plan = []poolsim.Step{all(3), {Kind: "submit", Flavor: "fresh-v2", Seed: 41 + seed}, {Kind: "submit", Flavor: "chain-v2", Seed: 42 + seed}, {Kind: "submit", Flavor: "fresh-v2", Seed: 43 + seed}}
		if k == 1 {
			c.Plan = append(c.Plan, poolsim.Step{Kind: "submit", Flavor: "conflict-v2", Seed: 44 + seed, Quiet: true})
		}
		for n := 4; n <= 36; n++ {
			c.Plan = append(c.Plan, poolsim.Step{Kind: "chain", Op: mgrsim.Op{Kind: "add", Nodes: []int{n}}, Quiet: true})
		}
		c.Plan = append(c.Plan, poolsim.Step{Kind: "submit", Flavor: "fresh-v2", Seed: 45 + seed}, poolsim.Step{Kind: "mine"})
		out = append(out, c)
	}
	// one reorg that confirms pooled transactions (mined on the sibling branch as well), un-confirms those of
	// the reverted tip and invalidates another one
	for _, regime := range []int{2, 0, 1} {
		c = lin(regime, 5)
		c.Seed += 5000
		kind := map[int]string{2: "v2", 0: "v1", 1: "v2"}[regime]
		c.Plan = []poolsim.Step{all(5),
			{Kind: "submit", Flavor: "fresh-" + kind, Seed: 61 + seed}, {Kind: "mine"},
			{Kind: "submit", Flavor: "fresh-" + kind, Seed: 62 + seed}, {Kind: "submit", Flavor: "chain-" + kind, Seed: 63 + seed}, {Kind: "submit", Flavor: "fresh-" + kind, Seed: 64 + seed},
			{Kind: "side-reorg", Seed: 65 + seed},
			{Kind: "submit", Flavor: "fresh-" + kind, Seed: 66 + seed}, {Kind: "mine"},
			{Kind: "side-reorg", Seed: 67 + seed}, {Kind: "mine"}}
		if regime == 1 {
			c.Plan = append(c.Plan[:3:3], append([]poolsim.Step{{Kind: "submit", Flavor: "fresh-v1", Seed: 68 + seed}}, c.Plan[3:]...)...)
		}
		out = append(out, c)
	}
	// a re-offered transaction that is stale at first and becomes valid later must not displace a pooled one:
	// X1 confirms Q, X2 confirms R (a free element + Q's change), reorg to three empty blocks (R re-offered,
	// invalid), T spends R's free element, a block confirms only Q (R valid again, conflicts with T)
	for _, regime := range []int{0, 1} {
		c = lin(regime, 3)
		c.Seed += 6000
		c.Plan = []poolsim.Step{all(3),
			{Kind: "submit", Flavor: "fresh-v1", Seed: 71 + seed}, {Kind: "mine"},
			{Kind: "submit", Flavor: "merge-old-v1", Seed: 72 + seed}, {Kind: "mine"},
			{Kind: "empty-fork"},
			{Kind: "submit", Flavor: "spend-as-block:5", Seed: 73 + seed},
			{Kind: "confirm-old", N: 0},
			{Kind: "submit", Flavor: "fresh-v1", Seed: 74 + seed}, {Kind: "mine"}}
		out = append(out, c)
	}
	// pooled v2 storage proofs (some with the tip as proof index) followed by another transaction, then a
	// reorg that fails and is rolled back: the listing and the lookups must still agree
	c = poolsim.Case{Seed: seed*977 + 2000, Regime: 2, Opts: chaingen.GenOpts{Blocks: 12, Branchiness: 0, TxPerBlock: 3, Kinds: []string{"v2-form", "v2-form", "v2-transfer", "v2-siafund"}}}
	c.Plan = []poolsim.Step{all(3)}
	for n := 4; n <= 12; n++ {
		c.Plan = append(c.Plan, poolsim.Step{Kind: "submit", Flavor: "builder:v2-proof", Seed: uint64(n) * 17}, poolsim.Step{Kind: "submit", Flavor: "fresh-v2", Seed: uint64(n) * 19},
			poolsim.Step{Kind: "fail-reorg", Seed: uint64(n) * 23}, poolsim.Step{Kind: "chain", Op: mgrsim.Op{Kind: "add", Nodes: []int{n}}})
	}
	out = append(out, c)
	// reorgs that fail after a valid block of the other branch was applied (and two blocks of the own branch
	// reverted) and are rolled back; the applied side block spends an input of a pooled transaction
	for _, regime := range []int{2, 0, 1} {
		c = lin(regime, 5)
		c.Seed += 4000
		kind := map[int]string{2: "v2", 0: "v1", 1: "v2"}[regime]
		c.Plan = []poolsim.Step{all(5),
			{Kind: "submit", Flavor: "fresh-" + kind, Seed: 51 + seed}, {Kind: "submit", Flavor: "chain-" + kind, Seed: 52 + seed}, {Kind: "submit", Flavor: "fresh-" + kind, Seed: 53 + seed},
			{Kind: "fail-reorg", Seed: 54 + seed},
			{Kind: "submit", Flavor: "fresh-" + kind, Seed: 55 + seed}, {Kind: "mine"},
			{Kind: "fail-reorg", Seed: 56 + seed}, {Kind: "mine"}}
		out = append(out, c)
	}
	// a well filled pool that is not full (8 chains x 5 x ~450 kB = 18e6 of 20e6), then a refused set
	// whose new members are heavy: nothing may leave the pool
	c = lin(2, 3)
	c.Seed += 104
	c.Plan = []poolsim.Step{all(3), {Kind: "fill", Flavor: "v2:8:450000", N: 5, Seed: 31 + seed}, {Kind: "submit", Flavor: "heavy-set-conflict-v2", Seed: 32 + seed}, {Kind: "submit", Flavor: "fresh-v2", Seed: 33}}
	out = append(out, c)
	c = lin(0, 3)
	c.Seed += 105
	c.Plan = []poolsim.Step{all(3), {Kind: "fill", Flavor: "v1:8:450000", N: 5, Seed: 34 + seed}, {Kind: "submit", Flavor: "heavy-set-conflict-v1", Seed: 35 + seed}, {Kind: "submit", Flavor: "fresh-v1", Seed: 36}}
	out = append(out, c)
	// a full pool: eviction by fee rate
	c = lin(2, 3)
	c.Plan = []poolsim.Step{all(3), {Kind: "fill", Flavor: "v2", N: 3, Seed: 5 + seed}, {Kind: "submit", Flavor: "fresh-v2", Seed: 6}, {Kind: "mine"}}
	out = append(out, c)
	c = lin(0, 3)
	c.Plan = []poolsim.Step{all(3), {Kind: "fill", Flavor: "v1", N: 3, Seed: 7 + seed}, {Kind: "submit", Flavor: "fresh-v1", Seed: 8}, {Kind: "mine"}}
	out = append(out, c)
	return out
}

func run(c *hx.Ctx) {
	res := c.Res
	res.Shard = 20
	res.Rule = "fork trees of real mined blocks (3 hardfork regimes, every transaction kind in the blocks) x histories interleaving block submissions (reorgs that confirm, unconfirm and invalidate pooled transactions) with pool submissions (fresh, parent/child, ephemeral, stale basis, conflicting, invalid, partly known, every generator transaction kind, wrong basis, corrupted proof), mining on the node, directed histories (window ending at the v2 require height, exactly full block, full pool); non-trivial := a reorg with reverts happened while the pool was non-empty and some set was accepted; distinct by (tree seed, plan)"
	var cases []string
	t0 := time.Now()
	// when the pool is full is a parameter of the implementation: measured, not assumed
	if note := poolsim.ProbeCapacity(1); note != "" {
		res.Notes = append(res.Notes, note)
	}
	res.CountN("pool-capacity-in-block-weights", int(poolsim.CapBlocks))
	doCase := func(cs poolsim.Case) {
		coq, f, st, r := runCase(cs, true)
		js, _ := json.Marshal(cs)
		res.Eval(string(js), st["reorgs-with-reverts"] > 0 && st["sets-accepted"] > 0)
		for k, v := range st {
			res.CountN(k, v)
		}
		if r != nil {
			res.CountN("calls", r.Steps())
		}
		res.Count("regime:" + chaingen.RegimeNames[cs.Regime])
		if f != nil && res.Distribution["fail:"+f.kind] >= 3 {
			res.Count("fail:" + f.kind)
		} else if f != nil {
			small := poolsim.Shrink(cs, f.kind, func(d poolsim.Case) string {
				_, f2, _, _ := runCase(d, false)
				if f2 == nil {
					return ""
				}
				return f2.kind
			})
			_, f2, _, _ := runCase(small, false)
			if f2 == nil || f2.kind != f.kind {
				f2, small = f, cs
			}
			var plan []string
			for _, s := range small.Plan {
				plan = append(plan, s.String())
			}
			res.Fail(f2.kind, f2.detail, map[string]any{"case": small, "plan": plan})
		}
		if coq != "" {
			cases = append(cases, coq)
		}
		if len(res.Samples) < 2 {
			var plan []string
			for _, s := range cs.Plan {
				plan = append(plan, s.String())
			}
			res.Sample(map[string]any{"regime": chaingen.RegimeNames[cs.Regime], "plan": plan})
		}
	}
	if c.Replay != "" {
		var rp struct {
			Replay struct {
				Case poolsim.Case `json:"case"`
			} `json:"replay"`
		}
		b, _ := os.ReadFile(c.Replay)
		json.Unmarshal(b, &rp)
		doCase(rp.Replay.Case)
		res.WriteCases("Run.Run_C05", cases)
		return
	}
	for _, cs := range poolsim.Corpus("C05") {
		doCase(cs)
	}
	for _, cs := range corpus(c.Seed) {
		doCase(cs)
	}
	n := c.Scale(150, 4000)
	for i := 0; i < n; i++ {
		g := c.R.Fork()
		cs := poolsim.Case{Seed: g.U64(), Regime: []int{1, 2, 0, 1, 2, 4}[i%6], Opts: chaingen.GenOpts{Blocks: 5 + g.Intn(10), Branchiness: 2 + g.Intn(4), TxPerBlock: g.Intn(3), Jitter: g.Intn(3)}}
		if i%10 == 9 {
			cs.Opts.Corruptions, cs.Opts.OnInvalid = 1+g.Intn(2), g.Intn(2) // monitors only
		}
		var t *chaingen.Tree
		func() {
			defer func() {
				if p := recover(); p != nil {
					// blocks built from the lists the manager returned no longer replay: they share memory with the pool
					res.Fail("c05-generated-chain-corrupted", fmt.Sprint("building the fork tree with the chain generator (blocks mined from PoolTransactions/V2PoolTransactions on a linear node) failed: ", p), map[string]any{"case": cs})
					t = nil
				}
			}()
			t = cs.Tree()
		}()
		if t == nil {
			continue
		}
		cs.Plan = poolsim.GenPlan(rng.New(cs.Seed^0x5ca1ab1e), t, flavors, 2)
		if i%2 == 0 {
			// every second history: two reorgs to a sibling branch built from the pool, somewhere in the second half
			for k := 0; k < 2; k++ {
				at := len(cs.Plan)/2 + g.Intn(len(cs.Plan)/2+1)
				cs.Plan = append(cs.Plan[:at:at], append([]poolsim.Step{{Kind: "side-reorg", Seed: g.U64()}}, cs.Plan[at:]...)...)
			}
		}
		if cs.Opts.Corruptions > 0 {
			// (these histories are monitors-only anyway) a reorg that fails half way, then more of the same
			cs.Plan = append(cs.Plan, poolsim.Step{Kind: "fail-reorg", Seed: g.U64()}, poolsim.Step{Kind: "submit", Flavor: "fresh-v2", Seed: g.U64()}, poolsim.Step{Kind: "mine"})
		}
		if i%3 == 1 {
			// a stretch of block submissions without any pool read, sometimes begun by a refused set
			cs.Plan = poolsim.QuietStretch(g, cs.Plan)
		}
		doCase(cs)
	}
	res.Notes = append(res.Notes, fmt.Sprintf("harness time %.1fs", time.Since(t0).Seconds()))
	res.WriteCases("Run.Run_C05", cases)
}
