package main

// C20: seed phrases and derived keys round-trip exactly.
//
// The real encodeBIP39Phrase / decodeBIP39Phrase / bip39checksum (exported by the
// add-only, verif-tagged wallet/export_verif.go) and the public SeedFromPhrase /
// KeyFromSeed / NewSeedPhrase are driven with entropies and phrases; the
// observations are
//   - judged by monitors against oracles that are not the code under test
//     (math/big for the 11-bit grouping, crypto/sha256 for the checksum,
//     core's blake2b and crypto/ed25519 for the derivation), see monitors.go;
//   - written as cases for the Coq model Wallet/Seed.v (Run/Run_C20.v): for an
//     encode case the entropy halves, the value of the real bip39checksum and the
//     twelve observed word indices; for a decode case the tokens, the entropy the
//     harness computed independently, the real checksum of it, and the observed
//     result.

import (
	"encoding/hex"
	"encoding/json"
	"fmt"
	"os"
	"strings"

	"go.sia.tech/coreutils/wallet"
	"verif/harness/internal/hx"
	"verif/harness/internal/out"
	"verif/harness/internal/rng"
)

func main() { hx.Main("C20", runC20) }

// token is one whitespace separated field of a phrase: a word of the list
// (Idx >= 0) or any other string (Idx == -1).
type token struct {
	Idx  int    `json:"idx"`
	Text string `json:"text"`
}

type replay struct {
	Mode    string   `json:"mode"` // encode | decode | phrase | derive
	Entropy string   `json:"entropy,omitempty"`
	Tokens  []string `json:"tokens,omitempty"`
	Seps    []string `json:"seps,omitempty"` // len(tokens)+1 separators (phrase mode)
	Phrase  string   `json:"phrase,omitempty"`
	Index   uint64   `json:"index,omitempty"`
	History []hOp    `json:"history,omitempty"` // history mode: the calls, in order
}

type h20 struct {
	c       *hx.Ctx
	res     *out.Result
	words   []string
	index   map[string]int // the harness's own inverse of the word list
	cases   []string
	maxCoq  int
	keySeen map[string]string
}

func (h *h20) addCase(s string) {
	if len(h.cases) < h.maxCoq {
		h.cases = append(h.cases, s)
	} else {
		h.res.Count("coq-budget-exhausted")
	}
}

func (h *h20) tokenOf(s string) token {
	if i, ok := h.index[s]; ok {
		return token{i, s}
	}
	return token{-1, s}
}

func (h *h20) wordTokens(idx [12]int) []token {
	ts := make([]token, 12)
	for i, v := range idx {
		ts[i] = token{v, h.words[v]}
	}
	return ts
}

func texts(ts []token) []string {
	s := make([]string, len(ts))
	for i, t := range ts {
		s[i] = t.Text
	}
	return s
}

func coqTokens(ts []token) string {
	s := make([]string, len(ts))
	for i, t := range ts {
		if t.Idx >= 0 {
			s[i] = fmt.Sprintf("Word %d", t.Idx)
		} else {
			s[i] = "Unknown"
		}
	}
	return out.List(s)
}

// ---- the real functions, with panics turned into observations ----

func realEncode(e [16]byte) (phrase string, pan string) {
	defer func() {
		if r := recover(); r != nil {
			pan = fmt.Sprint(r)
		}
	}()
	ee := e
	return wallet.VerifEncodeBIP39Phrase(&ee), ""
}

func realDecode(phrase string) (e [16]byte, err error, pan string) {
	defer func() {
		if r := recover(); r != nil {
			pan = fmt.Sprint(r)
		}
	}()
	err = wallet.VerifDecodeBIP39Phrase(&e, phrase)
	return
}

func realChecksum(e [16]byte) uint64 { return wallet.VerifBIP39Checksum(&e) }

func hilo(e [16]byte) (hi, lo uint64) {
	for i := 0; i < 8; i++ {
		hi = hi<<8 | uint64(e[i])
		lo = lo<<8 | uint64(e[8+i])
	}
	return
}

// ---- encode ----

// encodeOnce runs the real encoder on e, evaluates the monitors and returns the
// projected observation (word indices; 4095 for a word that is not in the list).
func (h *h20) encodeOnce(e [16]byte) (obs []uint64, kind, detail string) {
	phrase, pan := realEncode(e)
	if pan != "" {
		return nil, "bip39-encode-panics", fmt.Sprintf("encodeBIP39Phrase(%x) panicked: %s", e, pan)
	}
	fields := strings.Split(phrase, " ")
	for _, f := range fields {
		if i, ok := h.index[f]; ok {
			obs = append(obs, uint64(i))
		} else {
			obs = append(obs, 4095)
		}
	}
	kind, detail = monitorEncode(h, e, phrase, fields)
	return
}

func (h *h20) checkEncode(e [16]byte, toCoq bool, tag string) {
	obs, kind, detail := h.encodeOnce(e)
	h.res.Eval("enc:"+hex.EncodeToString(e[:]), e != [16]byte{})
	h.res.Count("encode:" + tag)
	if kind != "" {
		small := shrinkEntropy(e, func(x [16]byte) bool { _, k, _ := h.encodeOnce(x); return k == kind })
		_, _, d2 := h.encodeOnce(small)
		h.res.Fail(kind, d2, replay{Mode: "encode", Entropy: hex.EncodeToString(small[:])})
		_ = detail
	}
	if toCoq {
		hi, lo := hilo(e)
		h.addCase(fmt.Sprintf("CEnc %d %d %d %s", hi, lo, realChecksum(e), out.NList(obs)))
	}
}

// ---- decode ----

type decObs struct {
	ok     bool
	e      [16]byte
	errTxt string // quoted in failure details only; nothing is decided from it
	pan    string
}

func (o decObs) coq() string {
	if o.pan != "" {
		return "OErr 99"
	}
	if o.ok {
		hi, lo := hilo(o.e)
		return fmt.Sprintf("OOk %d %d", hi, lo)
	}
	return "OErr 0" // rejected; the number is an unused annotation (the runner ignores it)
}

func observeDecode(phrase string) decObs {
	e, err, pan := realDecode(phrase)
	if pan != "" {
		return decObs{pan: pan}
	}
	if err != nil {
		return decObs{errTxt: err.Error()}
	}
	return decObs{ok: true, e: e}
}

// decodeOnce decodes the single-space join of the tokens and evaluates the monitors.
func (h *h20) decodeOnce(ts []token) (o decObs, kind, detail string) {
	phrase := strings.Join(texts(ts), " ")
	o = observeDecode(phrase)
	kind, detail = monitorDecode(h, ts, phrase, o)
	return
}

func (h *h20) checkDecode(ts []token, toCoq bool, tag string) decObs {
	o, kind, _ := h.decodeOnce(ts)
	wellformed := len(ts) == 12
	for _, t := range ts {
		wellformed = wellformed && t.Idx >= 0
	}
	h.res.Eval("dec:"+strings.Join(texts(ts), " "), wellformed)
	h.res.Count("decode:" + tag)
	switch {
	case o.pan != "":
		h.res.Count("decode-result:panic")
	case o.ok:
		h.res.Count("decode-result:ok")
	default: // counted by the structure of the phrase the harness built, never by the error text
		switch {
		case len(ts) != 12 && !allKnown(ts):
			h.res.Count("decode-result:rejected:wrong-count-and-unknown-word")
		case len(ts) != 12:
			h.res.Count("decode-result:rejected:wrong-count")
		case !allKnown(ts):
			h.res.Count("decode-result:rejected:unknown-word")
		default:
			h.res.Count("decode-result:rejected:twelve-list-words")
		}
	}
	if kind != "" {
		small := shrinkTokens(h, ts, func(x []token) bool { _, k, _ := h.decodeOnce(x); return k == kind })
		_, _, d2 := h.decodeOnce(small)
		h.res.Fail(kind, d2, replay{Mode: "decode", Tokens: texts(small)})
	}
	if toCoq {
		var h0, l0, c uint64
		if wellformed {
			var idx [12]int
			for i, t := range ts {
				idx[i] = t.Idx
			}
			e0, _ := refDecode(idx)
			h0, l0 = hilo(e0)
			c = realChecksum(e0)
		}
		h.addCase(fmt.Sprintf("CDec %s %d %d %d (%s)", coqTokens(ts), h0, l0, c, o.coq()))
	}
	return o
}

func allKnown(ts []token) bool {
	for _, t := range ts {
		if t.Idx < 0 {
			return false
		}
	}
	return true
}

func (h *h20) checkDecodeIdx(idx [12]int, toCoq bool, tag string) decObs {
	return h.checkDecode(h.wordTokens(idx), toCoq, tag)
}

// ---- shrinking ----

func shrinkEntropy(e [16]byte, fails func([16]byte) bool) [16]byte {
	for changed := true; changed; {
		changed = false
		for i := 0; i < 16; i++ {
			if e[i] != 0 {
				x := e
				x[i] = 0
				if fails(x) {
					e, changed = x, true
				}
			}
		}
	}
	for b := 0; b < 128; b++ {
		if e[b/8]&(0x80>>(b%8)) != 0 {
			x := e
			x[b/8] &^= 0x80 >> (b % 8)
			if fails(x) {
				e = x
			}
		}
	}
	return e
}

func shrinkTokens(h *h20, ts []token, fails func([]token) bool) []token {
	ts = append([]token(nil), ts...)
	if len(ts) > 64 {
		return ts // thousands of words: each probe costs a full decode, keep the case as it is
	}
	for i := range ts {
		if ts[i].Idx > 0 {
			x := append([]token(nil), ts...)
			x[i] = token{0, h.words[0]}
			if fails(x) {
				ts = x
			}
		}
	}
	return ts
}

// ---- main ----

func randEntropy(r *rng.R) (e [16]byte) { r.Bytes(e[:]); return }

func runC20(c *hx.Ctx) {
	res := c.Res
	res.Rule = "entropies: BIP-39 vectors, all-zero/all-one, every single-bit pattern and its complement, uniform samples; phrases: every value of 3 word positions (all 12 in thorough; the last position always) on a seed-dependent valid base phrase, uniform 12-index sequences, forced-valid and off-by-one-nibble sequences, wrong counts, non-list tokens, whitespace variants; derivation over boundary and random indices, sequentially and from 12 (thorough: 16) goroutines at once, every concurrent result compared with the sequential reference; call histories on reused seed arrays (load, derive, overwrite in place by SeedFromPhrase / by hand, derive the same index again, other arrays in between; directed and random, sequential and from 8 goroutines), every key compared with the oracle for the array's current contents. non-trivial := encode of a non-zero entropy, or decode of exactly twelve list words (reaches the checksum comparison); distinct by entropy / token text"
	h := &h20{c: c, res: res, index: map[string]int{}, keySeen: map[string]string{}, maxCoq: c.Scale(4000, 100000)}
	h.words = wallet.VerifBIP39WordList()
	if !checkWordList(h) {
		res.WriteCases("Run.Run_C20", nil)
		return
	}

	res.Explored = map[string]any{}
	mod := tieModel(h) // regenerate the model from seed.go, compare with Seed.v, compile SeedGen.v

	if c.Replay != "" {
		h.replay(c.Replay)
		res.WriteCases(mod, h.cases)
		return
	}
	r := c.R

	// 1. corpus: BIP-39 test vectors for 128 bits
	for _, v := range bip39Vectors {
		var e [16]byte
		b, _ := hex.DecodeString(v.entropy)
		copy(e[:], b)
		checkVector(h, e, v.phrase)
		h.checkEncode(e, true, "vector")
		ts := make([]token, 0, 12)
		for _, w := range strings.Split(v.phrase, " ") {
			ts = append(ts, h.tokenOf(w))
		}
		h.checkDecode(ts, true, "vector")
	}

	// 2. all-zero, all-one, every single-bit entropy and its complement
	var pats [][16]byte
	var zero, ones [16]byte
	for i := range ones {
		ones[i] = 0xFF
	}
	pats = append(pats, zero, ones)
	for b := 0; b < 128; b++ {
		var e [16]byte
		e[b/8] = 0x80 >> (b % 8)
		var n [16]byte
		for i := range n {
			n[i] = ^e[i]
		}
		pats = append(pats, e, n)
	}
	for i, e := range pats {
		h.checkEncode(e, true, "bit-pattern")
		h.checkDecodeIdx(refEncode(e), c.Thorough || i%3 == 0, "bit-pattern")
	}

	// 3. uniform entropies: the first ones also go to Coq
	nCoq, nGo := c.Scale(250, 12000), c.Scale(4000, 1000000)
	for i := 0; i < nGo; i++ {
		e := randEntropy(r)
		h.checkEncode(e, i < nCoq, "uniform")
		if i < nCoq {
			h.checkDecodeIdx(refEncode(e), true, "uniform-valid")
		}
	}

	// 4. every value of single word positions on a valid base phrase
	base := refEncode(randEntropy(r))
	positions := []int{11, int(2*c.Seed) % 11, int(2*c.Seed+1) % 11}
	if c.Thorough {
		positions = []int{0, 1, 2, 3, 4, 5, 6, 7, 8, 9, 10, 11}
	}
	res.Explored["sweep_positions"] = positions
	res.Explored["sweep_base"] = strings.Join(texts(h.wordTokens(base)), " ")
	for _, p := range positions {
		idx := base
		for v := 0; v < 2048; v++ {
			idx[p] = v
			_, nib := refDecode(idx)
			e0, _ := refDecode(idx)
			valid := refNibble(e0) == nib
			// all valid ones and a rotating 1/16 of the others are also evaluated by the model
			toCoq := c.Thorough || valid || (v+int(c.Seed))%16 == 0
			h.checkDecodeIdx(idx, toCoq, fmt.Sprintf("sweep-pos-%d", p))
		}
	}

	// 5. uniform 12-index sequences (15/16 invalid), forced-valid ones, off-by-one nibbles
	nSeq := c.Scale(300, 12000)
	for i := 0; i < nSeq; i++ {
		var idx [12]int
		for k := range idx {
			idx[k] = r.Intn(2048)
		}
		switch i % 3 {
		case 1: // make the checksum right
			e0, _ := refDecode(idx)
			idx[11] = idx[11]&^0xF | refNibble(e0)
		case 2: // right checksum, then one nibble bit flipped
			e0, _ := refDecode(idx)
			idx[11] = idx[11]&^0xF | (refNibble(e0) ^ (1 << r.Intn(4)))
		}
		h.checkDecodeIdx(idx, true, []string{"seq-uniform", "seq-forced-valid", "seq-nibble-flipped"}[i%3])
	}

	// 6. malformed phrases
	runMalformed(h, r)

	// 7. whitespace variants
	runWhitespace(h, r)

	// 8. seed / key derivation
	runDerivation(h, r)

	// 9. the same derivations from many goroutines at once
	runConcurrency(h, r)

	// 10. call histories: seed arrays reused and overwritten in place, the same index again
	runHistories(h, r)

	// 11.-13. generalisation pass: extreme sizes, boundary shapes, phrase-level call histories
	runExtremes(h, r)
	runBoundaries(h, r)
	runPhraseHistories(h, r)

	res.Exhaustive = true // the single-position sweeps and single-bit patterns are enumerated, not sampled
	res.Sample(map[string]any{"entropy": "00000000000000000000000000000000", "phrase": first(realEncode(zero))})
	e := randEntropy(r)
	res.Sample(map[string]any{"entropy": hex.EncodeToString(e[:]), "phrase": first(realEncode(e)), "indices": refEncode(e), "checksum_nibble": refNibble(e)})
	res.WriteCases(mod, h.cases)
}

func first(s string, _ string) string { return s }

func (h *h20) replay(path string) {
	var rp struct {
		Replay replay `json:"replay"`
	}
	b, err := os.ReadFile(path)
	if err != nil {
		h.res.Notes = append(h.res.Notes, "replay file unreadable: "+err.Error())
		return
	}
	json.Unmarshal(b, &rp)
	p := rp.Replay
	var e [16]byte
	if p.Entropy != "" {
		x, _ := hex.DecodeString(p.Entropy)
		copy(e[:], x)
	}
	switch p.Mode {
	case "encode":
		h.checkEncode(e, true, "replay")
	case "decode":
		ts := make([]token, len(p.Tokens))
		for i, s := range p.Tokens {
			ts[i] = h.tokenOf(s)
		}
		h.checkDecode(ts, true, "replay")
	case "phrase":
		ts := make([]token, len(p.Tokens))
		for i, s := range p.Tokens {
			ts[i] = h.tokenOf(s)
		}
		checkWhitespace(h, ts, p.Seps)
	case "derive":
		checkDerivation(h, e, []uint64{p.Index})
	case "history":
		h.checkHistory(p.History, true, "replay")
	case "phrase-history": // the whole stage: the failing history is one of its directed or seeded ones
		runPhraseHistories(h, h.c.R)
	case "concurrent": // the schedule is not replayable: the whole concurrent stage is run again
		runConcurrency(h, h.c.R)
	case "vector":
		checkVector(h, e, p.Phrase)
	}
}
