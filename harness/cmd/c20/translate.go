package main

// A small go/ast translator for the straight-line uint64 subset that
// encodeBIP39Phrase and decodeBIP39Phrase of wallet/seed.go are written in.
// On every run it regenerates the four Gallina definitions enc_loop, encode,
// dec_loop, decode_res from the current source. The result is used twice:
//   - its text is compared (comments and layout aside) with the marked region of
//     coq/Wallet/Seed.v: if equal, the theorems of Props/C20.v are about exactly
//     the arithmetic that is in seed.go, for all inputs (the tie is syntactic);
//   - it is compiled into the run directory (SeedGen.v) and every case is
//     evaluated against it as well as against Seed.v, so that after a refactoring
//     that changes the text the two are still compared on the generated cases.
// Expressions and assignments are translated by the shared package
// harness/internal/gotr (dialect: shl64 / shr64 of Seed.v; bip39checksum, wordMap and
// the word list through hooks); this file adds the control skeleton of the two
// functions (the two loops, the word slice, the three error returns).
// Every Go assignment becomes a shadowing `let`, so statement order is kept.
// Anything outside the subset makes the translation fail with a message; the
// check then falls back to the hand-written model alone and says so in its notes.

import (
	"fmt"
	"go/ast"
	"go/parser"
	gotoken "go/token"
	"go/types"
	"os"
	"os/exec"
	"path/filepath"
	"regexp"
	"strings"

	"verif/harness/internal/gotr"
)

type trans struct {
	fset *gotoken.FileSet
	g    *gotr.Tr
}

type unsupported = gotr.Unsupported

func newTrans(fset *gotoken.FileSet) *trans {
	t := &trans{fset: fset, g: gotr.New(fset)}
	t.g.Dialect = gotr.Dialect{
		Shl: func(a, k string, bits int) string { return "shl64 " + a + " " + k },
		Shr: func(a, k string, bits int) string { return "shr64 " + a + " " + k },
	}
	t.g.CallHook = func(g *gotr.Tr, c *ast.CallExpr, want gotr.Type) (string, gotr.Type, bool) {
		if types.ExprString(c) == "bip39checksum(entropy)" {
			return "cks e_hi e_lo", gotr.U64, true
		}
		return "", gotr.Untyped, false
	}
	return t
}

// hooks installs the lookups; words is the name of the token slice (decode) or "words" (encode).
func (t *trans) hooks(words string) {
	t.g.IndexHook = func(g *gotr.Tr, x *ast.IndexExpr, want gotr.Type) (string, gotr.Type, bool) {
		if id, ok := x.X.(*ast.Ident); ok {
			switch id.Name {
			case "wordMap": // zero value for a missing key
				return "idx " + atom(t.tokExpr(x.Index, words)), gotr.U64, true
			case "bip39EnglishWordList": // a word is its index
				s, _ := g.Expr(x.Index, gotr.U64)
				return s, gotr.U64, true
			}
		}
		return "", gotr.Untyped, false
	}
}

func (t *trans) fail(n ast.Node, format string, a ...any) { t.g.Fail(n, format, a...) }

func (t *trans) src(n ast.Node) string { return t.g.Src(n) }

func atom(s string) string { return gotr.Atom(s) }

// tokExpr translates a string-typed expression denoting a token of the phrase.
func (t *trans) tokExpr(e ast.Expr, words string) string {
	switch x := e.(type) {
	case *ast.Ident:
		return x.Name
	case *ast.IndexExpr:
		if id, ok := x.X.(*ast.Ident); ok && id.Name == words {
			return fmt.Sprintf("nth %s %s Unknown", atom(t.natExpr(x.Index, words)), words)
		}
	}
	t.fail(e, "unsupported token expression %s", types.ExprString(e))
	return ""
}

// natExpr translates an int-typed index expression over len(words).
func (t *trans) natExpr(e ast.Expr, words string) string {
	switch x := e.(type) {
	case *ast.BasicLit:
		if x.Kind == gotoken.INT {
			return x.Value
		}
	case *ast.ParenExpr:
		return t.natExpr(x.X, words)
	case *ast.CallExpr:
		if types.ExprString(x) == "len("+words+")" {
			return "length " + words
		}
	case *ast.BinaryExpr:
		if x.Op == gotoken.SUB || x.Op == gotoken.ADD {
			return fmt.Sprintf("%s %s %s", t.natExpr(x.X, words), x.Op, atom(t.natExpr(x.Y, words))) // application binds tighter, - and + associate to the left
		}
	}
	t.fail(e, "unsupported index expression %s", types.ExprString(e))
	return ""
}

// expr translates a uint64-typed expression.
func (t *trans) expr(e ast.Expr, words string) string {
	t.hooks(words)
	s, _ := t.g.Expr(e, gotr.U64)
	return s
}

// assign translates `x = e`, `x := e`, `x op= e` on a uint64 variable into a let.
func (t *trans) assign(s *ast.AssignStmt, words string) string {
	t.hooks(words)
	if len(s.Lhs) != 1 || len(s.Rhs) != 1 {
		t.fail(s, "unsupported assignment %s", t.src(s))
	}
	ls := t.g.AssignLets(s)
	if len(ls) != 1 {
		t.fail(s, "unsupported assignment %s", t.src(s))
	}
	return ls[0]
}

var reEntropyHalf = regexp.MustCompile(`^binary\.BigEndian\.Uint64\(entropy\[(:8|8:)\]\)$`)
var reMake = regexp.MustCompile(`^make\(\[\]string, (\d+)\)$`)
var rePut = regexp.MustCompile(`^binary\.BigEndian\.PutUint64\(entropy\[(:8|8:)\], (\w+)\)$`)

func half(s string) string {
	if s == ":8" {
		return "e_hi"
	}
	return "e_lo"
}

// onlyAssigns checks that a loop body assigns to nothing but the given variables.
func (t *trans) checkLoopVars(lets []string, allowed ...string) {
	for _, l := range lets {
		name := strings.Fields(l)[1]
		ok := false
		for _, a := range allowed {
			ok = ok || a == name
		}
		if !ok {
			panic(unsupported{Msg: "loop body assigns to " + name + ", which the loop template does not carry"})
		}
	}
}

// encode translates encodeBIP39Phrase.
func (t *trans) encode(fd *ast.FuncDecl) (loop, def string) {
	var lets []string
	k, stored, looped, returned := "", false, false, false
	for _, st := range fd.Body.List {
		if returned {
			t.fail(st, "statement after return")
		}
		switch s := st.(type) {
		case *ast.AssignStmt:
			if looped {
				t.fail(s, "assignment after the loop: %s", t.src(s))
			}
			text := t.src(s)
			if len(s.Lhs) == 1 && len(s.Rhs) == 1 {
				r := types.ExprString(s.Rhs[0])
				if m := reEntropyHalf.FindStringSubmatch(r); m != nil && s.Tok == gotoken.DEFINE {
					lets = append(lets, fmt.Sprintf("let %s := %s in", t.src(s.Lhs[0]), half(m[1])))
					t.g.Env[t.src(s.Lhs[0])] = gotr.U64
					continue
				}
				if m := reMake.FindStringSubmatch(r); m != nil && t.src(s.Lhs[0]) == "words" {
					k = m[1]
					continue
				}
				if ix, ok := s.Lhs[0].(*ast.IndexExpr); ok {
					if t.src(ix.X) == "words" && types.ExprString(ix.Index) == "len(words) - 1" && !stored && s.Tok == gotoken.ASSIGN {
						lets = append(lets, fmt.Sprintf("let words := [%s] in", t.expr(s.Rhs[0], "words")))
						stored = true
						continue
					}
					t.fail(s, "unsupported store %s", text)
				}
			}
			lets = append(lets, t.assign(s, "words"))
		case *ast.ForStmt:
			if k == "" || !stored || looped {
				t.fail(s, "loop before the last word is stored")
			}
			if s.Init == nil || s.Cond == nil || s.Post == nil || t.src(s.Init) != "i := len(words) - 2" || t.src(s.Cond) != "i >= 0" || t.src(s.Post) != "i--" {
				t.fail(s, "loop header is not `for i := len(words) - 2; i >= 0; i--`")
			}
			var body, vars []string
			for _, bs := range s.Body.List {
				as, ok := bs.(*ast.AssignStmt)
				if !ok {
					t.fail(bs, "unsupported statement in loop: %s", t.src(bs))
				}
				if ix, ok := as.Lhs[0].(*ast.IndexExpr); ok && len(as.Lhs) == 1 {
					if t.src(ix.X) != "words" || t.src(ix.Index) != "i" || as.Tok != gotoken.ASSIGN {
						t.fail(bs, "unsupported store %s", t.src(bs))
					}
					body = append(body, fmt.Sprintf("let words := %s :: words in", t.expr(as.Rhs[0], "words")))
					continue
				}
				l := t.assign(as, "words")
				body = append(body, l)
				vars = append(vars, l)
			}
			t.checkLoopVars(vars, "hi", "lo")
			loop = "Fixpoint enc_loop (n : nat) (hi lo : N) (words : list N) : list N :=\n  match n with\n  | O => words\n  | S n' =>\n      " +
				strings.Join(body, "\n      ") + "\n      enc_loop n' hi lo words\n  end."
			looped = true
		case *ast.ReturnStmt:
			if !looped || len(s.Results) != 1 || types.ExprString(s.Results[0]) != `strings.Join(words, " ")` {
				t.fail(s, "unsupported return %s", t.src(s))
			}
			returned = true
		default:
			t.fail(st, "unsupported statement %s", t.src(st))
		}
	}
	if !returned {
		panic(unsupported{Msg: "encodeBIP39Phrase: no return"})
	}
	def = "Definition encode (e_hi e_lo : N) : list N :=\n  " + strings.Join(lets, "\n  ") + fmt.Sprintf("\n  enc_loop (%s - 1) hi lo words.", k)
	return
}

// decode translates decodeBIP39Phrase.
func (t *trans) decode(fd *ast.FuncDecl) (loop, def string) {
	var lines []string
	words, returned := "", false
	for _, st := range fd.Body.List {
		if returned {
			t.fail(st, "statement after return")
		}
		switch s := st.(type) {
		case *ast.AssignStmt:
			if len(s.Lhs) == 1 && len(s.Rhs) == 1 && types.ExprString(s.Rhs[0]) == "strings.Fields(phrase)" && s.Tok == gotoken.DEFINE && words == "" {
				words = t.src(s.Lhs[0])
				continue
			}
			lines = append(lines, t.assign(s, words))
		case *ast.DeclStmt: // var lo, hi uint64
			gd, ok := s.Decl.(*ast.GenDecl)
			if !ok || gd.Tok != gotoken.VAR {
				t.fail(s, "unsupported declaration")
			}
			for _, sp := range gd.Specs {
				vs := sp.(*ast.ValueSpec)
				if len(vs.Values) != 0 || types.ExprString(vs.Type) != "uint64" {
					t.fail(s, "unsupported declaration %s", t.src(s))
				}
				for _, n := range vs.Names {
					lines = append(lines, fmt.Sprintf("let %s := 0 in", n.Name))
					t.g.Env[n.Name] = gotr.U64
				}
			}
		case *ast.IfStmt:
			if s.Else != nil || len(s.Body.List) != 1 {
				t.fail(s, "unsupported if")
			}
			if _, ok := s.Body.List[0].(*ast.ReturnStmt); !ok {
				t.fail(s, "unsupported if body")
			}
			cond := types.ExprString(s.Cond)
			switch {
			case s.Init != nil: // if n := len(words); n != 12
				m := regexp.MustCompile(`^n != (\d+)$`).FindStringSubmatch(cond)
				if t.src(s.Init) != "n := len("+words+")" || m == nil {
					t.fail(s, "unsupported count check %s; %s", t.src(s.Init), cond)
				}
				lines = append(lines, fmt.Sprintf("if negb (Nat.eqb (length %s) %s) then DErrCount else", words, m[1]))
			default: // if bip39checksum(entropy) != checksum
				be, ok := s.Cond.(*ast.BinaryExpr)
				if !ok || be.Op != gotoken.NEQ || !strings.Contains(cond, "bip39checksum(entropy)") {
					t.fail(s, "unsupported condition %s", cond)
				}
				lines = append(lines, fmt.Sprintf("if negb (%s =? %s) then DErrChecksum else", t.expr(be.X, words), t.expr(be.Y, words)))
			}
		case *ast.RangeStmt:
			x := types.ExprString(s.X)
			switch {
			case x == words: // membership of every word
				ok := len(s.Body.List) == 1
				if ok {
					is, isIf := s.Body.List[0].(*ast.IfStmt)
					ok = isIf && is.Init != nil && t.src(is.Init) == "_, ok := wordMap["+t.src(s.Value)+"]" && types.ExprString(is.Cond) == "!ok" && len(is.Body.List) == 1
					if ok {
						_, ok = is.Body.List[0].(*ast.ReturnStmt)
					}
				}
				if !ok {
					t.fail(s, "unsupported membership loop")
				}
				lines = append(lines, fmt.Sprintf("if negb (forallb known %s) then DErrWord else", words))
			case x == words+"[:len("+words+") - 1]":
				if loop != "" || t.src(s.Key) != "_" || s.Value == nil {
					t.fail(s, "unsupported range loop")
				}
				v := t.src(s.Value)
				var body []string
				for _, bs := range s.Body.List {
					as, ok := bs.(*ast.AssignStmt)
					if !ok {
						t.fail(bs, "unsupported statement in loop: %s", t.src(bs))
					}
					body = append(body, t.assign(as, words))
				}
				t.checkLoopVars(body, "hi", "lo")
				loop = "Fixpoint dec_loop (ts : list token) (hi lo : N) : N * N :=\n  match ts with\n  | [] => (hi, lo)\n  | " + v + " :: ts' =>\n      " +
					strings.Join(body, "\n      ") + "\n      dec_loop ts' hi lo\n  end."
				sl := s.X.(*ast.SliceExpr)
				if sl.Low != nil || sl.High == nil || sl.Slice3 {
					t.fail(s, "unsupported slice %s", x)
				}
				lines = append(lines, fmt.Sprintf("let '(hi, lo) := dec_loop (firstn %s %s) hi lo in", atom(t.natExpr(sl.High, words)), words))
			default:
				t.fail(s, "unsupported range over %s", x)
			}
		case *ast.ExprStmt:
			m := rePut.FindStringSubmatch(types.ExprString(s.X))
			if m == nil {
				t.fail(s, "unsupported call %s", t.src(s))
			}
			lines = append(lines, fmt.Sprintf("let %s := %s in", half(m[1]), m[2]))
		case *ast.ReturnStmt:
			if len(s.Results) != 1 || types.ExprString(s.Results[0]) != "nil" {
				t.fail(s, "unsupported return")
			}
			lines = append(lines, "DOk e_hi e_lo.")
			returned = true
		default:
			t.fail(st, "unsupported statement %s", t.src(st))
		}
	}
	if !returned || loop == "" || words == "" {
		panic(unsupported{Msg: "decodeBIP39Phrase: shape not recognised"})
	}
	def = fmt.Sprintf("Definition decode_res (%s : list token) : dres :=\n  ", words) + strings.Join(lines, "\n  ")
	return
}

// translateSeedGo returns the four regenerated definitions.
func translateSeedGo(path string) (text string, err error) {
	defer func() {
		if r := recover(); r != nil {
			u, ok := r.(unsupported)
			if !ok {
				panic(r)
			}
			err = fmt.Errorf("%s", u.Msg)
		}
	}()
	t := newTrans(gotoken.NewFileSet())
	f, perr := parser.ParseFile(t.fset, path, nil, 0)
	if perr != nil {
		return "", perr
	}
	var enc, dec *ast.FuncDecl
	for _, d := range f.Decls {
		if fd, ok := d.(*ast.FuncDecl); ok && fd.Recv == nil {
			switch fd.Name.Name {
			case "encodeBIP39Phrase":
				enc = fd
			case "decodeBIP39Phrase":
				dec = fd
			}
		}
	}
	if enc == nil || dec == nil {
		return "", fmt.Errorf("encodeBIP39Phrase / decodeBIP39Phrase not found in %s", path)
	}
	t.g.Env["e_hi"], t.g.Env["e_lo"] = gotr.U64, gotr.U64
	el, ed := t.encode(enc)
	t = newTrans(t.fset)
	t.g.Env["e_hi"], t.g.Env["e_lo"] = gotr.U64, gotr.U64
	dl, dd := t.decode(dec)
	return strings.Join([]string{el, ed, dl, dd}, "\n\n") + "\n", nil
}

// ---- comparing with, and compiling next to, the hand-written model ----

func stripCoqComments(s string) string { return gotr.StripCoqComments(s) }

const genBegin, genEnd = "(*GEN-BEGIN*)", "(*GEN-END*)"

// modelRegion returns the marked region of Wallet/Seed.v, normalised.
func modelRegion(seedV string) (string, error) {
	b, err := os.ReadFile(seedV)
	if err != nil {
		return "", err
	}
	s := string(b)
	i, j := strings.Index(s, genBegin), strings.Index(s, genEnd)
	if i < 0 || j < i {
		return "", fmt.Errorf("markers not found in %s", seedV)
	}
	return stripCoqComments(s[i+len(genBegin) : j]), nil
}

// tieModel regenerates the definitions from repo/wallet/seed.go, compares them with
// Seed.v and compiles SeedGen.v into the run directory. It returns the module
// string for WriteCases (with or without the regenerated module).
func tieModel(h *h20) string {
	const plain = "Run.Run_C20"
	verif := gotr.VerifRoot()
	note := func(s string) { h.res.Notes = append(h.res.Notes, s) }
	if err := gotr.SelfCheck(); err != nil {
		h.res.Count("model-tie:translator-self-check-failed")
		note("go/ast translator (gotr): " + strings.Join(strings.Fields(err.Error()), " ") + "; nothing is regenerated on this run, the model is tied by the generated cases only")
		return plain
	}
	gen, err := translateSeedGo(filepath.Join(h.c.Repo, "wallet", "seed.go"))
	if err != nil {
		h.res.Count("model-tie:translator-unsupported")
		note("go/ast translator: wallet/seed.go is outside the translated subset (" + err.Error() + "); the model is tied by the generated cases only")
		return plain
	}
	os.WriteFile(filepath.Join(h.res.Dir(), "seed_go_regenerated.v.txt"), []byte(gen), 0o644)
	region, rerr := modelRegion(filepath.Join(verif, "coq", "Wallet", "Seed.v"))
	same := rerr == nil && region == stripCoqComments(gen)
	file := "From Coq Require Import NArith List Bool.\nFrom CV Require Import Wallet.Seed Run.Run_C20.\nImport ListNotations.\nOpen Scope N_scope.\n" +
		"(* regenerated from wallet/seed.go by harness/cmd/c20/translate.go on this run *)\nSection Gen.\nVariable cks : N -> N -> N.\n\n" + gen +
		"\nEnd Gen.\nDefinition mismatches := mismatches_with encode decode_res.\n"
	os.WriteFile(filepath.Join(h.res.Dir(), "SeedGen.v"), []byte(file), 0o644)
	cmd := exec.Command("coqc", "-Q", filepath.Join(verif, "coq"), "CV", "-w", "-notation-overridden", "SeedGen.v")
	cmd.Dir = h.res.Dir()
	if outp, cerr := cmd.CombinedOutput(); cerr != nil {
		h.res.Count("model-tie:regenerated-does-not-compile")
		msg := string(outp)
		if len(msg) > 600 {
			msg = msg[len(msg)-600:]
		}
		note("go/ast translator: the regenerated definitions do not compile (" + cerr.Error() + ": " + msg + "); the model is tied by the generated cases only")
		return plain
	}
	if same {
		h.res.Count("model-tie:syntactic")
		note("model tie: the definitions regenerated from wallet/seed.go by the go/ast translator are textually identical (comments and layout aside) to enc_loop/encode/dec_loop/decode_res of coq/Wallet/Seed.v; every case is evaluated against both")
	} else {
		h.res.Count("model-tie:by-cases")
		note("model tie: the definitions regenerated from wallet/seed.go differ textually from coq/Wallet/Seed.v (see seed_go_regenerated.v.txt in the run directory); every case is evaluated against both (a disagreement shows as a correspondence mismatch); the theorems are about Seed.v: re-synchronise the model")
	}
	if h.res.Explored == nil {
		h.res.Explored = map[string]any{}
	}
	h.res.Explored["model_tie_syntactic"] = same
	return plain + ".\nRequire Import SeedGen"
}
