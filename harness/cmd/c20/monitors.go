package main

// Reference oracles and monitors of C20. Nothing here calls the code under test
// to decide what is right: the 11-bit grouping is done with math/big, the
// checksum with crypto/sha256, the derivation with core's blake2b and
// crypto/ed25519.

import (
	"bytes"
	"crypto/ed25519"
	"crypto/sha256"
	"encoding/binary"
	"encoding/hex"
	"fmt"
	"math/big"
	"strings"
	"unicode"

	"go.sia.tech/core/types"
	"go.sia.tech/coreutils/wallet"
	"verif/harness/internal/rng"
)

// ---- reference (BIP-39 for 128 bits) ----

func refNibble(e [16]byte) int { s := sha256.Sum256(e[:]); return int(s[0] >> 4) }

// refEncode: the twelve 11-bit groups of entropy<<4 | checksum nibble.
func refEncode(e [16]byte) (idx [12]int) {
	v := new(big.Int).SetBytes(e[:])
	v.Lsh(v, 4)
	v.Or(v, big.NewInt(int64(refNibble(e))))
	mask := big.NewInt(0x7FF)
	for k := 11; k >= 0; k-- {
		idx[k] = int(new(big.Int).And(v, mask).Int64())
		v.Rsh(v, 11)
	}
	return
}

// refDecode: the entropy and the checksum nibble twelve indices denote.
func refDecode(idx [12]int) (e [16]byte, nibble int) {
	v := new(big.Int)
	for _, x := range idx {
		v.Lsh(v, 11)
		v.Or(v, big.NewInt(int64(x)))
	}
	nibble = int(new(big.Int).And(v, big.NewInt(0xF)).Int64())
	v.Rsh(v, 4)
	v.FillBytes(e[:])
	return
}

// ---- word list ----

// checkWordList: 2048 distinct, non-empty, whitespace-free words, and the
// decoder's lookup is the inverse of the encoder's list. This is what lets the
// model identify a word with its index and a phrase with its token list.
func checkWordList(h *h20) bool {
	ok := true
	bad := func(detail string) {
		ok = false
		h.res.Fail("bip39-wordlist-malformed", detail, replay{Mode: "wordlist"})
	}
	if len(h.words) != 2048 {
		bad(fmt.Sprintf("the word list has %d entries, not 2048", len(h.words)))
		return false
	}
	for i, w := range h.words {
		if w == "" || strings.IndexFunc(w, unicode.IsSpace) >= 0 {
			bad(fmt.Sprintf("word %d (%q) is empty or contains whitespace", i, w))
		}
		if j, dup := h.index[w]; dup {
			bad(fmt.Sprintf("word %q appears at positions %d and %d", w, j, i))
		}
		h.index[w] = i
		if j, found := wallet.VerifBIP39WordIndex(w); !found || j != uint64(i) {
			bad(fmt.Sprintf("wordMap[%q] = %d,%v but the word is entry %d of the list", w, j, found, i))
		}
	}
	for _, w := range []string{"", "zzzz", "Abandon", "abandon ", "ábandon"} {
		if _, found := wallet.VerifBIP39WordIndex(w); found {
			bad(fmt.Sprintf("wordMap contains %q, which is not in the list", w))
		}
	}
	h.res.Count("wordlist-checked")
	return ok
}

// ---- monitors ----

func monitorEncode(h *h20, e [16]byte, phrase string, fields []string) (kind, detail string) {
	if len(fields) != 12 {
		return "bip39-encode-not-12-words", fmt.Sprintf("encodeBIP39Phrase(%x) = %q has %d space separated words", e, phrase, len(fields))
	}
	ref := refEncode(e)
	for i, f := range fields {
		j, ok := h.index[f]
		if !ok {
			return "bip39-encode-word-not-in-list", fmt.Sprintf("encodeBIP39Phrase(%x) = %q: word %d is not in the word list", e, phrase, i)
		}
		if j != ref[i] {
			return "bip39-encode-not-bip39", fmt.Sprintf("encodeBIP39Phrase(%x) = %q: word %d is entry %d, the 11-bit group of entropy<<4|sha256-nibble is %d (%q)", e, phrase, i, j, ref[i], h.words[ref[i]])
		}
	}
	o := observeDecode(phrase)
	switch {
	case o.pan != "":
		return "bip39-decode-panics", fmt.Sprintf("decodeBIP39Phrase(%q) panicked: %s", phrase, o.pan)
	case !o.ok:
		return "bip39-roundtrip-rejected", fmt.Sprintf("decodeBIP39Phrase(encodeBIP39Phrase(%x)) = error %q (phrase %q)", e, o.errTxt, phrase)
	case o.e != e:
		return "bip39-roundtrip-differs", fmt.Sprintf("decodeBIP39Phrase(encodeBIP39Phrase(%x)) = %x (phrase %q)", e, o.e, phrase)
	}
	return "", ""
}

func isWellformed(ts []token) bool {
	if len(ts) != 12 {
		return false
	}
	for _, t := range ts {
		if t.Idx < 0 {
			return false
		}
	}
	return true
}

// monitorDecode judges the observation o of decoding `phrase`, whose tokens are ts.
func monitorDecode(h *h20, ts []token, phrase string, o decObs) (kind, detail string) {
	if o.pan != "" {
		return "bip39-decode-panics", fmt.Sprintf("decodeBIP39Phrase(%q) panicked: %s", phrase, o.pan)
	}
	if !isWellformed(ts) {
		if o.ok {
			why := fmt.Sprintf("%d words", len(ts))
			for i, t := range ts {
				if t.Idx < 0 {
					why += fmt.Sprintf(", token %d (%q) not in the word list", i, t.Text)
				}
			}
			return "bip39-malformed-accepted", fmt.Sprintf("decodeBIP39Phrase(%q) returned no error and entropy %x although the phrase is malformed: %s", phrase, o.e, why)
		}
		return "", ""
	}
	var idx [12]int
	for i, t := range ts {
		idx[i] = t.Idx
	}
	e0, nib := refDecode(idx)
	want := refNibble(e0) == nib
	switch {
	case want && !o.ok:
		return "bip39-valid-phrase-rejected", fmt.Sprintf("decodeBIP39Phrase(%q) = error %q, but the phrase denotes entropy %x whose sha256 nibble %d is the one in the last word", phrase, o.errTxt, e0, nib)
	case !want && o.ok:
		return "bip39-bad-checksum-accepted", fmt.Sprintf("decodeBIP39Phrase(%q) returned no error (entropy %x); the phrase denotes entropy %x with sha256 nibble %d, the last word carries %d", phrase, o.e, e0, refNibble(e0), nib)
	case want && o.e != e0:
		return "bip39-decode-wrong-entropy", fmt.Sprintf("decodeBIP39Phrase(%q) = %x, the phrase denotes %x", phrase, o.e, e0)
	}
	if want {
		canon := strings.Join(texts(ts), " ")
		p2, pan := realEncode(o.e)
		if pan != "" {
			return "bip39-encode-panics", fmt.Sprintf("encodeBIP39Phrase(%x) panicked: %s", o.e, pan)
		}
		if p2 != canon {
			return "bip39-reencode-differs", fmt.Sprintf("decodeBIP39Phrase(%q) = %x re-encodes to %q", phrase, o.e, p2)
		}
	}
	return "", ""
}

// ---- BIP-39 test vectors (128 bits, English) ----

var bip39Vectors = []struct{ entropy, phrase string }{
	{"00000000000000000000000000000000", "abandon abandon abandon abandon abandon abandon abandon abandon abandon abandon abandon about"},
	{"7f7f7f7f7f7f7f7f7f7f7f7f7f7f7f7f", "legal winner thank year wave sausage worth useful legal winner thank yellow"},
	{"80808080808080808080808080808080", "letter advice cage absurd amount doctor acoustic avoid letter advice cage above"},
	{"ffffffffffffffffffffffffffffffff", "zoo zoo zoo zoo zoo zoo zoo zoo zoo zoo zoo wrong"},
	{"9e885d952ad362caeb4efe34a8e91bd2", "ozone drill grab fiber curtain grace pudding thank cruise elder eight picnic"},
	{"c0ba5a8e914111210f2bd131f3d5e08d", "scheme spot photo card baby mountain device kick cradle pact join borrow"},
	{"23db8160a31d3e0dca3688ed941adbf3", "cat swing flag economy stadium alone churn speed unique patch report train"},
	{"f30f8c1da665478f49b001d94c5fc452", "vessel ladder alter error federal sibling chat ability sun glass valve picture"},
}

func checkVector(h *h20, e [16]byte, phrase string) {
	h.res.Count("vector")
	rp := replay{Mode: "vector", Entropy: hex.EncodeToString(e[:]), Phrase: phrase}
	got, pan := realEncode(e)
	if pan != "" || got != phrase {
		h.res.Fail("bip39-test-vector-differs", fmt.Sprintf("BIP-39 test vector: entropy %x must give %q, encodeBIP39Phrase gives %q %s", e, phrase, got, pan), rp)
	}
	o := observeDecode(phrase)
	if !o.ok || o.e != e {
		h.res.Fail("bip39-test-vector-differs", fmt.Sprintf("BIP-39 test vector: %q must decode to %x, decodeBIP39Phrase gives ok=%v %x %s%s", phrase, e, o.ok, o.e, o.errTxt, o.pan), rp)
	}
}

// safely runs f and returns the panic message, if any.
func safely(f func()) (pan string) {
	defer func() {
		if r := recover(); r != nil {
			pan = fmt.Sprint(r)
		}
	}()
	f()
	return
}

// ---- malformed phrases ----

func notInList(h *h20, s string) string {
	for {
		if _, ok := h.index[s]; !ok {
			return s
		}
		s += "x"
	}
}

func runMalformed(h *h20, r *rng.R) {
	base := refEncode(randEntropy(r))
	bt := h.wordTokens(base)
	without := func(k int) []token { return append(append([]token(nil), bt[:k]...), bt[k+1:]...) }
	with := func(k int, t token) []token {
		return append(append(append([]token(nil), bt[:k]...), t), bt[k:]...)
	}
	// wrong counts
	h.checkDecode(nil, true, "count-0")
	for _, n := range []int{1, 2, 6, 10} {
		h.checkDecode(append([]token(nil), bt[:n]...), true, "count-short")
	}
	for k := 0; k < 12; k++ {
		h.checkDecode(without(k), true, "count-11")
	}
	for k := 0; k <= 12; k++ { // a valid phrase with one more list word somewhere (k = 12: appended)
		w := r.Intn(2048)
		h.checkDecode(with(k, token{w, h.words[w]}), true, "count-13")
		h.checkDecode(with(k, token{-1, "zzzz"}), true, "count-13-unknown")
	}
	h.checkDecode(append(append([]token(nil), bt...), bt[:2]...), true, "count-14")
	h.checkDecode(append(append([]token(nil), bt...), bt...), true, "count-24")
	h.checkDecode(append(append([]token(nil), bt...), bt[:11]...), true, "count-23")
	// tokens that are not in the list, at every position
	for k := 0; k < 12; k++ {
		w := bt[k].Text
		for _, s := range []string{"zzzz", strings.ToUpper(w[:1]) + w[1:], strings.ToUpper(w), w + ",", notInList(h, w+"s"), "0", fmt.Sprint(bt[k].Idx), "á" + w[1:], w + "\x00"} {
			ts := append([]token(nil), bt...)
			ts[k] = token{-1, notInList(h, s)}
			h.checkDecode(ts, k%4 == int(h.c.Seed)%4 || h.c.Thorough, "unknown-word")
		}
	}
	// a non-list token where reading it as entry 0 (the zero value of a failed map lookup)
	// would make the checksum right: only the membership test can reject these
	for k := 0; k < 12; k++ {
		var idx [12]int
		for {
			for j := range idx {
				idx[j] = r.Intn(2048)
			}
			idx[k] = 0
			e0, _ := refDecode(idx)
			if k < 11 {
				idx[11] = idx[11]&^0xF | refNibble(e0)
				break
			}
			if refNibble(e0) == 0 {
				break
			}
		}
		for _, s := range []string{"zzzz", "Abandon"} {
			ts := h.wordTokens(idx)
			ts[k] = token{-1, s}
			h.checkDecode(ts, true, "unknown-word-zero-would-pass")
		}
	}
	all := make([]token, 12)
	for k := range all {
		all[k] = token{-1, "zzzz"}
	}
	h.checkDecode(all, true, "unknown-word")
	// every wrong checksum nibble on the base phrase, and the right one
	for nib := 0; nib < 16; nib++ {
		idx := base
		idx[11] = idx[11]&^0xF | nib
		h.checkDecodeIdx(idx, true, "checksum-nibbles")
	}
	// NewSeedPhrase produces well-formed, decodable phrases
	for i := 0; i < h.c.Scale(20, 500); i++ {
		var p string
		if pan := safely(func() { p = wallet.NewSeedPhrase() }); pan != "" {
			h.res.Fail("bip39-encode-panics", "NewSeedPhrase() panicked: "+pan, replay{Mode: "new-seed-phrase"})
			continue
		}
		fs := strings.Split(p, " ")
		ts := make([]token, len(fs))
		for k, f := range fs {
			ts[k] = h.tokenOf(f)
		}
		o, kind, detail := h.decodeOnce(ts)
		h.res.Count("new-seed-phrase")
		if kind == "" && !o.ok {
			kind, detail = "bip39-new-phrase-rejected", fmt.Sprintf("NewSeedPhrase() = %q does not decode: %s", p, o.errTxt)
		}
		if kind != "" {
			h.res.Fail(kind, detail, replay{Mode: "decode", Tokens: fs})
		}
	}
}

// ---- whitespace ----

var asciiSpace = []string{" ", "\t", "\n", "\r", "\v", "\f"}
var unicodeSpace = []string{"\u0085", "\u00a0", "\u2003", "\u2028", "\u3000"}

func buildPhrase(ts []token, seps []string) string {
	var sb strings.Builder
	for i, t := range ts {
		sb.WriteString(seps[i])
		sb.WriteString(t.Text)
	}
	sb.WriteString(seps[len(ts)])
	return sb.String()
}

// whitespaceVerdict: decoding the phrase built with the separators must give
// exactly what the single-space phrase gives, and what the tokens call for.
func whitespaceVerdict(h *h20, ts []token, seps []string) (kind, detail string) {
	phrase := buildPhrase(ts, seps)
	canon := strings.Join(texts(ts), " ")
	o, b := observeDecode(phrase), observeDecode(canon)
	if k, d := monitorDecode(h, ts, canon, b); k != "" {
		return k, d // wrong already with single spaces: not a whitespace matter
	}
	if o.ok != b.ok || (o.ok && o.e != b.e) || o.pan != b.pan { // accept/reject and the entropy; not the error text
		return "bip39-whitespace-changes-result", fmt.Sprintf("decodeBIP39Phrase(%q) = (ok=%v, %x, %q) but decodeBIP39Phrase(%q) = (ok=%v, %x, %q)", phrase, o.ok, o.e, o.errTxt, canon, b.ok, b.e, b.errTxt)
	}
	var s1, s2 [32]byte
	var e1, e2 error
	if pan := safely(func() { e1, e2 = wallet.SeedFromPhrase(&s1, phrase), wallet.SeedFromPhrase(&s2, canon) }); pan != "" {
		return "bip39-decode-panics", fmt.Sprintf("SeedFromPhrase(%q) panicked: %s", phrase, pan)
	}
	if (e1 == nil) != (e2 == nil) || s1 != s2 || (e1 == nil) != o.ok {
		return "bip39-whitespace-changes-result", fmt.Sprintf("SeedFromPhrase(%q) = (%x, %v) but SeedFromPhrase(%q) = (%x, %v)", phrase, s1, e1, canon, s2, e2)
	}
	return "", ""
}

func checkWhitespace(h *h20, ts []token, seps []string) {
	h.res.Count("whitespace-variant")
	h.res.Eval("ws:"+buildPhrase(ts, seps), isWellformed(ts))
	kind, _ := whitespaceVerdict(h, ts, seps)
	if kind == "" {
		return
	}
	seps = append([]string(nil), seps...)
	for i := range seps { // shrink: one separator at a time back to the plain one
		plain := " "
		if i == 0 || i == len(seps)-1 {
			plain = ""
		}
		if seps[i] != plain {
			old := seps[i]
			seps[i] = plain
			if k, _ := whitespaceVerdict(h, ts, seps); k != kind {
				seps[i] = old
			}
		}
	}
	_, detail := whitespaceVerdict(h, ts, seps)
	h.res.Fail(kind, detail, replay{Mode: "phrase", Tokens: texts(ts), Seps: seps})
}

func runWhitespace(h *h20, r *rng.R) {
	uniform := func(n int, lead, sep, trail string) []string {
		s := make([]string, n+1)
		for i := range s {
			s[i] = sep
		}
		s[0], s[n] = lead, trail
		return s
	}
	randSep := func(min int) string {
		var sb strings.Builder
		for k := min + r.Intn(3); k > 0; k-- {
			sb.WriteString(asciiSpace[r.Intn(len(asciiSpace))])
		}
		return sb.String()
	}
	nPhr := h.c.Scale(40, 2000)
	for i := 0; i < nPhr; i++ {
		idx := refEncode(randEntropy(r))
		var ts []token
		switch i % 5 {
		case 3: // wrong checksum
			idx[11] ^= 1 << r.Intn(4)
			ts = h.wordTokens(idx)
		case 4: // eleven words
			ts = h.wordTokens(idx)[:11]
		default:
			ts = h.wordTokens(idx)
		}
		n := len(ts)
		for _, seps := range [][]string{
			uniform(n, "", "\t", ""), uniform(n, "", "\n", ""), uniform(n, "", "  ", ""), uniform(n, "", "\r\n", ""),
			uniform(n, " ", " ", ""), uniform(n, "", " ", " "), uniform(n, "\n", " ", "\n"), uniform(n, "\t ", " \t\n", " \r\n"),
			uniform(n, "", "\v", "\f"),
		} {
			checkWhitespace(h, ts, seps)
		}
		for v := 0; v < 4; v++ {
			seps := make([]string, n+1)
			for k := range seps {
				seps[k] = randSep(1)
			}
			seps[0], seps[n] = randSep(0), randSep(0)
			checkWhitespace(h, ts, seps)
		}
		// Unicode spaces: strings.Fields splits on them too. Whether a wallet should is not
		// for the property to say; recorded as an observation, never judged.
		u := unicodeSpace[r.Intn(len(unicodeSpace))]
		if i%5 >= 3 {
			continue
		}
		if o := observeDecode(buildPhrase(ts, uniform(n, "", u, ""))); o.ok {
			h.res.Count("observed:unicode-space-separates-words")
		} else {
			h.res.Count("observed:unicode-space-does-not-separate")
		}
	}
}

// ---- derivation ----

func checkDerivation(h *h20, e [16]byte, indices []uint64) {
	phrase, pan := realEncode(e)
	if pan != "" {
		return // reported by the encode monitors
	}
	fail := func(kind, detail string, i uint64) {
		h.res.Fail(kind, detail, replay{Mode: "derive", Entropy: hex.EncodeToString(e[:]), Index: i})
	}
	var s1, s2 [32]byte
	for i := range s2 {
		s2[i] = 0xAA // the result must not depend on what the buffer held
	}
	var err1, err2 error
	if pan := safely(func() { err1, err2 = wallet.SeedFromPhrase(&s1, phrase), wallet.SeedFromPhrase(&s2, phrase) }); pan != "" {
		fail("bip39-decode-panics", fmt.Sprintf("SeedFromPhrase(%q) panicked: %s", phrase, pan), 0)
		return
	}
	h.res.Count("derive:seed")
	if err1 != nil || err2 != nil {
		fail("seed-from-valid-phrase-fails", fmt.Sprintf("SeedFromPhrase(%q) = %v / %v", phrase, err1, err2), 0)
		return
	}
	if s1 != s2 {
		fail("seed-not-deterministic", fmt.Sprintf("SeedFromPhrase(%q) gave %x and then %x", phrase, s1, s2), 0)
	}
	if want := [32]byte(types.HashBytes(e[:])); s1 != want {
		fail("seed-derivation-differs-from-spec", fmt.Sprintf("SeedFromPhrase(%q) = %x, blake2b(entropy %x) = %x", phrase, s1, e, want), 0)
	}
	for _, i := range indices {
		h.res.Count("derive:key")
		h.res.Eval(fmt.Sprintf("key:%x:%d", e, i), true)
		before := s1
		var k1, k2 types.PrivateKey
		if pan := safely(func() { k1, k2 = wallet.KeyFromSeed(&s1, i), wallet.KeyFromSeed(&s1, i) }); pan != "" {
			fail("key-derivation-panics", fmt.Sprintf("KeyFromSeed(%x, %d) panicked: %s", s1, i, pan), i)
			continue
		}
		if s1 != before {
			fail("key-derivation-mutates-seed", fmt.Sprintf("KeyFromSeed(%x, %d) changed the seed to %x", before, i, s1), i)
			s1 = before
		}
		if !bytes.Equal(k1, k2) {
			fail("key-not-deterministic", fmt.Sprintf("KeyFromSeed(%x, %d) gave two different keys", s1, i), i)
		}
		a1, a2 := types.StandardUnlockHash(k1.PublicKey()), types.StandardUnlockHash(k2.PublicKey())
		if a1 != a2 {
			fail("key-not-deterministic", fmt.Sprintf("KeyFromSeed(%x, %d): addresses %v and %v", s1, i, a1, a2), i)
		}
		buf := make([]byte, 40)
		copy(buf, s1[:])
		binary.LittleEndian.PutUint64(buf[32:], i)
		hh := types.HashBytes(buf)
		if want := ed25519.NewKeyFromSeed(hh[:]); !bytes.Equal(k1, want) {
			fail("key-derivation-differs-from-spec", fmt.Sprintf("KeyFromSeed(%x, %d) public key %x, ed25519(blake2b(seed || le64 index)) has %x", s1, i, k1[32:], want[32:]), i)
		}
		id := fmt.Sprintf("%x/%d", e, i)
		for _, key := range []string{"k:" + string(k1), "a:" + a1.String()} {
			if other, dup := h.keySeen[key]; dup && other != id {
				fail("key-collision-across-indices", fmt.Sprintf("(entropy/index) %s and %s derive the same key or address %v", other, id, a1), i)
			}
			h.keySeen[key] = id
		}
	}
}

func runDerivation(h *h20, r *rng.R) {
	var zero, ones [16]byte
	for i := range ones {
		ones[i] = 0xFF
	}
	es := [][16]byte{zero, ones}
	for i := 0; i < h.c.Scale(20, 500); i++ {
		es = append(es, randEntropy(r))
	}
	for _, e := range es {
		idx := []uint64{0, 1, 2, 255, 256, 65535, 65536, 1<<32 - 1, 1 << 32, 1 << 56, 1 << 63, ^uint64(0), r.U64(), r.U64() >> 32, r.U64() >> 48}
		checkDerivation(h, e, idx)
	}
	// SeedFromPhrase rejects what decodeBIP39Phrase rejects
	bad := h.wordTokens(refEncode(randEntropy(r)))
	bad[11] = token{bad[11].Idx ^ 1, h.words[bad[11].Idx^1]}
	for _, p := range []string{"", "abandon", strings.Join(texts(bad), " "), strings.Join(texts(bad[:11]), " "), strings.Join(texts(bad[:11]), " ") + " zzzz"} {
		var s [32]byte
		h.res.Count("derive:seed-malformed")
		var err error
		if pan := safely(func() { err = wallet.SeedFromPhrase(&s, p) }); pan != "" {
			h.res.Fail("bip39-decode-panics", fmt.Sprintf("SeedFromPhrase(%q) panicked: %s", p, pan), replay{Mode: "decode", Tokens: strings.Fields(p)})
		} else if err == nil {
			h.res.Fail("bip39-malformed-accepted", fmt.Sprintf("SeedFromPhrase(%q) returned no error (seed %x)", p, s), replay{Mode: "decode", Tokens: strings.Fields(p)})
		}
	}
}
