package main

// Call histories (C20: "the same phrase and index always derive the same key and
// address"). A wallet owns its seed arrays: it loads a phrase into one with
// SeedFromPhrase, derives keys, overwrites the same array with another phrase (or
// by hand), derives again with the same index, uses other arrays in between. The
// Coq model (Wallet/Seed.v, hrun) derives every key from the current contents of
// the buffer and the index and from nothing else; an implementation that remembers
// anything across calls (a cache keyed by the array's address, by the index, by
// the previous phrase) is history dependent.
//
// Monitor: every KeyFromSeed(&buf, i) of a history must return the key (and
// address) the independent oracle ed25519(blake2b(contents || le64 i)) gives for
// the contents the buffer holds at that moment, and must leave the buffer alone.
// The failing history, shrunk, is the replay. Histories are generated directed
// (load A, derive, overwrite in place by every means, derive the same index again,
// with and without other calls in between) and at random, sequentially and from
// several goroutines that each own their buffers.
// Correspondence: the histories (buffer contents and returned keys named by ids)
// are cases for Run_C20.hist_ok.

import (
	"bytes"
	"crypto/ed25519"
	"encoding/binary"
	"encoding/hex"
	"fmt"
	"strings"
	"sync"

	"go.sia.tech/core/types"
	"go.sia.tech/coreutils/wallet"
	"verif/harness/internal/rng"
)

type hOp struct {
	Kind   string `json:"op"`               // load | write | flip | key | wipe
	Buf    int    `json:"buf"`              // which seed array
	Phrase string `json:"phrase,omitempty"` // load: SeedFromPhrase(&buf, phrase)
	Bytes  string `json:"bytes,omitempty"`  // write: the caller overwrites the array (hex)
	Byte   int    `json:"byte,omitempty"`   // flip: the caller flips the low bit of this byte
	Index  uint64 `json:"index,omitempty"`  // key: KeyFromSeed(&buf, index)
}

func (o hOp) String() string {
	switch o.Kind {
	case "load":
		return fmt.Sprintf("SeedFromPhrase(&buf%d, %q)", o.Buf, o.Phrase)
	case "write":
		return fmt.Sprintf("buf%d = %s", o.Buf, o.Bytes)
	case "flip":
		return fmt.Sprintf("buf%d[%d] ^= 1", o.Buf, o.Byte)
	case "wipe":
		return fmt.Sprintf("wipe(the key last derived from buf%d)", o.Buf)
	}
	return fmt.Sprintf("KeyFromSeed(&buf%d, %d)", o.Buf, o.Index)
}

const kindHistory = "key-derivation-depends-on-call-history"

func oracleKey(contents [32]byte, i uint64) ed25519.PrivateKey {
	buf := make([]byte, 40)
	copy(buf, contents[:])
	binary.LittleEndian.PutUint64(buf[32:], i)
	hh := types.HashBytes(buf)
	return ed25519.NewKeyFromSeed(hh[:])
}

type histResult struct {
	bad    int    // index of the first op whose result is wrong, -1 if none
	detail string // what was wrong there
	coq    string // the history as a CHist case
	keys   int
}

// runHistory performs the calls on fresh arrays and checks every derived key against the
// oracle for the array's current contents.
func runHistory(ops []hOp, nbuf int) (res histResult) {
	res.bad = -1
	bufs := make([]*[32]byte, nbuf)
	for i := range bufs {
		bufs[i] = new([32]byte)
	}
	contentID, keyID := map[[32]byte]int{}, map[string]int{}
	cid := func(c [32]byte) int {
		if _, ok := contentID[c]; !ok {
			contentID[c] = len(contentID) + 1
		}
		return contentID[c]
	}
	fail := func(i int, format string, a ...any) {
		if res.bad < 0 {
			res.bad, res.detail = i, fmt.Sprintf(format, a...)
		}
	}
	// every key the code returned, with the value it had at that moment: the caller owns it (and
	// may wipe it); no later call may change it
	type returned struct {
		at   int
		k    types.PrivateKey
		want []byte
	}
	var rets []returned
	last := make([]int, nbuf) // index into rets of the key last derived from each array, -1 if none or wiped
	for i := range last {
		last[i] = -1
	}
	var steps []string
	for i, b := range bufs { // the arrays start zeroed: the model has to know that they hold equal contents
		steps = append(steps, fmt.Sprintf("(HWrite %d [%d], 0)", i, cid(*b)))
	}
	for n, o := range ops {
		b := bufs[o.Buf]
		switch o.Kind {
		case "load":
			if pan := safely(func() { wallet.SeedFromPhrase(b, o.Phrase) }); pan != "" {
				fail(n, "%s panicked: %s", o, pan)
			}
		case "write":
			raw, _ := hex.DecodeString(o.Bytes)
			copy(b[:], raw)
		case "flip":
			b[o.Byte%32] ^= 1
		case "wipe": // the caller zeroes a key it was given (usual hygiene); not a call of the code under test
			if j := last[o.Buf]; j >= 0 {
				for x := range rets[j].k {
					rets[j].k[x] = 0
				}
				rets[j].want = nil
				last[o.Buf] = -1
			}
			continue
		case "key":
			before := *b
			var k types.PrivateKey
			if pan := safely(func() { k = wallet.KeyFromSeed(b, o.Index) }); pan != "" {
				fail(n, "%s panicked: %s", o, pan)
				steps = append(steps, fmt.Sprintf("(HKey %d %d, 0)", o.Buf, o.Index))
				continue
			}
			res.keys++
			want := oracleKey(before, o.Index)
			if !bytes.Equal(k, want) {
				fail(n, "%s returned public key %x (address %v) while the array holds %x, for which (and index %d) the key is %x (address %v)",
					o, []byte(k[32:]), types.StandardUnlockHash(k.PublicKey()), before, o.Index, []byte(want[32:]), types.StandardUnlockHash(types.PrivateKey(want).PublicKey()))
			}
			if *b != before {
				fail(n, "%s changed the seed array from %x to %x", o, before, *b)
			}
			rets = append(rets, returned{n, k, append([]byte(nil), k...)})
			last[o.Buf] = len(rets) - 1
			if _, ok := keyID[string(k)]; !ok {
				keyID[string(k)] = len(keyID) + 1
			}
			steps = append(steps, fmt.Sprintf("(HKey %d %d, %d)", o.Buf, o.Index, keyID[string(k)]))
			continue
		}
		steps = append(steps, fmt.Sprintf("(HWrite %d [%d], 0)", o.Buf, cid(*b)))
	}
	for _, rt := range rets { // judged at the end, with no call in between: results handed out earlier are still what they were
		if rt.want != nil && !bytes.Equal(rt.k, rt.want) {
			fail(len(ops)-1, "the key returned by call %d (%s) was %x when it was returned and is %x at the end of the history: a later call wrote into memory the caller owns", rt.at, ops[rt.at], rt.want[32:], []byte(rt.k[32:]))
		}
	}
	res.coq = "CHist [" + strings.Join(steps, "; ") + "]"
	return
}

func nbufOf(ops []hOp) int {
	n := 1
	for _, o := range ops {
		if o.Buf+1 > n {
			n = o.Buf + 1
		}
	}
	return n
}

func opStrings(ops []hOp) []string {
	s := make([]string, len(ops))
	for i, o := range ops {
		s[i] = o.String()
	}
	return s
}

// shrinkHistory drops calls while some key of the history is still wrong.
func shrinkHistory(ops []hOp) []hOp {
	fails := func(x []hOp) bool { return len(x) > 0 && runHistory(x, nbufOf(x)).bad >= 0 }
	if r := runHistory(ops, nbufOf(ops)); r.bad >= 0 {
		ops = append([]hOp(nil), ops[:r.bad+1]...)
	}
	for changed := true; changed; {
		changed = false
		for i := 0; i < len(ops); i++ {
			c := append(append([]hOp(nil), ops[:i]...), ops[i+1:]...)
			if fails(c) {
				ops, changed = c, true
				break
			}
		}
	}
	return ops
}

func (h *h20) checkHistory(ops []hOp, toCoq bool, tag string) {
	r := runHistory(ops, nbufOf(ops))
	h.res.Count("history:" + tag)
	h.res.CountN("history:key-derivations", r.keys)
	h.res.Eval("hist:"+strings.Join(opStrings(ops), ";"), r.keys >= 2)
	if r.bad >= 0 {
		small := shrinkHistory(ops)
		r2 := runHistory(small, nbufOf(small))
		detail := r.detail
		if r2.bad >= 0 {
			detail = r2.detail
		} else {
			small = ops // the failure needs state left by earlier histories: keep the full one
		}
		h.res.Fail(kindHistory, fmt.Sprintf("after %v: %s", opStrings(small[:len(small)-1]), detail), replay{Mode: "history", History: small})
	}
	if toCoq {
		h.addCase(r.coq)
	}
}

// histGen produces random histories over a few phrases, indices and buffers.
type histGen struct {
	phrases []string
	bad     string
	indices []uint64
}

func newHistGen(h *h20, r *rng.R) *histGen {
	g := &histGen{indices: []uint64{0, 7, 1 << 40, ^uint64(0)}}
	for i := 0; i < 4; i++ { // phrases from the reference encoder: the real one is not trusted here
		g.phrases = append(g.phrases, strings.Join(texts(h.wordTokens(refEncode(randEntropy(r)))), " "))
	}
	w := strings.Fields(g.phrases[0])
	g.bad = strings.Join(w[:11], " ") // eleven words: SeedFromPhrase fails
	return g
}

func (g *histGen) overwrite(r *rng.R, buf int) hOp {
	switch r.Intn(10) {
	case 0:
		var raw [32]byte
		r.Bytes(raw[:])
		return hOp{Kind: "write", Buf: buf, Bytes: hex.EncodeToString(raw[:])}
	case 1:
		return hOp{Kind: "flip", Buf: buf, Byte: r.Intn(32)}
	case 2:
		return hOp{Kind: "load", Buf: buf, Phrase: g.bad}
	}
	return hOp{Kind: "load", Buf: buf, Phrase: g.phrases[r.Intn(len(g.phrases))]}
}

func (g *histGen) random(r *rng.R) []hOp {
	nbuf := 1 + r.Intn(3)
	nidx := 1 + r.Intn(3) // few indices: the same one comes back often
	ops := []hOp{g.overwrite(r, 0)}
	for n := 5 + r.Intn(20); n > 0; n-- {
		b := r.Intn(nbuf)
		if x := r.Intn(100); x < 35 {
			ops = append(ops, g.overwrite(r, b))
		} else if x < 45 {
			ops = append(ops, hOp{Kind: "wipe", Buf: b})
		} else {
			ops = append(ops, hOp{Kind: "key", Buf: b, Index: g.indices[r.Intn(nidx)]})
		}
	}
	return ops
}

// directed: load A, derive, overwrite the same array in place (by every means), possibly
// use other arrays / indices in between, derive the same index again (twice).
func (g *histGen) directed(r *rng.R) (hs [][]hOp) {
	A, B, C := g.phrases[0], g.phrases[1], g.phrases[2]
	var raw [32]byte
	r.Bytes(raw[:])
	overwrites := []hOp{
		{Kind: "load", Buf: 0, Phrase: B},
		{Kind: "write", Buf: 0, Bytes: hex.EncodeToString(raw[:])},
		{Kind: "flip", Buf: 0, Byte: 31},
		{Kind: "flip", Buf: 0, Byte: 0},
	}
	for _, i := range g.indices {
		j := i + 1
		between := [][]hOp{
			nil,
			{{Kind: "key", Buf: 1, Index: j}},
			{{Kind: "key", Buf: 1, Index: i}},
			{{Kind: "key", Buf: 1, Index: i}, {Kind: "key", Buf: 2, Index: i}, {Kind: "key", Buf: 1, Index: j}},
			{{Kind: "load", Buf: 1, Phrase: A}, {Kind: "key", Buf: 1, Index: i}},
		}
		for _, ow := range overwrites {
			for _, bt := range between {
				ops := []hOp{{Kind: "load", Buf: 0, Phrase: A}, {Kind: "load", Buf: 1, Phrase: C}, {Kind: "load", Buf: 2, Phrase: B}, {Kind: "key", Buf: 0, Index: i}}
				for _, first := range []bool{true, false} { // other calls before or after the overwrite
					x := append([]hOp(nil), ops...)
					if first {
						x = append(append(x, bt...), ow)
					} else {
						x = append(append(x, ow), bt...)
					}
					x = append(x, hOp{Kind: "key", Buf: 0, Index: i}, hOp{Kind: "key", Buf: 0, Index: i})
					hs = append(hs, x)
				}
			}
		}
		// the demo of the wallet: one array, several phrases in turn, one index
		hs = append(hs, []hOp{{Kind: "load", Buf: 0, Phrase: A}, {Kind: "key", Buf: 0, Index: i}, {Kind: "load", Buf: 0, Phrase: B}, {Kind: "key", Buf: 0, Index: i},
			{Kind: "load", Buf: 0, Phrase: C}, {Kind: "key", Buf: 0, Index: i}, {Kind: "load", Buf: 0, Phrase: A}, {Kind: "key", Buf: 0, Index: i}})
		// the caller wipes the key it got and asks again, with and without other calls in between
		hs = append(hs, []hOp{{Kind: "load", Buf: 0, Phrase: A}, {Kind: "key", Buf: 0, Index: i}, {Kind: "wipe", Buf: 0}, {Kind: "key", Buf: 0, Index: i}, {Kind: "key", Buf: 0, Index: i}})
		hs = append(hs, []hOp{{Kind: "load", Buf: 0, Phrase: A}, {Kind: "load", Buf: 1, Phrase: A}, {Kind: "key", Buf: 0, Index: i}, {Kind: "wipe", Buf: 0}, {Kind: "key", Buf: 1, Index: i}, {Kind: "key", Buf: 0, Index: j}, {Kind: "key", Buf: 0, Index: i}})
		// a failed load leaves the array as it is: still the old key
		hs = append(hs, []hOp{{Kind: "load", Buf: 0, Phrase: A}, {Kind: "key", Buf: 0, Index: i}, {Kind: "load", Buf: 0, Phrase: g.bad}, {Kind: "key", Buf: 0, Index: i}})
	}
	return
}

func runHistories(h *h20, r *rng.R) {
	g := newHistGen(h, r)
	for _, ops := range g.directed(r) {
		h.checkHistory(ops, true, "directed")
	}
	nRand, nCoq := h.c.Scale(400, 20000), h.c.Scale(120, 4000)
	for i := 0; i < nRand; i++ {
		h.checkHistory(g.random(r), i < nCoq, "random")
	}
	// several goroutines, each with its own arrays, at the same time
	G, perG := 8, h.c.Scale(60, 3000)
	type bad struct {
		ops    []hOp
		detail string
	}
	found := make([][]bad, G)
	keys := make([]int, G)
	rngs := make([]*rng.R, G)
	for i := range rngs {
		rngs[i] = r.Fork()
	}
	var wg sync.WaitGroup
	for w := 0; w < G; w++ {
		wg.Add(1)
		go func(w int) {
			defer wg.Done()
			for n := 0; n < perG; n++ {
				ops := g.random(rngs[w])
				res := runHistory(ops, nbufOf(ops))
				keys[w] += res.keys
				if res.bad >= 0 && len(found[w]) < 2 {
					found[w] = append(found[w], bad{append([]hOp(nil), ops[:res.bad+1]...), res.detail})
				}
			}
		}(w)
	}
	wg.Wait()
	reported := 0
	for w := 0; w < G; w++ {
		h.res.CountN("history:concurrent-key-derivations", keys[w])
		h.res.CountN("history:concurrent", perG)
		for _, b := range found[w] {
			if reported < 3 {
				reported++
				h.res.Fail(kindHistory, fmt.Sprintf("(8 goroutines with their own arrays) after %v: %s", opStrings(b.ops[:len(b.ops)-1]), b.detail), replay{Mode: "history", History: b.ops})
			}
		}
	}
	h.res.Evaluations += G * perG
}
