package main

// Dimensions added in the generalisation pass (seeded/LESSONS.md), each with its own
// counters in the evidence:
//
//	extreme:*         class 4  phrases far outside the usual size: hundreds to 10^5 whitespace
//	                           characters between / around twelve valid words (must decode to the
//	                           same seed), tens to 10^5 words, huge / non-UTF-8 / NUL tokens (rejected)
//	boundary:*        class 6  the boundary indices 0, 1, 1023, 1024, 2046, 2047 at every word position,
//	                           entropy halves 0 / all-ones / alternating / single end bits in every
//	                           combination, and near-miss tokens (unique 4-letter prefixes, a word split in
//	                           two, two words glued, the list word with a final letter missing or doubled)
//	phrase-history:*  class 5/1  sequences of decode / SeedFromPhrase / encode calls with immediate repeats
//	                           and every order of valid and malformed phrases, each result judged against
//	                           the oracle; at the end - with no call in between - every phrase string the
//	                           code returned and the word list are still what they were
//
// (key-derivation histories, including the caller wiping a returned key, are in histories.go)

import (
	"fmt"
	"strings"
	"unicode/utf8"

	"go.sia.tech/core/types"
	"go.sia.tech/coreutils/wallet"
	"verif/harness/internal/rng"
)

// ---- class 4: extreme sizes ----

func runExtremes(h *h20, r *rng.R) {
	valid := h.wordTokens(refEncode(randEntropy(r)))
	bad := h.wordTokens(refEncode(randEntropy(r)))
	bad[11] = token{bad[11].Idx ^ 1, h.words[bad[11].Idx^1]}
	mixed := func(n int) string {
		var sb strings.Builder
		for sb.Len() < n {
			sb.WriteString(asciiSpace[r.Intn(len(asciiSpace))])
		}
		return sb.String()
	}
	// whitespace far beyond what a hand-typed phrase has: the result must not change
	for _, n := range []int{40, 100, 300, 1000, 5000, h.c.Scale(100000, 1000000)} {
		for _, ts := range [][]token{valid, bad} {
			for v := 0; v < 3; v++ {
				seps := make([]string, len(ts)+1)
				for i := range seps {
					seps[i] = " "
				}
				seps[0], seps[len(ts)] = "", ""
				switch v {
				case 0: // one long gap
					seps[1+r.Intn(len(ts)-1)] = strings.Repeat(" ", n)
				case 1: // long lead and tail
					seps[0], seps[len(ts)] = mixed(n), mixed(n)
				default: // every gap long
					for i := 1; i < len(ts); i++ {
						seps[i] = mixed(n / 12)
					}
				}
				checkWhitespace(h, ts, seps)
				h.res.Count("extreme:long-whitespace")
			}
		}
	}
	// many words: every prefix count of a valid phrase repeated; all list words, never twelve
	for _, n := range []int{25, 32, 33, 36, 48, 64, 65, 100, 255, 256, 257, 1000, 4096 + 12, h.c.Scale(65536+12, 1<<20+12)} {
		ts := make([]token, n)
		for i := range ts {
			ts[i] = valid[i%12]
		}
		h.checkDecode(ts, n <= 100, "extreme-word-count")
		h.res.Count("extreme:many-words")
	}
	// tokens no tokenizer should choke on; twelve tokens, one of them strange
	strange := []string{strings.Repeat("a", 100000), strings.Repeat(valid[0].Text, 5000), "\xff\xfe\xfd", valid[3].Text + "\xc3", "a\x00b", "\x00", "\u200b" + valid[3].Text, valid[3].Text + "\u00ad"}
	for _, s := range strange {
		if strings.IndexFunc(s, func(c rune) bool { return c == ' ' || (c >= '\t' && c <= '\r') || c == 0x85 || c == 0xA0 }) >= 0 {
			continue // must stay one token
		}
		for _, k := range []int{0, 5, 11} {
			ts := append([]token(nil), valid...)
			ts[k] = token{-1, notInList(h, s)}
			h.checkDecode(ts, len(s) < 64 && utf8.ValidString(s), "extreme-token")
			h.res.Count("extreme:strange-token")
		}
	}
	for _, p := range []string{mixed(10), mixed(100000), "\x00", strings.Repeat("\xff", 1000)} { // nothing, in many bytes
		var s [32]byte
		var err error
		pan := safely(func() { err = wallet.SeedFromPhrase(&s, p) })
		h.res.Count("extreme:empty-phrases")
		if pan != "" {
			h.res.Fail("bip39-decode-panics", fmt.Sprintf("SeedFromPhrase of %d bytes without a word panicked: %s", len(p), pan), replay{Mode: "decode", Tokens: strings.Fields(p)})
		} else if err == nil {
			h.res.Fail("bip39-malformed-accepted", fmt.Sprintf("SeedFromPhrase of %d bytes without a list word returned no error (seed %x)", len(p), s), replay{Mode: "decode", Tokens: strings.Fields(p)})
		}
	}
}

// ---- class 6: boundary shapes ----

func runBoundaries(h *h20, r *rng.R) {
	// boundary indices at every position, once with the right checksum and once with a wrong one
	for p := 0; p < 12; p++ {
		for _, v := range []int{0, 1, 1023, 1024, 2046, 2047} {
			var idx [12]int
			for k := range idx {
				idx[k] = r.Intn(2048)
			}
			idx[p] = v
			if p < 11 {
				e0, _ := refDecode(idx)
				idx[11] = idx[11]&^0xF | refNibble(e0)
			} // p == 11: the value fixes the nibble; valid or not as it comes
			h.checkDecodeIdx(idx, true, "boundary-index")
			if p < 11 {
				idx[11] ^= 1 << r.Intn(4)
				h.checkDecodeIdx(idx, false, "boundary-index")
			}
			h.res.Count("boundary:index-at-position")
		}
	}
	// every word made only of boundary indices
	for _, v := range []int{0, 2047, 1024, 1023} {
		var idx [12]int
		for k := range idx {
			idx[k] = v
		}
		for nib := 0; nib < 16; nib++ {
			idx[11] = v&^0xF | nib
			h.checkDecodeIdx(idx, true, "boundary-index")
		}
		h.res.Count("boundary:constant-phrase")
	}
	// entropy halves: the 64-bit word boundary, carries and sign bits in every combination
	halves := []uint64{0, ^uint64(0), 0xAAAAAAAAAAAAAAAA, 0x5555555555555555, 1, 1 << 63, 0x7FF, 0x7F, 0xFFE0000000000000, 1<<53 - 1}
	nibbles := map[int]bool{}
	for _, hi := range halves {
		for _, lo := range halves {
			var e [16]byte
			for i := 0; i < 8; i++ {
				e[i], e[8+i] = byte(hi>>(56-8*i)), byte(lo>>(56-8*i))
			}
			h.checkEncode(e, true, "boundary-halves")
			h.checkDecodeIdx(refEncode(e), false, "boundary-halves")
			nibbles[refNibble(e)] = true
			h.res.Count("boundary:entropy-halves")
		}
	}
	h.res.Explored["boundary_checksum_nibbles_seen"] = len(nibbles)
	// near-miss tokens: what a lenient decoder might take for a list word
	base := h.wordTokens(refEncode(randEntropy(r)))
	prefixCount := map[string]int{}
	for _, w := range h.words {
		if len(w) >= 4 {
			prefixCount[w[:4]]++
		}
	}
	for k := 0; k < 12; k++ {
		w := base[k].Text
		var near []string
		if len(w) > 4 && prefixCount[w[:4]] == 1 {
			near = append(near, w[:4]) // the unique 4-letter prefix some wallets accept
		}
		if len(w) > 3 {
			near = append(near, w[:len(w)-1], w[:3])
		}
		near = append(near, w+w[len(w)-1:], w+base[(k+1)%12].Text, w+"-", "-"+w, w+".", strings.ToUpper(w[:1])+w[1:])
		for _, s := range near {
			if _, isWord := h.index[s]; isWord {
				continue
			}
			ts := append([]token(nil), base...)
			ts[k] = token{-1, s}
			h.checkDecode(ts, k%3 == 0, "boundary-near-miss-token")
			h.res.Count("boundary:near-miss-token")
		}
		// the word typed with a space inside: thirteen tokens, two of them fragments
		if len(w) > 3 {
			ts := append([]token(nil), base[:k]...)
			ts = append(ts, h.tokenOf(w[:2]), h.tokenOf(w[2:]))
			ts = append(ts, base[k+1:]...)
			h.checkDecode(ts, k%3 == 0, "boundary-split-word")
			h.res.Count("boundary:split-word")
		}
	}
}

// ---- classes 5 and 1: phrase-level histories ----

type phraseCase struct {
	phrase  string
	tokens  []token
	valid   bool
	entropy [16]byte
	seed    [32]byte
}

const kindPhraseHistory = "seed-phrase-result-depends-on-call-history"

func runPhraseHistories(h *h20, r *rng.R) {
	mk := func(ts []token, seps func(int) string) phraseCase {
		var sb strings.Builder
		for i, t := range ts {
			if i > 0 {
				sb.WriteString(seps(i))
			}
			sb.WriteString(t.Text)
		}
		c := phraseCase{phrase: sb.String(), tokens: ts}
		if isWellformed(ts) {
			var idx [12]int
			for i, t := range ts {
				idx[i] = t.Idx
			}
			e0, nib := refDecode(idx)
			if refNibble(e0) == nib {
				c.valid, c.entropy, c.seed = true, e0, [32]byte(types.HashBytes(e0[:]))
			}
		}
		return c
	}
	space := func(int) string { return " " }
	a := h.wordTokens(refEncode(randEntropy(r)))
	b := h.wordTokens(refEncode(randEntropy(r)))
	wrong := append([]token(nil), a...)
	wrong[11] = token{a[11].Idx ^ 2, h.words[a[11].Idx^2]}
	unknown := append([]token(nil), a...)
	unknown[4] = token{-1, notInList(h, strings.ToUpper(a[4].Text))}
	swapped := append([]token(nil), a...) // same words, two exchanged: almost surely a wrong checksum, judged by the oracle
	swapped[2], swapped[7] = swapped[7], swapped[2]
	pool := []phraseCase{
		mk(a, space), mk(b, space), mk(wrong, space), mk(unknown, space), mk(a[:11], space),
		mk(a, func(int) string { return "\t\n" }), mk(swapped, space), mk(append(append([]token(nil), a...), b[0]), space),
	}
	snapshot := wallet.VerifBIP39WordList()
	type kept struct {
		got, copy string
		what      string
	}
	var returned []kept
	fails := 0
	fail := func(hist []string, format string, args ...any) {
		fails++
		if fails <= 3 {
			h.res.Fail(kindPhraseHistory, fmt.Sprintf("after %v: %s", hist, fmt.Sprintf(format, args...)), replay{Mode: "phrase-history", Tokens: hist})
		}
	}
	call := func(hist *[]string, c *phraseCase, op int) {
		switch op {
		case 0:
			*hist = append(*hist, fmt.Sprintf("decode(%q)", c.phrase))
			o := observeDecode(c.phrase)
			if o.pan != "" || o.ok != c.valid || (o.ok && o.e != c.entropy) {
				fail(*hist, "decodeBIP39Phrase(%q) = (ok=%v, %x, %s%s); the phrase by itself calls for (ok=%v, %x)", c.phrase, o.ok, o.e, o.errTxt, o.pan, c.valid, c.entropy)
			}
			h.res.Count("phrase-history:decode")
		case 1:
			*hist = append(*hist, fmt.Sprintf("SeedFromPhrase(%q)", c.phrase))
			var s [32]byte
			var err error
			pan := safely(func() { err = wallet.SeedFromPhrase(&s, c.phrase) })
			if pan != "" || (err == nil) != c.valid || (err == nil && s != c.seed) {
				fail(*hist, "SeedFromPhrase(%q) = (%x, %v %s); the phrase by itself calls for (ok=%v, %x)", c.phrase, s, err, pan, c.valid, c.seed)
			}
			h.res.Count("phrase-history:seed-from-phrase")
		default:
			if !c.valid {
				return
			}
			*hist = append(*hist, fmt.Sprintf("encode(%x)", c.entropy))
			p, pan := realEncode(c.entropy)
			want := strings.Join(texts(c.tokens), " ")
			if pan != "" || p != want {
				fail(*hist, "encodeBIP39Phrase(%x) = %q %s, expected %q", c.entropy, p, pan, want)
			}
			returned = append(returned, kept{p, string(append([]byte(nil), p...)), (*hist)[len(*hist)-1]})
			h.res.Count("phrase-history:encode")
		}
	}
	// every ordered pair of phrases x every pair of calls, each call made twice in a row
	for i := range pool {
		for j := range pool {
			for ops := 0; ops < 9; ops++ {
				var hist []string
				call(&hist, &pool[i], ops/3)
				call(&hist, &pool[i], ops/3)
				call(&hist, &pool[j], ops%3)
				call(&hist, &pool[j], ops%3)
				call(&hist, &pool[i], ops/3)
				h.res.Count("phrase-history:directed")
			}
		}
	}
	for n := h.c.Scale(100, 5000); n > 0; n-- {
		var hist []string
		for k := 3 + r.Intn(12); k > 0; k-- {
			call(&hist, &pool[r.Intn(len(pool))], r.Intn(3))
		}
		h.res.Count("phrase-history:random")
	}
	h.res.Evaluations += len(pool)*len(pool)*9 + h.c.Scale(100, 5000)
	// judged at the end, with no call in between: what was handed out or published is unchanged
	for _, k := range returned {
		if k.got != k.copy {
			fail([]string{k.what, "... later calls ..."}, "the phrase returned by %s read %q when it was returned and reads %q now: a later call wrote into a string the caller holds", k.what, k.copy, k.got)
			break
		}
	}
	now := wallet.VerifBIP39WordList()
	same := len(now) == len(snapshot)
	for i := 0; same && i < len(now); i++ {
		same = now[i] == snapshot[i]
	}
	if !same {
		fail([]string{"all calls of this run"}, "the word list changed during the run")
	}
	for _, t := range []string{unknown[4].Text, "zzzz", a[0].Text[:2]} {
		if _, isWord := h.index[t]; isWord {
			continue
		}
		if i, found := wallet.VerifBIP39WordIndex(t); found {
			fail([]string{"all calls of this run"}, "after the run wordMap contains %q -> %d, which is not a word of the list: a lookup taught the map a word", t, i)
		}
	}
	h.res.Count("phrase-history:end-of-run-judgement")
}
