package main

// Concurrency monitor of C20: "the same phrase and index always derive the same
// key and address" must also hold when several goroutines derive at the same
// time (an address look-ahead scan next to a signing call, two wallets in one
// process). The Coq theorems are about KeyFromSeed as a function of (seed,
// index); that the Go implementation keeps no state shared between calls is a
// runtime matter and is exercised here, not proved.
//
// Reference keys, addresses and seeds are derived sequentially (and compared
// with the independent blake2b/ed25519 oracle), then G goroutines derive the
// same (seed, index) pairs concurrently, mixed with SeedFromPhrase,
// NewSeedPhrase, encode, decode and checksum calls, and every single result is
// compared with the reference. coreutils has no wallet constructor that takes a
// phrase or seed (NewSingleAddressWallet takes the private key; its address is
// types.StandardUnlockHash(key.PublicKey()), which is what is compared here).

import (
	"bytes"
	"crypto/ed25519"
	"encoding/binary"
	"encoding/hex"
	"fmt"
	"runtime"
	"sync"

	"go.sia.tech/core/types"
	"go.sia.tech/coreutils/wallet"
	"verif/harness/internal/rng"
)

type concRef struct {
	entropy [16]byte
	phrase  string
	seed    [32]byte
	cks     uint64
	indices []uint64
	keys    [][]byte
	addrs   []types.Address
}

type concFail struct {
	kind, detail string
	entropy      [16]byte
	index        uint64
}

const (
	kindConcKey    = "key-derivation-not-deterministic-under-concurrency"
	kindConcPhrase = "seed-phrase-not-deterministic-under-concurrency"
)

// concReference derives everything once, sequentially, and checks it against the oracle.
func concReference(h *h20, r *rng.R, nSeeds, nIdx int) []concRef {
	var refs []concRef
	for s := 0; s < nSeeds; s++ {
		ref := concRef{entropy: randEntropy(r)}
		var pan string
		if ref.phrase, pan = realEncode(ref.entropy); pan != "" {
			return nil // reported by the encode monitors
		}
		if err := wallet.SeedFromPhrase(&ref.seed, ref.phrase); err != nil {
			return nil // reported by the derivation monitors
		}
		ref.cks = realChecksum(ref.entropy)
		ref.indices = []uint64{0, 1, 2, 255, 256, 1 << 32, ^uint64(0)}
		for len(ref.indices) < nIdx {
			ref.indices = append(ref.indices, uint64(len(ref.indices))) // the look-ahead range of a wallet
		}
		for _, i := range ref.indices {
			seed := ref.seed
			k := wallet.KeyFromSeed(&seed, i)
			buf := make([]byte, 40)
			copy(buf, ref.seed[:])
			binary.LittleEndian.PutUint64(buf[32:], i)
			hh := types.HashBytes(buf)
			if want := ed25519.NewKeyFromSeed(hh[:]); !bytes.Equal(k, want) {
				h.res.Fail("key-derivation-differs-from-spec", fmt.Sprintf("sequential KeyFromSeed(%x, %d) has public key %x, ed25519(blake2b(seed || le64 index)) has %x", ref.seed, i, k[32:], want[32:]),
					replay{Mode: "derive", Entropy: hex.EncodeToString(ref.entropy[:]), Index: i})
				return nil
			}
			ref.keys = append(ref.keys, append([]byte(nil), k...))
			ref.addrs = append(ref.addrs, types.StandardUnlockHash(k.PublicKey()))
		}
		refs = append(refs, ref)
	}
	return refs
}

// runConcurrency: G goroutines, perG operations each, all results compared with the reference.
func runConcurrency(h *h20, r *rng.R) {
	G, perG := h.c.Scale(12, 16), h.c.Scale(6000, 150000)
	refs := concReference(h, r, 6, 48)
	if refs == nil {
		h.res.Count("concurrent:skipped-sequential-reference-wrong")
		return
	}
	if runtime.GOMAXPROCS(0) < 4 {
		defer runtime.GOMAXPROCS(runtime.GOMAXPROCS(4))
	}
	rngs := make([]*rng.R, G)
	for g := range rngs {
		rngs[g] = r.Fork()
	}
	fails := make([][]concFail, G)
	counts := make([]map[string]int, G)
	start := make(chan struct{})
	var wg sync.WaitGroup
	for g := 0; g < G; g++ {
		wg.Add(1)
		go func(g int) {
			defer wg.Done()
			rr, cnt := rngs[g], map[string]int{}
			counts[g] = cnt
			add := func(kind string, ref *concRef, i uint64, format string, a ...any) {
				if len(fails[g]) < 4 {
					fails[g] = append(fails[g], concFail{kind, fmt.Sprintf(format, a...), ref.entropy, i})
				}
				cnt["wrong:"+kind]++
			}
			<-start
			for n := 0; n < perG; n++ {
				ref := &refs[rr.Intn(len(refs))]
				switch op := rr.Intn(20); {
				case op < 14: // the derivation itself
					j := rr.Intn(len(ref.indices))
					i := ref.indices[j]
					seed := ref.seed // own copy: nothing the harness shares is written
					var k types.PrivateKey
					if pan := safely(func() { k = wallet.KeyFromSeed(&seed, i) }); pan != "" {
						add(kindConcKey, ref, i, "KeyFromSeed(%x, %d) panicked while %d goroutines were deriving: %s", ref.seed, i, G, pan)
						continue
					}
					cnt["key-derivations"]++
					if !bytes.Equal(k, ref.keys[j]) {
						add(kindConcKey, ref, i, "KeyFromSeed(%x, %d) called while %d goroutines were deriving returned public key %x (address %v); the same call made sequentially returns %x (address %v)",
							ref.seed, i, G, []byte(k[32:]), types.StandardUnlockHash(k.PublicKey()), ref.keys[j][32:], ref.addrs[j])
					} else if a := types.StandardUnlockHash(k.PublicKey()); a != ref.addrs[j] {
						add(kindConcKey, ref, i, "address of KeyFromSeed(%x, %d) is %v under concurrency, %v sequentially", ref.seed, i, a, ref.addrs[j])
					}
					if seed != ref.seed {
						add(kindConcKey, ref, i, "KeyFromSeed(%x, %d) changed the caller's seed to %x", ref.seed, i, seed)
					}
				case op < 16:
					var s [32]byte
					var err error
					if pan := safely(func() { err = wallet.SeedFromPhrase(&s, ref.phrase) }); pan != "" || err != nil || s != ref.seed {
						add(kindConcPhrase, ref, 0, "SeedFromPhrase(%q) under concurrency = (%x, %v %s), sequentially %x", ref.phrase, s, err, pan, ref.seed)
					}
					cnt["seed-from-phrase"]++
				case op < 17:
					if o := observeDecode(ref.phrase); !o.ok || o.e != ref.entropy {
						add(kindConcPhrase, ref, 0, "decodeBIP39Phrase(%q) under concurrency = (ok=%v, %x, %s%s), sequentially %x", ref.phrase, o.ok, o.e, o.errTxt, o.pan, ref.entropy)
					}
					cnt["decode"]++
				case op < 18:
					if p, pan := realEncode(ref.entropy); p != ref.phrase {
						add(kindConcPhrase, ref, 0, "encodeBIP39Phrase(%x) under concurrency = %q %s, sequentially %q", ref.entropy, p, pan, ref.phrase)
					}
					cnt["encode"]++
				case op < 19:
					if c := realChecksum(ref.entropy); c != ref.cks {
						add(kindConcPhrase, ref, 0, "bip39checksum(%x) under concurrency = %d, sequentially %d", ref.entropy, c, ref.cks)
					}
					cnt["checksum"]++
				default: // a fresh phrase is well formed and gives a seed
					var p string
					var s [32]byte
					var err error
					pan := safely(func() { p = wallet.NewSeedPhrase(); err = wallet.SeedFromPhrase(&s, p) })
					if pan != "" || err != nil {
						add(kindConcPhrase, ref, 0, "NewSeedPhrase() under concurrency = %q, SeedFromPhrase of it: %v %s", p, err, pan)
					}
					cnt["new-seed-phrase"]++
				}
			}
		}(g)
	}
	close(start)
	wg.Wait()
	total := 0
	reported := map[string]int{}
	for g := 0; g < G; g++ {
		for k, v := range counts[g] {
			h.res.CountN("concurrent:"+k, v)
			if k == "key-derivations" {
				total += v
			}
		}
		for _, f := range fails[g] {
			if reported[f.kind] < 3 {
				reported[f.kind]++
				h.res.Fail(f.kind, f.detail, replay{Mode: "concurrent", Entropy: hex.EncodeToString(f.entropy[:]), Index: f.index})
			}
		}
	}
	h.res.Evaluations += G * perG
	h.res.Explored["concurrent_goroutines"] = G
	h.res.Explored["concurrent_key_derivations"] = total
	h.res.Explored["concurrent_operations"] = G * perG
}
