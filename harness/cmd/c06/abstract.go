package main

import (
	"encoding/json"
	"fmt"
	"os"
	"path/filepath"
	"sort"
	"strings"

	"go.sia.tech/core/types"
	"verif/harness/internal/chaingen"
	"verif/harness/internal/subs"
)

// abstraction projects real blocks onto the Coq model's vocabulary: per block the
// address's created/spent outputs (non-ephemeral, in diff order) and the event sources in
// the order wallet.appliedEvents visits them, each with the facts the code tests.
type abstraction struct {
	t   *chaingen.Tree
	tw  *subs.Twin
	ids map[types.Hash256]int
}

func newAbstraction(t *chaingen.Tree, tw *subs.Twin) *abstraction {
	return &abstraction{t: t, tw: tw, ids: map[types.Hash256]int{}}
}

// hid names a hash (output id, transaction id) by a small integer, in order of first use.
func (a *abstraction) hid(h types.Hash256) int {
	if v, ok := a.ids[h]; ok {
		return v
	}
	a.ids[h] = len(a.ids) + 1
	return a.ids[h]
}

func z(c types.Currency) string { return "(" + c.ExactString() + ")%Z" }

func (a *abstraction) block(n *chaingen.Node) string {
	addr := a.t.Env.Addr
	cau := a.tw.Update(n)
	elems := map[types.SiacoinOutputID]types.SiacoinElement{}
	var created, spent []string
	for _, d := range cau.SiacoinElementDiffs() {
		e := d.SiacoinElement
		elems[e.ID] = e
		if (d.Created && d.Spent) || e.SiacoinOutput.Address != addr {
			continue
		}
		s := fmt.Sprintf("(%d, %s, %d)", a.hid(types.Hash256(e.ID)), z(e.SiacoinOutput.Value), e.MaturityHeight)
		if d.Created {
			created = append(created, s)
		} else {
			spent = append(spent, s)
		}
	}
	// payout: (id, the address the code tests is the wallet's, the output pays the wallet, value, maturity)
	payout := func(id types.SiacoinOutputID, keyed bool) string {
		e := elems[id]
		return fmt.Sprintf("Po %d %v %v %s %d", a.hid(types.Hash256(id)), keyed, e.SiacoinOutput.Address == addr, z(e.SiacoinOutput.Value), e.MaturityHeight)
	}
	var items []string
	for _, txn := range n.Block.Transactions {
		relevant := false
		var inflow, outflow types.Currency
		for _, so := range txn.SiacoinOutputs {
			if so.Address == addr {
				relevant = true
				inflow = inflow.Add(so.Value)
			}
		}
		for _, in := range txn.SiacoinInputs {
			if in.UnlockConditions.UnlockHash() == addr {
				relevant = true
			}
			if e := elems[in.ParentID]; e.SiacoinOutput.Address == addr {
				outflow = outflow.Add(e.SiacoinOutput.Value)
			}
		}
		var claims []string
		for _, in := range txn.SiafundInputs {
			claims = append(claims, payout(in.ParentID.ClaimOutputID(), in.UnlockConditions.UnlockHash() == addr))
		}
		items = append(items, fmt.Sprintf("ITx false %d %v %s %s [%s]", a.hid(types.Hash256(txn.ID())), relevant, z(inflow), z(outflow), strings.Join(claims, "; ")))
	}
	for _, txn := range n.Block.V2Transactions() {
		relevant := false
		var inflow, outflow types.Currency
		for _, so := range txn.SiacoinOutputs {
			if so.Address == addr {
				relevant = true
				inflow = inflow.Add(so.Value)
			}
		}
		for _, in := range txn.SiacoinInputs {
			if in.Parent.SiacoinOutput.Address == addr {
				relevant = true
				outflow = outflow.Add(in.Parent.SiacoinOutput.Value)
			}
		}
		var claims []string
		for _, in := range txn.SiafundInputs {
			claims = append(claims, payout(types.SiafundOutputID(in.Parent.ID).V2ClaimOutputID(), in.Parent.SiafundOutput.Address == addr))
		}
		items = append(items, fmt.Sprintf("ITx true %d %v %s %s [%s]", a.hid(types.Hash256(txn.ID())), relevant, z(inflow), z(outflow), strings.Join(claims, "; ")))
	}
	for _, d := range cau.FileContractElementDiffs() {
		if !d.Resolved {
			continue
		}
		fce := d.FileContractElement
		var outs []string
		if d.Valid {
			for i, so := range fce.FileContract.ValidProofOutputs {
				outs = append(outs, payout(fce.ID.ValidOutputID(i), so.Address == addr))
			}
		} else {
			for i, so := range fce.FileContract.MissedProofOutputs {
				outs = append(outs, payout(fce.ID.MissedOutputID(i), so.Address == addr))
			}
		}
		items = append(items, "IRes1 ["+strings.Join(outs, "; ")+"]")
	}
	for _, d := range cau.V2FileContractElementDiffs() {
		if d.Resolution == nil {
			continue
		}
		fce := d.V2FileContractElement
		items = append(items, fmt.Sprintf("IRes2 (%s) (%s)", payout(fce.ID.V2HostOutputID(), fce.V2FileContract.HostOutput.Address == addr), payout(fce.ID.V2RenterOutputID(), fce.V2FileContract.RenterOutput.Address == addr)))
	}
	for i, so := range n.Block.MinerPayouts {
		items = append(items, "IMiner ("+payout(n.ID.MinerOutputID(i), so.Address == addr)+")")
	}
	if e, ok := elems[n.ID.FoundationOutputID()]; ok {
		// [keyed]: the foundation address of the state after the block is the wallet's (not what the
		// code should test: the subsidy pays the parent state's address)
		items = append(items, "IFound ("+payout(n.ID.FoundationOutputID(), n.FullState.FoundationSubsidyAddress == addr)+")")
		_ = e
	}
	return fmt.Sprintf("Ab %d %d [%s] [%s]\n      [%s]", n.Idx, n.Height, strings.Join(created, "; "), strings.Join(spent, "; "), strings.Join(items, "; "))
}

func (a *abstraction) coqCase(used map[int]bool, steps []string) string {
	var ids []int
	for x := range used {
		ids = append(ids, x)
	}
	sort.Ints(ids)
	// blocks first (their ids are named in block order), then the steps that were recorded with
	// the same naming
	var blocks []string
	for _, x := range ids {
		blocks = append(blocks, a.block(a.t.Nodes[x]))
	}
	return "mk_case\n  [" + strings.Join(blocks, "; \n   ") + "]\n  [" + strings.Join(steps, "; \n   ") + "]"
}

type directedCase struct {
	cs Case
	t  *chaingen.Tree
}

// directed: minimised earlier failures (/verif/corpus/C06/*.json), run first.
func directed() (out []directedCase) {
	files, _ := filepath.Glob("/verif/corpus/C06/*.json")
	sort.Strings(files)
	for _, f := range files {
		var c struct {
			Case Case `json:"case"`
		}
		b, err := os.ReadFile(f)
		if err != nil || json.Unmarshal(b, &c) != nil {
			continue
		}
		if t := c.Case.tree(); t != nil {
			out = append(out, directedCase{c.Case, t})
		}
	}
	return
}
