package main

import (
	"go.sia.tech/core/consensus"
	"go.sia.tech/core/types"
	"go.sia.tech/coreutils/wallet"
	"verif/harness/internal/chaingen"
)

// refEvents recomputes the wallet-relevant events of one block from the block
// and core's element diffs, following the property text: an event is whatever
// changes the address's holdings — a transaction that spends outputs of the
// address or creates outputs paying it (inflow = its outputs paying the
// address, outflow = the outputs of the address it spends), and a payout for
// every other output the block creates that pays the address, typed by where
// its id comes from (miner payout, foundation subsidy, siafund claim, v1/v2
// contract resolution). Events that change nothing (inflow == outflow) are not
// events. The order within a block is not part of the oracle.
func refEvents(n *chaingen.Node, cau consensus.ApplyUpdate, addr types.Address) (out []evRow) {
	index := types.ChainIndex{Height: n.Height, ID: n.ID}
	elems := map[types.SiacoinOutputID]types.SiacoinElement{}
	for _, d := range cau.SiacoinElementDiffs() {
		elems[d.SiacoinElement.ID] = d.SiacoinElement
	}
	accounted := map[types.SiacoinOutputID]bool{}
	payout := func(typ string, id types.SiacoinOutputID) {
		e, ok := elems[id]
		if !ok {
			return
		}
		accounted[id] = true
		if e.SiacoinOutput.Address != addr || e.SiacoinOutput.Value.IsZero() {
			return
		}
		out = append(out, evRow{typ, types.Hash256(id), e.SiacoinOutput.Value, types.ZeroCurrency, index, e.MaturityHeight})
	}
	txEvent := func(typ string, id types.TransactionID, inflow, outflow types.Currency) {
		if inflow != outflow {
			out = append(out, evRow{typ, types.Hash256(id), inflow, outflow, index, index.Height})
		}
	}
	for _, txn := range n.Block.Transactions {
		var inflow, outflow types.Currency
		for i, so := range txn.SiacoinOutputs {
			accounted[txn.SiacoinOutputID(i)] = true
			if so.Address == addr {
				inflow = inflow.Add(so.Value)
			}
		}
		for _, in := range txn.SiacoinInputs {
			if e := elems[in.ParentID]; e.SiacoinOutput.Address == addr {
				outflow = outflow.Add(e.SiacoinOutput.Value)
			}
		}
		for _, in := range txn.SiafundInputs {
			payout(wallet.EventTypeSiafundClaim, in.ParentID.ClaimOutputID())
		}
		txEvent(wallet.EventTypeV1Transaction, txn.ID(), inflow, outflow)
	}
	for _, txn := range n.Block.V2Transactions() {
		var inflow, outflow types.Currency
		txid := txn.ID()
		for i, so := range txn.SiacoinOutputs {
			accounted[txn.SiacoinOutputID(txid, i)] = true
			if so.Address == addr {
				inflow = inflow.Add(so.Value)
			}
		}
		for _, in := range txn.SiacoinInputs {
			if in.Parent.SiacoinOutput.Address == addr {
				outflow = outflow.Add(in.Parent.SiacoinOutput.Value)
			}
		}
		for _, in := range txn.SiafundInputs {
			payout(wallet.EventTypeSiafundClaim, types.SiafundOutputID(in.Parent.ID).V2ClaimOutputID())
		}
		txEvent(wallet.EventTypeV2Transaction, txid, inflow, outflow)
	}
	for _, d := range cau.FileContractElementDiffs() {
		if !d.Resolved {
			continue
		}
		fce := d.FileContractElement
		if d.Valid {
			for i := range fce.FileContract.ValidProofOutputs {
				payout(wallet.EventTypeV1ContractResolution, fce.ID.ValidOutputID(i))
			}
		} else {
			for i := range fce.FileContract.MissedProofOutputs {
				payout(wallet.EventTypeV1ContractResolution, fce.ID.MissedOutputID(i))
			}
		}
	}
	for _, d := range cau.V2FileContractElementDiffs() {
		if d.Resolution == nil {
			continue
		}
		payout(wallet.EventTypeV2ContractResolution, d.V2FileContractElement.ID.V2HostOutputID())
		payout(wallet.EventTypeV2ContractResolution, d.V2FileContractElement.ID.V2RenterOutputID())
	}
	for i := range n.Block.MinerPayouts {
		payout(wallet.EventTypeMinerPayout, n.ID.MinerOutputID(i))
	}
	payout(wallet.EventTypeFoundationSubsidy, n.ID.FoundationOutputID())
	// the oracle accounts for every output the block creates for the address
	for _, d := range cau.SiacoinElementDiffs() {
		if d.Created && d.SiacoinElement.SiacoinOutput.Address == addr && !accounted[d.SiacoinElement.ID] {
			panic("c06: the event oracle does not account for created output " + d.SiacoinElement.ID.String())
		}
	}
	return
}
