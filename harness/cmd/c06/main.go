// Command c06 checks C06 (the wallet's ledger equals the chain's truth for its
// address across reorgs): a real wallet.SingleAddressWallet over
// testutil.EphemeralWalletStore is driven with chunks of the manager's update
// stream (the subscriber index is kept by the harness, as the property says)
// while the manager runs submission plans over generated fork trees in which
// the wallet address is miner, payee, spender, contract party, siafund owner,
// claimant and foundation address. Whenever the wallet is at the tip, its
// outputs are compared with a linear twin ledger, its events with an
// independent recomputation over the best chain, and the balance identity is
// evaluated. The histories are rendered as cases for the Coq model.
package main

import (
	"encoding/json"
	"fmt"
	"math"
	"os"
	"sort"
	"strings"

	"go.sia.tech/core/types"
	"go.sia.tech/coreutils/chain"
	"go.sia.tech/coreutils/testutil"
	"go.sia.tech/coreutils/wallet"
	"verif/harness/internal/chaingen"
	"verif/harness/internal/hx"
	"verif/harness/internal/mgrsim"
	"verif/harness/internal/rng"
	"verif/harness/internal/storeobs"
	"verif/harness/internal/subs"
)

func main() { hx.Main("C06", run) }

// An Ev is a call on the manager, one chunk of the stream (poll), or polls until the tip (sync).
type Ev struct {
	K   string     `json:"k"` // op | poll | sync
	Op  *mgrsim.Op `json:"op,omitempty"`
	Max int        `json:"max,omitempty"`
}

// A Case is a tree (regenerated from the seed) and a history.
type Case struct {
	Seed       uint64           `json:"seed"`
	Regime     int              `json:"regime"`
	Opts       chaingen.GenOpts `json:"opts"`
	Foundation bool             `json:"foundation"`      // the wallet address is the foundation's primary address
	Rotate     bool             `json:"rotate"`          // a subsidy every 3 blocks; the foundation address starts with the wallet (Foundation) or the other party and is passed on by address updates
	Split      bool             `json:"split,omitempty"` // v1 blocks with the reward split over two miner payouts (wallet second, or both)
	Gen        int              `json:"gen"`             // generator version: 0 chaingen.GenW, 2 chaingen.GenW2 (pass-through blocks)
	Evs        []Ev             `json:"evs"`
}

func (c Case) tree() (t *chaingen.Tree) {
	defer func() {
		if r := recover(); r != nil {
			t = nil // the generator gave up on this seed (sibling blocks with equal ids)
		}
	}()
	r := rng.New(c.Seed)
	env := chaingen.NewEnv(r, c.Regime)
	if c.Foundation {
		env.Net.HardforkFoundation.PrimaryAddress = env.Addr
	}
	if c.Rotate {
		_, _, oaddr := env.Other()
		if c.Foundation {
			env.ShortSubsidyPeriod(env.Addr)
		} else {
			env.ShortSubsidyPeriod(oaddr)
		}
	}
	if c.Gen >= 2 {
		return chaingen.GenW2With(r, env, c.Opts, chaingen.W2Opts{SplitPayouts: c.Split})
	}
	return chaingen.GenW(r, env, c.Opts)
}

type failure struct{ kind, detail string }

var chunkSizes = []int{1, 2, 3, 7, 1000, 100, math.MaxInt}

type world struct {
	t     *chaingen.Tree
	s     *mgrsim.Sim
	tw    *subs.Twin
	store *testutil.EphemeralWalletStore
	w     *wallet.SingleAddressWallet
	idx   types.ChainIndex
	addr  types.Address
	fail  *failure
	stats map[string]int
	ab    *abstraction
	coq   []string // stream steps and checks for the Coq case
	used  map[int]bool
	// checks are evaluated at every tip; only some are rendered for the model (the first ones after
	// a revert and the last one): the literals dominate the cost of a cases file
	revertedSinceCheck bool
	rendered           int
	force              bool
	ops                []mgrsim.Op
	f8At               int
	f8                 bool
	// a second wallet, for the other party's address, is fed the very same chunk objects after the
	// first one (what one wallet does with an update must not show in the next one's view of it)
	store2 *testutil.EphemeralWalletStore
	w2     *wallet.SingleAddressWallet
	second bool   // the monitors are being evaluated for the second wallet
	who    string // prefix of failure details
	checks int
}

func newWorld(t *chaingen.Tree) *world {
	w := &world{t: t, s: mgrsim.NewSim(t, nil), tw: subs.NewTwin(t), store: testutil.NewEphemeralWalletStore(), addr: t.Env.Addr, stats: map[string]int{}, used: map[int]bool{}}
	sw, err := wallet.NewSingleAddressWallet(t.Env.Key, w.s.CM, w.store, nil)
	if err != nil {
		panic(err)
	}
	if sw.Address() != t.Env.Addr {
		panic("c06: wallet address differs from the generator's address")
	}
	w.w = sw
	okey, _, _ := t.Env.Other()
	w.store2 = testutil.NewEphemeralWalletStore()
	if w.w2, err = wallet.NewSingleAddressWallet(okey, w.s.CM, w.store2, nil); err != nil {
		panic(err)
	}
	w.f8At = -1
	w.ab = newAbstraction(t, w.tw)
	return w
}

func (w *world) close() { w.w.Close(); w.w2.Close() }

// differsByExpiryOrder lets the C02 judge decide, for the history so far, whether the node's
// deviation from the linear replay is the known expiry-order finding.
func (w *world) differsByExpiryOrder() bool {
	if w.f8At == len(w.ops) {
		return w.f8
	}
	w.f8At, w.f8 = len(w.ops), false
	nd, err := storeobs.NewNode(w.t, chain.NewMemDB(), nil)
	if err != nil {
		return false
	}
	for _, op := range w.ops {
		if o := nd.Do(op); o.Panic {
			return false
		}
	}
	f, _ := storeobs.Judge(nd, storeobs.NewTwins(w.t))
	w.f8 = f != nil && f.Kind == storeobs.KindF8
	return w.f8
}

func (w *world) report(kind, format string, a ...any) {
	if w.fail == nil {
		w.fail = &failure{kind, w.who + fmt.Sprintf(format, a...)}
	}
}

func (w *world) node(ci types.ChainIndex) int {
	if n, ok := w.t.ByID[ci.ID]; ok {
		return n.Idx
	}
	return -1
}

// poll feeds one chunk of the stream to the wallet.
func (w *world) poll(max int) {
	var rus []chain.RevertUpdate
	var aus []chain.ApplyUpdate
	var err error
	func() {
		defer func() {
			if r := recover(); r != nil {
				err = fmt.Errorf("panic: %v", r)
			}
		}()
		rus, aus, err = w.s.CM.UpdatesSince(w.idx, max)
	}()
	if err != nil {
		w.report("c06-update-stream-error", "UpdatesSince(%v, %d) failed: %v", w.idx, max, err)
		return
	}
	after, kind, detail := subs.CheckChunk(w.idx, max, rus, aus)
	if kind != "" {
		w.report("c06-update-stream-broken", "%s: %s", kind, detail)
		return
	}
	func() {
		defer func() {
			if r := recover(); r != nil {
				w.report("c06-wallet-panic", "UpdateChainState panicked on the chunk from %v (%d reverts, %d applies): %v", w.idx, len(rus), len(aus), r)
			}
		}()
		if err := w.store.UpdateChainState(func(tx wallet.UpdateTx) error { return w.w.UpdateChainState(tx, rus, aus) }); err != nil {
			w.report("c06-wallet-update-error", "UpdateChainState failed on the chunk from %v: %v", w.idx, err)
		}
		// the same objects, second wallet
		w.who = "second wallet (the other party's address, fed the same update objects after the first wallet): "
		if err := w.store2.UpdateChainState(func(tx wallet.UpdateTx) error { return w.w2.UpdateChainState(tx, rus, aus) }); err != nil {
			w.report("c06-wallet-update-error", "UpdateChainState failed on the chunk from %v: %v", w.idx, err)
		}
		w.who = ""
	}()
	w.who = ""
	if w.fail != nil {
		return
	}
	var rids, aids []string
	for _, ru := range rus {
		x := w.node(types.ChainIndex{ID: ru.Block.ID()})
		w.used[x] = true
		rids = append(rids, fmt.Sprint(x))
	}
	for _, au := range aus {
		x := w.node(au.State.Index)
		w.used[x] = true
		aids = append(aids, fmt.Sprint(x))
	}
	w.coq = append(w.coq, fmt.Sprintf("SChunk [%s] [%s]", strings.Join(rids, "; "), strings.Join(aids, "; ")))
	w.stats["chunks"]++
	if len(rus) > 0 {
		w.stats["chunks-with-reverts"]++
		w.stats["blocks-reverted"] += len(rus)
		w.revertedSinceCheck = true
	}
	if len(rus) > 0 && len(aus) == 0 {
		w.stats["chunks-ending-on-a-revert"]++
		// outside the property by its own wording (the store is to record the index the stream left
		// it at): the reference store records the reverted block's index instead of its parent's
		if tip, _ := w.store.Tip(); tip != after {
			w.stats["reference-store-tip-is-the-reverted-index"]++
		}
	}
	w.idx = after
	if w.idx == w.s.CM.Tip() {
		w.checkBoth()
	}
}

func (w *world) sync(max int) {
	for i := 0; w.idx != w.s.CM.Tip() && w.fail == nil && i < 10000; i++ {
		w.poll(max)
	}
}

type evRow struct {
	typ      string
	id       types.Hash256
	in, out  types.Currency
	index    types.ChainIndex
	maturity uint64
}

func (e evRow) key() string {
	return fmt.Sprintf("%s %v in=%s out=%s at=%v mat=%d", e.typ, e.id, e.in.ExactString(), e.out.ExactString(), e.index, e.maturity)
}

// checkBoth evaluates the monitors for the wallet and then for the second wallet.
func (w *world) checkBoth() {
	w.check()
	if w.fail != nil {
		return
	}
	_, _, oaddr := w.t.Env.Other()
	s1, w1, a1 := w.store, w.w, w.addr
	w.store, w.w, w.addr, w.second = w.store2, w.w2, oaddr, true
	w.who = "second wallet (the other party's address, fed the same update objects after the first wallet): "
	w.check()
	w.store, w.w, w.addr, w.second, w.who = s1, w1, a1, false, ""
}

// check evaluates the monitors; the wallet is at the manager's tip.
func (w *world) check() {
	if w.second {
		w.stats["checks-at-tip-second-wallet"]++
	} else {
		w.stats["checks-at-tip"]++
	}
	tipN := w.t.ByID[w.idx.ID]
	truth := w.tw.At(tipN)
	_, utxos, err := w.store.UnspentSiacoinElements()
	if err != nil {
		w.report("c06-store-error", "%v", err)
		return
	}
	// 1. unspent outputs == the linear ledger's outputs of the address
	want := map[types.SiacoinOutputID]types.SiacoinElement{}
	for id, e := range truth.SC {
		if e.SiacoinOutput.Address == w.addr {
			want[id] = e
		}
	}
	got := map[types.SiacoinOutputID]types.SiacoinElement{}
	for _, e := range utxos {
		if _, dup := got[e.ID]; dup {
			w.report("c06-utxo-duplicate", "output %v is stored twice", e.ID)
			return
		}
		got[e.ID] = e
	}
	// leaf positions are comparable with the linear twin only if the node's own tip state is the
	// linear replay's (it is not after a reverted contract revision reordered the expirations:
	// C02's finding); the proofs are verified against the node's accumulator in any case
	tipState := w.s.CM.TipState()
	linearState := string(mgrsim.EncState(tipState)) == string(mgrsim.EncState(tipN.FullState))
	if !linearState {
		if !w.differsByExpiryOrder() {
			w.report("c06-state-differs-from-linear-replay", "the node's tip state at block %d differs from the linear replay of the same chain and the C02 judge does not attribute it to the expiration-list order", tipN.Idx)
			return
		}
		w.stats["tips-whose-state-differs-from-the-linear-replay-by-expiry-order"]++
	}
	for id, e := range got {
		t, ok := want[id]
		perr := subs.VerifySiacoin(tipState, e)
		if ok && !linearState {
			t.StateElement = e.StateElement.Copy()
		}
		switch {
		case !ok:
			w.report("c06-utxo-extra", "at tip %d the wallet holds output %v (%v, maturity %d) which is not an unspent output of its address on the best chain", tipN.Idx, id, e.SiacoinOutput.Value, e.MaturityHeight)
		case e.SiacoinOutput != t.SiacoinOutput:
			w.report("c06-utxo-value-differs", "at tip %d output %v is stored as %v, the chain has %v", tipN.Idx, id, e.SiacoinOutput, t.SiacoinOutput)
		case e.MaturityHeight != t.MaturityHeight:
			w.report("c06-utxo-maturity-differs", "at tip %d output %v is stored with maturity height %d, the chain has %d", tipN.Idx, id, e.MaturityHeight, t.MaturityHeight)
		case perr != nil:
			w.report("c06-utxo-proof-invalid", "at tip %d the Merkle proof stored for output %v (leaf %d) does not verify against the tip's accumulator: %v", tipN.Idx, id, e.StateElement.LeafIndex, perr)
		case e.StateElement.LeafIndex != t.StateElement.LeafIndex:
			w.report("c06-utxo-leaf-differs", "at tip %d output %v is stored with leaf index %d, the chain has %d", tipN.Idx, id, e.StateElement.LeafIndex, t.StateElement.LeafIndex)
		case fmt.Sprint(e.StateElement.MerkleProof) != fmt.Sprint(t.StateElement.MerkleProof):
			w.report("c06-utxo-proof-differs", "at tip %d the Merkle proof stored for output %v (leaf %d) differs from the proof of the linear replay: it does not verify at the tip", tipN.Idx, id, e.StateElement.LeafIndex)
		}
	}
	for id, t := range want {
		if _, ok := got[id]; !ok {
			w.report("c06-utxo-missing", "at tip %d the wallet lacks output %v (%v, maturity %d), unspent on the best chain", tipN.Idx, id, t.SiacoinOutput.Value, t.MaturityHeight)
		}
	}
	if w.fail != nil {
		return
	}
	w.stats["utxos-compared"] += len(got)
	for _, e := range got {
		if e.SiacoinOutput.Value.IsZero() {
			w.stats["zero-valued-outputs-compared"]++
		}
	}
	// 2. events == the relevant events of the best chain's blocks
	evs, err := w.w.Events(0, 1<<30)
	if err != nil {
		w.report("c06-store-error", "%v", err)
		return
	}
	// the same list read through the paging API, page size 1, 3, 100 or 2^30 in turn
	w.checks++
	page := []int{1, 3, 100, 1 << 30}[w.checks%4]
	if page < 7 && len(evs) > 60 {
		page = 7 // (every page read sorts the whole list)
	}
	var paged []wallet.Event
	for off := 0; off <= len(evs); off += page {
		var p []wallet.Event
		func() {
			defer func() {
				if r := recover(); r != nil {
					w.report("c06-events-page-panics", "at tip %d Events(%d, %d) panicked with %d events stored: %v", tipN.Idx, off, page, len(evs), r)
				}
			}()
			p, err = w.w.Events(off, page)
		}()
		if w.fail != nil {
			return
		}
		if err != nil || len(p) == 0 {
			break
		}
		paged = append(paged, p...)
		w.stats["event-pages-read"]++
	}
	same := len(paged) == len(evs)
	for i := 0; same && i < len(evs); i++ {
		same = paged[i].ID == evs[i].ID && paged[i].Index == evs[i].Index && paged[i].Type == evs[i].Type
	}
	if !same {
		w.report("c06-events-pages-differ-from-the-list", "at tip %d the %d events read in pages of %d are not the list Events(0, 2^30) returns (%d events)", tipN.Idx, len(paged), page, len(evs))
		return
	}
	var have []evRow
	var sumIn, sumOut types.Currency
	for _, ev := range evs {
		have = append(have, evRow{ev.Type, ev.ID, ev.SiacoinInflow(), ev.SiacoinOutflow(), ev.Index, ev.MaturityHeight})
		sumIn, sumOut = sumIn.Add(ev.SiacoinInflow()), sumOut.Add(ev.SiacoinOutflow())
	}
	path := append([]*chaingen.Node{w.t.Nodes[0]}, w.t.Path(tipN)...)
	onBest := map[types.ChainIndex]bool{}
	var ref []evRow
	for _, y := range path {
		onBest[types.ChainIndex{Height: y.Height, ID: y.ID}] = true
		ref = append(ref, refEvents(y, w.tw.Update(y), w.addr)...)
	}
	for _, e := range have {
		if !onBest[e.index] {
			w.report("c06-event-from-reverted-block", "at tip %d the wallet still lists event %s of a block that is not on the best chain", tipN.Idx, e.key())
			return
		}
	}
	count := map[string]int{}
	byKey := map[string]evRow{}
	for _, e := range ref {
		count[e.key()]++
		byKey[e.key()] = e
	}
	for _, e := range have {
		count[e.key()]--
		byKey[e.key()] = e
	}
	var diffs []string
	kinds := map[string]bool{}
	for k, c := range count {
		if c > 0 {
			diffs = append(diffs, "missing: "+k)
			kinds[byKey[k].typ] = true
		} else if c < 0 {
			diffs = append(diffs, "unexpected: "+k)
			kinds[byKey[k].typ] = true
		}
	}
	if len(diffs) > 0 {
		sort.Strings(diffs)
		kind := "c06-events-differ"
		if len(kinds) == 1 && kinds[wallet.EventTypeSiafundClaim] {
			kind = "c06-siafund-claim-event-mismatch"
		} else if len(kinds) == 1 && kinds[wallet.EventTypeV2ContractResolution] {
			kind = "c06-v2-resolution-event-mismatch"
		} else if len(kinds) == 1 && kinds[wallet.EventTypeFoundationSubsidy] {
			kind = "c06-foundation-event-mismatch"
		}
		// a whole block's events missing: every difference is a missing event of a block for which the
		// wallet lists nothing at all (e.g. a block that touches the address only through outputs
		// created and spent inside it)
		if kind == "c06-events-differ" {
			haveAt := map[types.ChainIndex]int{}
			for _, e := range have {
				haveAt[e.index]++
			}
			whole := true
			for k, c := range count {
				if c < 0 || (c > 0 && haveAt[byKey[k].index] > 0) {
					whole = false
				}
			}
			if whole {
				kind = "c06-block-without-events"
			}
		}
		if len(diffs) > 6 {
			diffs = append(diffs[:6], fmt.Sprintf("... (%d in all)", len(diffs)))
		}
		var sum types.Currency
		for _, e := range utxos {
			sum = sum.Add(e.SiacoinOutput.Value)
		}
		w.report(kind, "at tip %d the wallet's events differ from the relevant events of the best chain's blocks: %s (sum of event inflows %v - outflows %v, sum of unspent outputs %v)", tipN.Idx, strings.Join(diffs, "; "), sumIn, sumOut, sum)
		return
	}
	w.stats["events-compared"] += len(have)
	for _, e := range have {
		w.stats["event:"+e.typ]++
	}
	// 3. the balance identity
	var sum types.Currency
	for _, e := range utxos {
		sum = sum.Add(e.SiacoinOutput.Value)
	}
	if sumIn.Cmp(sumOut) < 0 || sumIn.Sub(sumOut) != sum {
		w.report("c06-balance-identity", "at tip %d: sum of event inflows %v - outflows %v != sum of unspent outputs %v", tipN.Idx, sumIn, sumOut, sum)
		return
	}
	// observation for the model: sorted (id, value, maturity) and the event list in display order
	if w.second {
		return
	}
	if !(w.force || (w.revertedSinceCheck && w.rendered < 3)) {
		return
	}
	w.revertedSinceCheck = false
	w.rendered++
	var us []string
	sort.Slice(utxos, func(i, j int) bool {
		return w.ab.hid(types.Hash256(utxos[i].ID)) < w.ab.hid(types.Hash256(utxos[j].ID))
	})
	for _, e := range utxos {
		us = append(us, fmt.Sprintf("(%d, (%s)%%Z, %d)", w.ab.hid(types.Hash256(e.ID)), e.SiacoinOutput.Value.ExactString(), e.MaturityHeight))
	}
	var es []string
	for _, e := range have {
		es = append(es, fmt.Sprintf("Ev (%d, %d) %d (%s)%%Z (%s)%%Z %d %d", e.index.Height, w.node(e.index), w.ab.hid(e.id), e.in.ExactString(), e.out.ExactString(), kindCode(e.typ), e.maturity))
	}
	w.coq = append(w.coq, fmt.Sprintf("SCheck [%s]\n      [%s]", strings.Join(us, "; "), strings.Join(es, "; ")))
}

func kindCode(t string) int {
	switch t {
	case wallet.EventTypeMinerPayout:
		return 0
	case wallet.EventTypeFoundationSubsidy:
		return 1
	case wallet.EventTypeSiafundClaim:
		return 2
	case wallet.EventTypeV1Transaction:
		return 3
	case wallet.EventTypeV1ContractResolution:
		return 4
	case wallet.EventTypeV2Transaction:
		return 5
	case wallet.EventTypeV2ContractResolution:
		return 6
	}
	return 99
}

func runCase(cs Case, t *chaingen.Tree) *world {
	w := newWorld(t)
	defer w.close()
	for _, ev := range cs.Evs {
		switch ev.K {
		case "op":
			o := w.s.Do(*ev.Op)
			w.ops = append(w.ops, *ev.Op)
			if o.Panic {
				w.report("c06-manager-panic", "%v panicked: %s", ev.Op, o.ErrText)
			}
		case "poll":
			w.poll(ev.Max)
		case "sync":
			w.sync(ev.Max)
		}
		if w.fail != nil {
			return w
		}
	}
	if w.idx == w.s.CM.Tip() && (len(w.coq) == 0 || !strings.HasPrefix(w.coq[len(w.coq)-1], "SCheck")) {
		w.force = true
		w.checkBoth()
	}
	return w
}

func genCase(r *rng.R, regime int) (Case, *chaingen.Tree) {
	var cs Case
	var t *chaingen.Tree
	for t == nil {
		cs = Case{Seed: r.U64(), Regime: regime, Gen: 2, Foundation: r.Chance(1, 3), Rotate: r.Chance(1, 3), Split: regime%3 != 2 && r.Bool(), Opts: chaingen.GenOpts{Blocks: 6 + r.Intn(14), Branchiness: 2 + r.Intn(4), TxPerBlock: 2 + r.Intn(4), Corruptions: r.Intn(2), Jitter: r.Intn(3)}}
		if regime >= 3 && r.Bool() {
			cs.Opts.Jitter = 4000
		}
		t = cs.tree()
	}
	plan := mgrsim.GenPlan(rng.New(cs.Seed^0x5bd1e995), t, false)
	cs.Evs = append(cs.Evs, Ev{K: "sync", Max: chunkSizes[r.Intn(len(chunkSizes))]})
	for i := range plan {
		op := plan[i]
		cs.Evs = append(cs.Evs, Ev{K: "op", Op: &op})
		switch r.Intn(6) {
		case 0, 1: // one chunk (possibly ending on a revert, possibly short of the tip)
			cs.Evs = append(cs.Evs, Ev{K: "poll", Max: chunkSizes[r.Intn(3)]})
		case 2, 3:
			cs.Evs = append(cs.Evs, Ev{K: "sync", Max: chunkSizes[r.Intn(len(chunkSizes))]})
		case 4: // several small chunks
			for k := 1 + r.Intn(3); k > 0; k-- {
				cs.Evs = append(cs.Evs, Ev{K: "poll", Max: 1 + r.Intn(2)})
			}
		}
	}
	for _, op := range mgrsim.FinalFlush(t) {
		op := op
		cs.Evs = append(cs.Evs, Ev{K: "op", Op: &op})
		if r.Bool() {
			cs.Evs = append(cs.Evs, Ev{K: "poll", Max: chunkSizes[r.Intn(3)]})
		}
	}
	cs.Evs = append(cs.Evs, Ev{K: "sync", Max: chunkSizes[r.Intn(len(chunkSizes))]})
	return cs, t
}

func shrink(cs Case, t *chaingen.Tree, kind string) Case {
	fails := func(c Case) bool {
		w := runCase(c, t)
		return w.fail != nil && w.fail.kind == kind
	}
	for changed := true; changed; {
		changed = false
		for i := range cs.Evs {
			c := cs
			c.Evs = append(append([]Ev(nil), cs.Evs[:i]...), cs.Evs[i+1:]...)
			if fails(c) {
				cs, changed = c, true
				break
			}
		}
		if changed {
			continue
		}
		for i := range cs.Evs {
			if cs.Evs[i].K != "op" || cs.Evs[i].Op.Kind == "addv" || len(cs.Evs[i].Op.Nodes) <= 1 {
				continue
			}
			// drop the last node of a batch
			c := cs
			c.Evs = append([]Ev(nil), cs.Evs...)
			op := *cs.Evs[i].Op
			op.Nodes = append([]int(nil), op.Nodes[:len(op.Nodes)-1]...)
			c.Evs[i].Op = &op
			if fails(c) {
				cs, changed = c, true
				break
			}
		}
	}
	return cs
}

func evString(ev Ev) string {
	switch ev.K {
	case "op":
		return ev.Op.String()
	case "poll":
		return fmt.Sprintf("poll(max %d)", ev.Max)
	}
	return fmt.Sprintf("sync(max %d)", ev.Max)
}

func describe(t *chaingen.Tree) []string {
	var out []string
	for _, n := range t.Nodes {
		p := -1
		if n.Parent != nil {
			p = n.Parent.Idx
		}
		out = append(out, fmt.Sprintf("block %d parent %d height %d valid=%v kinds=%v", n.Idx, p, n.Height, n.ChainValid(), n.Kinds))
	}
	return out
}

func run(c *hx.Ctx) {
	res := c.Res
	res.Shard = 40
	res.Rule = "fork trees of real mined blocks (6 regimes) in which the wallet address is miner (1 in 3 blocks), payee, spender, v1/v2 contract party (valid, missed, renewed - incl. renewals whose final outputs pay other addresses -, expired), siafund owner, claimant for another owner's siafunds, and (via the claim/foundation outputs) recipient; mgrsim submission plans interleaved with chunks of the update stream (max 1,2,3,7,1000; chunks ending on a revert; chunks short of the tip); non-trivial := the wallet reverted at least one block and the best chain carried at least 3 event kinds; distinct by (tree seed, events)"
	var cases []string
	failed := map[string]int{}
	doCase := func(cs Case, t *chaingen.Tree) {
		w := runCase(cs, t)
		js, _ := json.Marshal(cs)
		kinds := 0
		for k := range w.stats {
			if strings.HasPrefix(k, "event:") {
				kinds++
			}
		}
		res.Eval(string(js), w.stats["blocks-reverted"] > 0 && kinds >= 3)
		res.Count("regime:" + chaingen.RegimeNames[cs.Regime])
		for k, v := range w.stats {
			res.CountN(k, v)
		}
		for _, n := range t.Nodes {
			only := len(n.Kinds) > 0
			for _, k := range n.Kinds {
				if strings.HasPrefix(k, "w-") || strings.Contains(k, "siafund") {
					res.Count("tx:" + k)
				}
				if k != "w-pass-through" {
					only = false
				}
			}
			if only && len(n.Block.MinerPayouts) == 1 && n.Block.MinerPayouts[0].Address != t.Env.Addr {
				res.Count("blocks-touching-the-wallet-only-through-pass-through-outputs")
			}
			if n.Parent != nil && n.ChainValid() && n.FullState.FoundationSubsidyAddress != n.Parent.FullState.FoundationSubsidyAddress {
				if _, ok := n.Parent.FullState.FoundationSubsidy(); ok {
					if n.Parent.FullState.FoundationSubsidyAddress == t.Env.Addr {
						res.Count("subsidy-blocks-with-address-update:wallet-is-the-outgoing-foundation")
					} else if n.FullState.FoundationSubsidyAddress == t.Env.Addr {
						res.Count("subsidy-blocks-with-address-update:wallet-is-the-incoming-foundation")
					}
				} else {
					res.Count("foundation-address-updates-in-other-blocks")
				}
			}
		}
		if w.fail != nil {
			small := cs
			if failed[w.fail.kind] < 3 { // only the first replays of a kind are kept: shrink those
				small = shrink(cs, t, w.fail.kind)
			}
			failed[w.fail.kind]++
			w2 := runCase(small, t)
			f := w2.fail
			if f == nil {
				f, small = w.fail, cs
			}
			var evs []string
			for _, ev := range small.Evs {
				evs = append(evs, evString(ev))
			}
			res.Fail(f.kind, f.detail, map[string]any{"case": small, "events": evs, "tree": describe(t)})
			return
		}
		cases = append(cases, w.ab.coqCase(w.used, w.coq))
		if len(res.Samples) < 2 {
			var evs []string
			for _, ev := range cs.Evs {
				evs = append(evs, evString(ev))
			}
			res.Sample(map[string]any{"regime": chaingen.RegimeNames[cs.Regime], "tree": describe(t), "events": evs, "stats": w.stats})
		}
	}
	if c.Replay != "" {
		var rp struct {
			Replay struct {
				Case Case `json:"case"`
			} `json:"replay"`
		}
		b, _ := os.ReadFile(c.Replay)
		json.Unmarshal(b, &rp)
		if t := rp.Replay.Case.tree(); t != nil {
			doCase(rp.Replay.Case, t)
		}
		res.WriteCases("Run.Run_C06", cases)
		return
	}
	for _, d := range directed() {
		doCase(d.cs, d.t)
	}
	n := c.Scale(260, 3000)
	for i := 0; i < n; i++ {
		r := c.R.Fork()
		cs, t := genCase(r, i%6)
		doCase(cs, t)
	}
	res.Notes = append(res.Notes, "side finding outside the property's wording (not judged): EphemeralWalletStore.WalletEvents(offset >= 1, math.MaxInt) panics (offset+limit overflows); Go test corpus/C06/events_huge_limit_test.go, proposed patch fixes/C06-3.patch")
	res.Notes = append(res.Notes, "the subscriber index is kept by the harness (the index the stream left it at); testutil.EphemeralWalletStore.Tip() records the reverted block's index after a chunk that ends on a revert (counter reference-store-tip-is-the-reverted-index): outside the property by its own wording, not judged")
	res.WriteCases("Run.Run_C06", cases)
}

var _ = chain.ErrMissingBlock
