package main

// C18: limits and shutdown are honoured under any schedule.
//
// Sections (each drives the real code of go.sia.tech/coreutils):
//   lint      structure of runPeer / allowConnect / addPeer / ThreadGroup that the model's
//             atomic steps rely on (go/ast), checked on every run
//   phased    real syncers, raw gateway peers on chosen 127.0.x.y addresses, a blocking
//             ChainManager; bursts / releases / connects / disconnects / Close; the event log
//             is written as cases for Net/Limits.v (trace validation) and judged by monitors
//   stress    the same bed free-running (random timing, Close in the middle), monitors only
//   caps      simultaneous inbound connections against a small MaxInboundPeers, outbound
//             connections made by peerLoop against a small MaxOutboundPeers
//   shutdown  ThreadGroup, rhp4.Server (with an RPC in flight) and SingleAddressWallet:
//             Close/Stop waits, returns, leaves no goroutine, rejects later work

import (
	"encoding/json"
	"fmt"
	"os"
	"strings"
	"time"

	"verif/harness/internal/hx"
	"verif/harness/internal/rng"
)

type Ctx = hx.Ctx

func main() {
	if os.Getenv("C18_CHILD") != "" {
		childMain()
		return
	}
	hx.Main("C18", runC18)
}

var subnetLimits = []int{-1, 0, 1, 2, 64}
var peerLimits = []int{1, 2, 3, 64}

type replayFile struct {
	Replay struct {
		Section string    `json:"section"`
		Seed    uint64    `json:"seed"`
		Cfg     bedConfig `json:"cfg"`
		Variant int       `json:"variant"`
	} `json:"replay"`
}

// failedRuns counts the runs of each section that ended in a monitor failure; a section stops
// after a few of them (each costs timeouts, and three replays per kind are kept anyway).
var failedRuns = map[string]int{}

// hungRun: some Stop / Close / Add of this run never came back.  The hung object cannot be waited
// for and its goroutines would disturb every later inventory, so the remaining sections are skipped
// and the harness finishes with the replays it has.
var hungRun bool

func giveUp(section string) bool { return hungRun || failedRuns[section] >= 3 }

func report(c *Ctx, section string, seed uint64, cfg bedConfig, variant int, steps []string, fails []failure) {
	if len(fails) > 0 {
		failedRuns[section]++
	}
	for _, f := range fails {
		if strings.HasSuffix(f.kind, "-deadlock") {
			hungRun = true
		}
	}
	seen := map[string]bool{}
	for _, f := range fails {
		if seen[f.kind] {
			c.Res.Count("fail:" + f.kind)
			continue
		}
		seen[f.kind] = true
		c.Res.Fail(f.kind, f.detail, map[string]any{"section": section, "seed": seed, "cfg": cfg, "variant": variant, "script": steps})
	}
}

func runC18(c *Ctx) {
	res := c.Res
	res.Rule = "a case is one run of a real syncer / thread group / rhp4 server / wallet under a generated script (limits, peers, subnets, bursts, releases, connects, Close moment) together with the label sequence observed; non-trivial := the run contains at least one of: a request blocked on a full per-peer channel, a subnet drop, a refused connection, or a Close/Stop issued while work was in flight; distinct by configuration + script"
	t0 := time.Now()
	var cases []string

	if os.Getenv("C18_LINT_ONLY") != "" { // for inspecting what the source lints say about a tree
		for _, t := range runLint(c) {
			res.BreakTie(t.name, t.detail)
		}
		return
	}
	if c.Replay != "" {
		var rp replayFile
		b, _ := os.ReadFile(c.Replay)
		json.Unmarshal(b, &rp)
		rp0 := rp.Replay
		for i := 0; i < 10; i++ {
			switch rp0.Section {
			case "lint":
				runDirected(c, runLint(c), &cases)
			case "phased":
				cs, _ := phasedScenario(c, rp0.Seed, rp0.Cfg, rp0.Variant)
				cases = append(cases, cs...)
			case "caps-inbound":
				cases = append(cases, capsInbound(c, rp0.Seed, rp0.Cfg, rp0.Variant)...)
			case "caps-outbound":
				cases = append(cases, capsOutbound(c, rp0.Seed, rp0.Cfg.MaxOut, rp0.Variant)...)
			case "stress":
				stressRun(c, rp0.Seed, rp0.Cfg, rp0.Variant)
			case "threadgroup":
				tgScripted(c, rp0.Seed, &cases)
			case "threadgroup-stress":
				tgStress(c, rp0.Seed)
			case "threadgroup-race":
				tgRace(c, rp0.Seed)
			case "aborts":
				abortScenario(c, rp0.Seed, rp0.Variant)
			case "same-address":
				sameAddress(c, rp0.Seed, rp0.Variant)
			case "close-during-sync":
				closeDuringSync(c, rp0.Seed, rp0.Variant)
			case "close-while-connecting":
				closeWhileConnecting(c, rp0.Seed, rp0.Variant)
			case "rhp4-shutdown":
				rhp4Shutdown(c, rp0.Seed, rp0.Variant, &cases)
			case "wallet-shutdown":
				walletShutdown(c, rp0.Seed, rp0.Variant, &cases)
			default:
				runShutdown(c, &cases)
			}
			if len(c.Res.Failures) > 0 {
				break // reproduced
			}
		}
		res.WriteCases("Run.Run_C18", cases)
		return
	}

	ties := runLint(c)
	runThreadgroupScripted(c, &cases)

	// phased scenarios: every per-subnet limit in {-1,0,1,2,64} x per-peer limit in {1,2,3,64}
	nPhased := c.Scale(150, 1500)
	for i := 0; i < nPhased && !giveUp("phased"); i++ {
		cfg := bedConfig{
			MaxSubnet: subnetLimits[i%len(subnetLimits)],
			MaxRPC:    peerLimits[(i/len(subnetLimits))%3],
			MaxIn:     64, MaxOut: 16, V4Bits: 24,
		}
		if i%12 >= 10 {
			cfg.MaxRPC = 64 // the default; costs a few hundred requests per scenario
		}
		seed := c.R.U64()
		cfg.V4Bits = []int{24, 24, 32, 16, 0}[rng.New(seed).Intn(5)] // /0 and /16: all peers share one subnet
		cs, _ := phasedScenario(c, seed, cfg, i%3+3*((i/3)%4))
		cases = append(cases, cs...)
	}
	res.Notes = append(res.Notes, fmt.Sprintf("phased: %d scenarios in %.1fs", nPhased, time.Since(t0).Seconds()))

	t1 := time.Now()
	nCaps := c.Scale(60, 600)
	for m := 0; m <= 4 && !hungRun; m++ { // corpus: the minimal F12 witness for each cap (0: nobody gets in)
		cases = append(cases, capsInbound(c, uint64(m), bedConfig{MaxSubnet: 64, MaxRPC: 4, MaxIn: m, MaxOut: 16, V4Bits: 24}, -1)...)
	}
	for i := 0; i < nCaps && !giveUp("caps-inbound"); i++ {
		cfg := bedConfig{MaxSubnet: 64, MaxRPC: 4, MaxIn: []int{1, 2, 3, 1, 2, 3, 0, 4, -1}[i%9], MaxOut: 16, V4Bits: 24}
		cases = append(cases, capsInbound(c, c.R.U64(), cfg, i)...)
	}
	for i := 0; i < c.Scale(6, 40) && !giveUp("caps-outbound"); i++ {
		cases = append(cases, capsOutbound(c, c.R.U64(), 1+i%3, 2+i%4)...)
	}
	res.Notes = append(res.Notes, fmt.Sprintf("caps: %d inbound scenarios in %.1fs", nCaps, time.Since(t1).Seconds()))

	t2 := time.Now()
	nStress := c.Scale(20, 200)
	for i := 0; i < nStress && !giveUp("stress") && failedRuns["threadgroup"] == 0; i++ {
		cfg := bedConfig{
			MaxSubnet: subnetLimits[i%len(subnetLimits)],
			MaxRPC:    []int{1, 2, 4}[i%3],
			MaxIn:     64, MaxOut: 16, V4Bits: 24,
		}
		stressRun(c, c.R.U64(), cfg, i)
	}
	res.Notes = append(res.Notes, fmt.Sprintf("stress: %d runs in %.1fs", nStress, time.Since(t2).Seconds()))

	ta := time.Now()
	for i := 0; i < c.Scale(12, 120) && !giveUp("aborts"); i++ {
		abortScenario(c, c.R.U64(), i)
	}
	for i := 0; i < c.Scale(8, 80) && !giveUp("same-address"); i++ {
		sameAddress(c, c.R.U64(), i)
	}
	res.Notes = append(res.Notes, fmt.Sprintf("aborts and same-address reconnects: %.1fs", time.Since(ta).Seconds()))

	for i := 0; i < c.Scale(8, 60) && !giveUp("close-during-sync"); i++ {
		closeDuringSync(c, c.R.U64(), i)
	}

	tc := time.Now()
	for i := 0; i < c.Scale(32, 320) && !giveUp("close-while-connecting") && failedRuns["threadgroup"] == 0; i++ {
		closeWhileConnecting(c, c.R.U64(), i)
	}
	res.Notes = append(res.Notes, fmt.Sprintf("close while connecting: %.1fs", time.Since(tc).Seconds()))

	t3 := time.Now()
	runShutdown(c, &cases)
	res.Notes = append(res.Notes, fmt.Sprintf("shutdown: %.1fs", time.Since(t3).Seconds()))

	// the source no longer shows a discipline the model relies on: search harder before saying so
	if len(ties) > 0 && !hungRun {
		runDirected(c, ties, &cases)
	}

	if !hungRun {
		observePeerLimitBelowOne(c)
	}

	// several files: bin/check evaluates them in parallel
	for i := 0; i < len(cases); i += 60 {
		res.WriteCases("Run.Run_C18", cases[i:min(i+60, len(cases))])
	}
	res.Notes = append(res.Notes, fmt.Sprintf("total %.1fs", time.Since(t0).Seconds()))
}

// phasedScenario generates and runs one phased scenario; variant 0: Close after everything
// was served, 1: Close while handlers are held and requests are blocked, 2: like 1 with a
// disconnect/reconnect in the script.
func phasedScenario(c *Ctx, seed uint64, cfg bedConfig, fullVariant int) (cases []string, ok bool) {
	r := rng.New(seed)
	// fullVariant = script variant (0..2) + 3 * the way Close is reached (closePlain..closeTwice)
	variant, mode := fullVariant%3, (fullVariant/3)%4
	cfg.FailHistory = mode == closeRunFailed
	pinned := mode == closeListenerFirst || mode == closeRunFailed // handlers held, nothing blocked
	sc, err := newScen(cfg, r)
	if err != nil {
		c.Res.Fail("harness-setup-failed", err.Error(), nil)
		return nil, false
	}
	defer sc.cleanup()
	L := cfg.MaxRPC
	sc.endingRate = []int{0, 6, 3}[r.Intn(3)] // some handlers end in an error, a panic, or with the client gone

	n := 1 + r.Intn(4)
	if L > 8 {
		n = 1 + r.Intn(2)
	}
	var specs [][2]int
	for i := 0; i < n; i++ {
		sub := 1 + r.Intn(2)
		host := 10 + i
		if cfg.V4Bits == 32 && i > 0 && r.Bool() {
			sub, host = specs[i-1][0], specs[i-1][1] // same address: same /32 subnet
		}
		specs = append(specs, [2]int{sub, host})
	}
	// some of the peers are ones the syncer dialled itself: the RPC limits apply to them all the same
	var outSpecs [][2]int
	if len(specs) > 1 && r.Intn(3) == 0 {
		k := 1 + r.Intn(len(specs)-1)
		outSpecs, specs = specs[:k], specs[k:]
	}
	sc.connectBatch(specs)
	for _, sp := range outSpecs {
		sc.connectOutbound(sp[0], sp[1])
	}

	burstCounts := func(big bool) map[int]int {
		m := map[int]int{}
		for _, p := range sc.peers {
			k := r.Intn(min(L, 4) + 3)
			if big && L > 4 && r.Intn(3) == 0 {
				k = L + 2
			}
			m[p.id] = k
		}
		return m
	}

	nph := 3 + r.Intn(5)
	if L > 8 {
		nph = 2 + r.Intn(2)
	}
	for ph := 0; ph < nph && len(sc.fails) == 0; ph++ {
		switch x := r.Intn(100); {
		case x < 50:
			sc.burst(burstCounts(true), fmt.Sprintf("phase %d burst", ph))
		case x < 85:
			live := sc.liveHandlers()
			var pick []*rpcInfo
			for _, ri := range live {
				if r.Bool() {
					pick = append(pick, ri)
				}
			}
			if len(pick) == 0 && len(live) > 0 {
				pick = live[:1]
			}
			if len(pick) > 0 {
				sc.release(pick, fmt.Sprintf("phase %d release", ph))
			}
		case x < 92 || variant != 2:
			if len(sc.peers) < 6 {
				sc.connectBatch([][2]int{{1 + r.Intn(2), 30 + sc.next}})
			}
		default:
			// a peer with nothing open goes away (its held handlers stay) and comes back
			for _, p := range sc.peers {
				open := false
				sc.tb.mu.Lock()
				for _, ri := range sc.tb.rpcs {
					if ri.conn == p.id && !ri.resolved() {
						open = true
					}
				}
				sc.tb.mu.Unlock()
				if !open {
					sub, host := p.sub, p.host
					sc.disconnect(p)
					sc.connectBatch([][2]int{{sub, host}})
					break
				}
			}
		}
	}

	if len(sc.fails) == 0 {
		// everything is served, then every peer fills its channel again: all slots are back
		sc.drain("drain")
		probe := map[int]int{}
		for _, p := range sc.peers {
			probe[p.id] = L
			if variant != 0 && !pinned {
				probe[p.id] = L + 1 + r.Intn(2) // leave some blocked for the Close below
			}
		}
		sc.burst(probe, "capacity probe")
		// the probe must have brought every subnet to min(limit, sum of its peers' limits)
		sc.tb.mu.Lock()
		want := map[int]int{}
		for _, p := range sc.peers {
			want[p.key] += L
		}
		for k, w := range want {
			if cfg.MaxSubnet > 0 && w > cfg.MaxSubnet {
				w = cfg.MaxSubnet
			}
			if got := sc.tb.liveSub[k]; got != w && len(sc.fails) == 0 {
				sc.fails = append(sc.fails, failure{"syncer-slot-leak", fmt.Sprintf("after every handler had ended, the peers of subnet %d filled their channels again but only %d handlers run; %d slots should be available (per-peer %d, per-subnet %d)", k, got, w, L, cfg.MaxSubnet)})
			}
		}
		sc.tb.mu.Unlock()
	}
	if len(sc.fails) == 0 && variant == 0 && !pinned {
		sc.drain("final drain")
	}

	nontrivial := sc.notes["dropped"] > 0
	sc.tb.mu.Lock()
	for _, ri := range sc.tb.rpcs {
		if !ri.resolved() || variant != 0 || pinned {
			nontrivial = true
		}
	}
	pre := append([]string(nil), sc.trace...)
	sc.tb.mu.Unlock()
	in, out, live := sc.observe()
	if len(sc.fails) == 0 {
		cases = append(cases, sc.coqCase(pre, in, out, live, false))
		sc.closeSyncer("close", mode)
		sc.tb.mu.Lock()
		full := append([]string(nil), sc.trace...)
		sc.tb.mu.Unlock()
		in2, out2, live2 := sc.observe()
		if len(sc.fails) == 0 && !sc.noTrace {
			cases = append(cases, sc.coqCase(full, in2, out2, live2, true))
		}
		c.Res.Count("phased:close-mode=" + closeModeName[mode])
	}

	canon := fmt.Sprintf("%+v|%s", cfg, strings.Join(sc.steps, "|"))
	c.Res.Eval(canon, nontrivial)
	c.Res.Count(fmt.Sprintf("phased:subnet-limit=%d", cfg.MaxSubnet))
	c.Res.Count(fmt.Sprintf("phased:peer-limit=%d", cfg.MaxRPC))
	c.Res.Count(fmt.Sprintf("phased:ipv4-prefix=/%d", cfg.V4Bits))
	c.Res.CountN("phased:outbound-peers", sc.notes["outbound"])
	for e := range endingName {
		c.Res.CountN("phased:handler-ending="+endingName[e], sc.notes["ending:"+endingName[e]])
	}
	if variant == 0 {
		c.Res.Count("phased:probe-exactly-at-limit")
	} else {
		c.Res.Count("phased:probe-above-limit")
	}
	c.Res.CountN("phased:requests", len(sc.tb.rpcs))
	c.Res.CountN("phased:dropped", sc.notes["dropped"])
	c.Res.CountN("phased:labels", len(sc.trace))
	if len(c.Res.Samples) < 2 {
		c.Res.Sample(map[string]any{"section": "phased", "cfg": cfg, "script": sc.steps})
	}
	report(c, "phased", seed, cfg, fullVariant, sc.steps, sc.fails)
	return cases, len(sc.fails) == 0
}
