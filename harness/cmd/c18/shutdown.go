package main

// Close / Stop of a ThreadGroup, an rhp4.Server and a SingleAddressWallet: returns (within a
// timeout), only after the background work has stopped, leaves no goroutine behind, and
// rejects work submitted afterwards.  The observed Add / Done / Stop events are written as
// cases for the thread-group labels of Net/Limits.v.

import (
	"context"
	"errors"
	"fmt"
	"net"
	"runtime"
	"strings"
	"sync"
	"sync/atomic"
	"time"

	proto4 "go.sia.tech/core/rhp/v4"
	"go.sia.tech/core/types"
	coreutils "go.sia.tech/coreutils"
	"go.sia.tech/coreutils/chain"
	rhp4 "go.sia.tech/coreutils/rhp/v4"
	"go.sia.tech/coreutils/rhp/v4/siamux"
	"go.sia.tech/coreutils/testutil"
	"go.sia.tech/coreutils/threadgroup"
	"go.sia.tech/coreutils/wallet"
	"go.uber.org/zap"
	"verif/harness/internal/rng"
)

// watchdog bounds every Stop / Add of the thread-group sections.
const watchdog = 5 * time.Second

const tgCfg = "(mk_config 1%nat (0)%Z (0)%Z (0)%Z true)"

func tgCase(trace []string, stopped bool) string {
	return fmt.Sprintf("mk_case %s [%s] 0 0 0 %s", tgCfg, strings.Join(trace, "; "), coqBool(stopped))
}

// runThreadgroupScripted comes first of all sections: a group that admits threads after Stop
// makes the runtime panic in WaitGroup.Wait under concurrent load (which would take the harness
// down before it can report), so the sections that put such load on a group are skipped when the
// scripted runs have already produced the replay.
func runThreadgroupScripted(c *Ctx, cases *[]string) {
	for i := 0; i < c.Scale(60, 600) && !giveUp("threadgroup"); i++ {
		tgScripted(c, c.R.U64(), cases)
	}
}

func runShutdown(c *Ctx, cases *[]string) {
	// (a group that lets threads in after Stop makes the runtime panic in WaitGroup.Wait under load:
	// the scripted runs above report that with a replay, the load test is then skipped)
	for i := 0; i < c.Scale(30, 300) && !giveUp("threadgroup-stress") && failedRuns["threadgroup"] == 0; i++ {
		tgStress(c, c.R.U64())
	}
	if failedRuns["threadgroup"] == 0 && !hungRun {
		tgRace(c, c.R.U64())
	}
	for i := 0; i < c.Scale(16, 64) && !giveUp("rhp4-shutdown"); i++ {
		rhp4Shutdown(c, c.R.U64(), i, cases)
	}
	for i := 0; i < c.Scale(8, 40) && !giveUp("wallet-shutdown"); i++ {
		walletShutdown(c, c.R.U64(), i, cases)
	}
}

// ------------------------------------------------------------ ThreadGroup, scripted

// tgScripted drives one ThreadGroup from a single goroutine (only Stop runs beside it, because
// it blocks), so the order of the logged events is the order in which they happened.
func tgScripted(c *Ctx, seed uint64, cases *[]string) {
	r := rng.New(seed)
	tg := threadgroup.New()
	var trace, steps []string
	var fails []failure
	var held []func()
	var ctxs []context.Context
	stopCalled, stopBegun, stopReturned := false, false, false
	var stopRet []chan struct{}
	inflightAtStop := 0

	awaitStop := func() {
		for _, ch := range stopRet {
			select {
			case <-ch:
			case <-time.After(watchdog):
				fails = append(fails, failure{"threadgroup-stop-deadlock", fmt.Sprintf("Stop did not return within %v although every thread had called done\n%s", watchdog, strings.Join(goroutinesWith("coreutils/threadgroup."), "\n\n"))})
				hungRun = true
				return
			}
		}
		if !stopReturned {
			stopReturned = true
			trace = append(trace, "LStopReturn")
		}
	}
	n := 4 + r.Intn(14)
	for i := 0; i < n && len(fails) == 0; i++ {
		switch x := r.Intn(10); {
		case x < 4: // Add (or AddContext)
			useCtx := r.Intn(3) == 0
			var done func()
			var err error
			// Add runs under a watchdog: while Stop is draining, an Add -- also one made by a thread
			// that is already a member (the syncer's connection goroutines do that through
			// allowConnect) -- must come back with ErrClosed at once, not wait for Stop
			type addRes struct {
				ctx  context.Context
				done func()
				err  error
			}
			ch := make(chan addRes, 1)
			go func() {
				var a addRes
				if useCtx {
					a.ctx, a.done, a.err = tg.AddContext(context.Background())
				} else {
					a.done, a.err = tg.Add()
				}
				ch <- a
			}()
			select {
			case a := <-ch:
				done, err = a.done, a.err
				if useCtx && err == nil {
					ctxs = append(ctxs, a.ctx)
				}
			case <-time.After(watchdog):
				steps = append(steps, fmt.Sprintf("Add with %d members still in the group, Stop called: %v", len(held), stopCalled))
				fails = append(fails, failure{"threadgroup-stop-deadlock", fmt.Sprintf("Add (Stop called: %v, %d members have not called done) did not return within %v: a member that calls Add while Stop drains blocks, and Stop waits for that member\n%s", stopCalled, len(held), watchdog, strings.Join(goroutinesWith("coreutils/threadgroup."), "\n\n"))})
				hungRun = true
				report(c, "threadgroup", seed, bedConfig{}, 0, steps, fails)
				return
			}
			ok := err == nil
			steps = append(steps, fmt.Sprintf("Add -> %v", err))
			trace = append(trace, "LTgAdd "+coqBool(ok))
			switch {
			case ok && stopBegun:
				fails = append(fails, failure{"threadgroup-add-after-stop-accepted", "Add returned no error after Stop had closed the group"})
			case !ok && !stopCalled:
				fails = append(fails, failure{"threadgroup-add-refused-before-stop", fmt.Sprintf("Add failed (%v) although Stop was never called", err)})
			case !ok && !errors.Is(err, threadgroup.ErrClosed):
				fails = append(fails, failure{"threadgroup-add-wrong-error", fmt.Sprintf("Add after Stop returned %v, not ErrClosed", err)})
			}
			if ok {
				held = append(held, done)
			}
		case x < 8: // done
			if len(held) == 0 {
				continue
			}
			j := r.Intn(len(held))
			// Stop must still be waiting for this thread
			if stopBegun {
				for _, ch := range stopRet {
					select {
					case <-ch:
						fails = append(fails, failure{"threadgroup-stop-returned-with-live-threads", fmt.Sprintf("Stop returned while %d threads had not called done", len(held))})
					default:
					}
				}
			}
			held[j]()
			held = append(held[:j], held[j+1:]...)
			steps = append(steps, "done")
			trace = append(trace, "LTgDone")
			if stopBegun && len(held) == 0 && len(fails) == 0 {
				awaitStop()
			}
		default: // Stop
			ch := make(chan struct{})
			stopRet = append(stopRet, ch)
			if !stopCalled {
				inflightAtStop = len(held)
			}
			stopCalled = true
			go func() { tg.Stop(); close(ch) }()
			select {
			case <-tg.Done():
			case <-time.After(settleTimeout):
				fails = append(fails, failure{"threadgroup-stop-did-not-close", "the Done channel was not closed after Stop was called"})
			}
			steps = append(steps, fmt.Sprintf("Stop with %d live threads", len(held)))
			stopBegun = true
			stopReturned = false
			trace = append(trace, "LStopBegin")
			for _, ctx := range ctxs {
				select {
				case <-ctx.Done():
				case <-time.After(settleTimeout):
					fails = append(fails, failure{"threadgroup-context-not-cancelled", "a context from AddContext was not cancelled by Stop"})
				}
			}
			if len(held) > 0 {
				select {
				case <-ch:
					fails = append(fails, failure{"threadgroup-stop-returned-with-live-threads", fmt.Sprintf("Stop returned while %d threads had not called done", len(held))})
				case <-time.After(time.Duration(200+r.Intn(1500)) * time.Microsecond):
				}
			} else if len(fails) == 0 {
				awaitStop()
			}
		}
	}
	// wind down
	for _, d := range held {
		d()
		trace = append(trace, "LTgDone")
	}
	held = nil
	if stopBegun && len(fails) == 0 {
		awaitStop()
	}
	if len(fails) == 0 {
		*cases = append(*cases, tgCase(trace, stopBegun))
	}
	if stopCalled {
		var left []string
		waitUntil(2*time.Second, func() bool { left = goroutinesWith("coreutils/threadgroup."); return len(left) == 0 })
		if len(left) > 0 && len(fails) == 0 {
			fails = append(fails, failure{"threadgroup-goroutine-leak-after-stop", "goroutines of the thread group are alive 2s after Stop returned:\n" + left[0]})
		}
	} else {
		tg.Stop() // do not leave WithContext goroutines behind for the next inventory
	}
	c.Res.Eval("tg|"+strings.Join(steps, "|"), stopCalled && inflightAtStop > 0)
	c.Res.Count("threadgroup:scripted")
	report(c, "threadgroup", seed, bedConfig{}, 0, steps, fails)
}

func waitUntil(d time.Duration, cond func() bool) bool {
	deadline := time.Now().Add(d)
	for {
		if cond() {
			return true
		}
		if time.Now().After(deadline) {
			return false
		}
		time.Sleep(300 * time.Microsecond)
	}
}

// tgStress: many workers Add / work / done concurrently, Stop at a random moment.  The counter
// of active workers is decremented before done is called, so it must read 0 when Stop returns.
func tgStress(c *Ctx, seed uint64) {
	r := rng.New(seed)
	tg := threadgroup.New()
	var active, started, refused atomic.Int64
	var fails []failure
	workers := 2 + r.Intn(10)
	spin := 1 + r.Intn(200)
	var wg sync.WaitGroup
	quit := make(chan struct{})
	for w := 0; w < workers; w++ {
		wg.Add(1)
		wr := r.Fork()
		go func() {
			defer wg.Done()
			for {
				select {
				case <-quit:
					return
				default:
				}
				done, err := tg.Add()
				if err != nil {
					refused.Add(1)
					return
				}
				active.Add(1)
				started.Add(1)
				for i := wr.Intn(spin); i > 0; i-- {
					if i%16 == 0 {
						time.Sleep(time.Microsecond)
					}
				}
				active.Add(-1)
				done()
			}
		}()
	}
	time.Sleep(time.Duration(r.Intn(3000)) * time.Microsecond)
	stopped := make(chan struct{})
	go func() {
		tg.Stop()
		if n := active.Load(); n != 0 {
			fails = append(fails, failure{"threadgroup-stop-returned-with-live-threads", fmt.Sprintf("Stop returned while %d of %d workers were between Add and done", n, workers)})
		}
		if _, err := tg.Add(); err == nil {
			fails = append(fails, failure{"threadgroup-add-after-stop-accepted", "Add returned no error after Stop had returned"})
		}
		close(stopped)
	}()
	select {
	case <-stopped:
	case <-time.After(settleTimeout):
		fails = append(fails, failure{"threadgroup-stop-deadlock", fmt.Sprintf("Stop did not return within %v under %d concurrent workers", settleTimeout, workers)})
	}
	close(quit)
	wg.Wait()
	c.Res.Eval(fmt.Sprintf("tgstress|%d|%d|%d", seed, workers, spin), started.Load() > 0)
	c.Res.Count("threadgroup:stress")
	c.Res.CountN("threadgroup:threads-run", int(started.Load()))
	report(c, "threadgroup-stress", seed, bedConfig{}, workers, []string{fmt.Sprintf("%d workers, Stop at a random moment", workers)}, fails)
}

// tgRace: only the exported API, many short rounds.  A few goroutines keep joining and leaving
// the group while the main goroutine stops it and then raises a flag.  A goroutine that holds a
// successful Add must never see the flag: Stop waits for every admitted thread, and a thread that
// arrives after the group was closed is refused.
func tgRace(c *Ctx, seed uint64) {
	if runtime.GOMAXPROCS(0) < 2 {
		c.Res.Notes = append(c.Res.Notes, "threadgroup Add/Stop race not run: GOMAXPROCS < 2")
		return
	}
	r := rng.New(seed)
	var fails []failure
	rounds, deadline := c.Scale(2500, 60000), time.Now().Add(time.Duration(c.Scale(1500, 20000))*time.Millisecond)
	ran := 0
	for ; ran < rounds && time.Now().Before(deadline) && len(fails) == 0; ran++ {
		tg := threadgroup.New()
		var stopped atomic.Bool
		var late atomic.Int64
		var wg sync.WaitGroup
		start := make(chan struct{})
		adders := 2 + r.Intn(5)
		for i := 0; i < adders; i++ {
			wg.Add(1)
			go func() {
				defer wg.Done()
				<-start
				for {
					done, err := tg.Add()
					if err != nil {
						return
					}
					if stopped.Load() {
						late.Add(1)
						done()
						return
					}
					done()
				}
			}()
		}
		close(start)
		for i := r.Intn(3); i > 0; i-- {
			runtime.Gosched()
		}
		tg.Stop()
		stopped.Store(true)
		wg.Wait()
		if n := late.Load(); n > 0 {
			fails = append(fails, failure{"threadgroup-add-admitted-after-stop-returned", fmt.Sprintf("round %d, %d goroutines looping Add/done while Stop is called: %d thread(s) were admitted by Add after Stop had returned", ran, adders, n)})
		}
	}
	c.Res.Eval(fmt.Sprintf("tgrace|%d", seed), true)
	c.Res.CountN("threadgroup:add-stop-race-rounds", ran)
	report(c, "threadgroup-race", seed, bedConfig{}, 0, []string{"goroutines loop Add/done; main: Stop, then raise a flag; a holder of a successful Add must never see the flag"}, fails)
}

// ------------------------------------------------------------ rhp4.Server

type blockingSettings struct {
	*testutil.EphemeralSettingsReporter
	mu      sync.Mutex
	entered int
	live    int
	gate    chan struct{}
}

func (b *blockingSettings) RHP4Settings() proto4.HostSettings {
	b.mu.Lock()
	b.entered++
	b.live++
	g := b.gate
	b.mu.Unlock()
	<-g
	b.mu.Lock()
	b.live--
	b.mu.Unlock()
	return b.EphemeralSettingsReporter.RHP4Settings()
}

func (b *blockingSettings) counts() (entered, live int) {
	b.mu.Lock()
	defer b.mu.Unlock()
	return b.entered, b.live
}

func rhp4Shutdown(c *Ctx, seed uint64, variant int, cases *[]string) {
	r := rng.New(seed)
	var fails []failure
	var steps, trace []string
	n, genesis := testutil.V2Network()
	store, ts, err := chain.NewDBStore(chain.NewMemDB(), n, genesis, nil)
	if err != nil {
		c.Res.Fail("harness-setup-failed", err.Error(), nil)
		return
	}
	cm := chain.NewManager(store, ts)
	ws := testutil.NewEphemeralWalletStore()
	w, err := wallet.NewSingleAddressWallet(types.GeneratePrivateKey(), cm, ws, &testutil.MockSyncer{})
	if err != nil {
		c.Res.Fail("harness-setup-failed", err.Error(), nil)
		return
	}
	defer w.Close()
	bs := &blockingSettings{EphemeralSettingsReporter: testutil.NewEphemeralSettingsReporter(), gate: make(chan struct{})}
	hostKey := types.GeneratePrivateKey()
	rs := rhp4.NewServer(hostKey, cm, testutil.NewEphemeralContractor(cm), w, bs, testutil.NewEphemeralSectorStore(), rhp4.WithPriceTableValidity(2*time.Minute))
	l, err := net.Listen("tcp", "127.0.0.1:0")
	if err != nil {
		c.Res.Fail("harness-setup-failed", err.Error(), nil)
		return
	}
	defer l.Close()
	go siamux.Serve(l, rs, zap.NewNop())
	tr, err := siamux.Dial(context.Background(), l.Addr().String(), hostKey.PublicKey())
	if err != nil {
		c.Res.Fail("harness-setup-failed", err.Error(), nil)
		return
	}
	defer tr.Close()

	type result struct{ err error }
	call := func() chan result {
		ch := make(chan result, 1)
		go func() {
			ctx, cancel := context.WithTimeout(context.Background(), 30*time.Second)
			defer cancel()
			_, err := rhp4.RPCSettings(ctx, tr)
			ch <- result{err}
		}()
		return ch
	}
	k := variant % 4 // RPCs in flight when Close is called
	var inflight []chan result
	for i := 0; i < k; i++ {
		inflight = append(inflight, call())
	}
	if !waitUntil(settleTimeout, func() bool { e, _ := bs.counts(); return e == k }) {
		fails = append(fails, failure{"rhp4-rpc-not-started", fmt.Sprintf("only some of %d settings RPCs reached the handler", k)})
	}
	for i := 0; i < k; i++ {
		trace = append(trace, "LTgAdd true")
	}
	listenerFirst, twice := (variant/4)%2 == 1, (variant/8)%2 == 1
	steps = append(steps, fmt.Sprintf("%d RPCs in flight, then Close (Serve's listener closed first: %v, a second Close beside the first: %v)", k, listenerFirst, twice))
	if listenerFirst {
		l.Close() // siamux.Serve returns; the established transport and its handlers live on
		time.Sleep(time.Duration(r.Intn(500)) * time.Microsecond)
	}
	closed := make(chan struct{})
	closed2 := make(chan struct{})
	t0 := time.Now()
	go func() { rs.Close(); close(closed) }()
	if twice {
		go func() { rs.Close(); close(closed2) }()
	}
	// the server refuses new streams from the moment the group is closed; requests that slip in
	// before that are in flight like the others
	begun := false
	for tries := 0; tries < 2000 && !begun && len(fails) == 0; tries++ {
		ch := call()
		var res *result
		admitted := false
		ok := waitUntil(settleTimeout, func() bool {
			select {
			case x := <-ch:
				res = &x
				return true
			default:
			}
			if e, _ := bs.counts(); e > k {
				admitted = true
				return true
			}
			return false
		})
		switch {
		case !ok:
			fails = append(fails, failure{"rhp4-rpc-hangs-during-close", "an RPC issued during Close was neither refused nor handled"})
		case res != nil && errors.Is(res.err, proto4.ErrHostShuttingDown):
			begun = true
			trace = append(trace, "LStopBegin", "LTgAdd false")
		case res != nil:
			fails = append(fails, failure{"rhp4-rpc-wrong-result-during-close", fmt.Sprintf("an RPC issued during Close returned %v", res.err)})
		case admitted:
			k++
			trace = append(trace, "LTgAdd true")
			inflight = append(inflight, ch)
		}
	}
	if k > 0 {
		var c2 chan struct{}
		if twice {
			c2 = closed2
		}
		select {
		case <-closed:
			if _, live := bs.counts(); live > 0 {
				fails = append(fails, failure{"rhp4-close-returned-with-live-handlers", fmt.Sprintf("Server.Close returned after %v while %d RPC handlers were still running", time.Since(t0), live)})
			}
		case <-c2:
			if _, live := bs.counts(); live > 0 {
				fails = append(fails, failure{"rhp4-close-returned-with-live-handlers", fmt.Sprintf("a second Server.Close, called while the first was waiting, returned after %v while %d RPC handlers were still running", time.Since(t0), live)})
			}
		case <-time.After(time.Duration(2+r.Intn(20)) * time.Millisecond):
		}
	}
	close(bs.gate) // let the handlers finish
	for i := 0; i < k; i++ {
		trace = append(trace, "LTgDone")
	}
	select {
	case <-closed:
		trace = append(trace, "LStopReturn")
	case <-time.After(settleTimeout):
		fails = append(fails, failure{"rhp4-close-deadlock", fmt.Sprintf("Server.Close did not return within %v after the handlers were released", settleTimeout)})
	}
	for _, ch := range inflight {
		select {
		case res := <-ch:
			if res.err != nil && len(fails) == 0 {
				fails = append(fails, failure{"rhp4-inflight-rpc-failed-by-close", fmt.Sprintf("an RPC that was in flight when Close was called failed: %v", res.err)})
			}
		case <-time.After(settleTimeout):
			fails = append(fails, failure{"rhp4-inflight-rpc-lost", "an RPC that was in flight when Close was called never completed"})
		}
	}
	// a Close beside the first and one more afterwards return as well
	if len(fails) == 0 {
		if !twice {
			go func() { rs.Close(); close(closed2) }()
		}
		select {
		case <-closed2:
		case <-time.After(settleTimeout):
			fails = append(fails, failure{"rhp4-close-deadlock", "a repeated Server.Close did not return"})
		}
	}
	// afterwards: refused, and no handler goroutine left
	if len(fails) == 0 {
		select {
		case res := <-call():
			if !errors.Is(res.err, proto4.ErrHostShuttingDown) {
				fails = append(fails, failure{"rhp4-rpc-after-close-served", fmt.Sprintf("an RPC after Close returned %v instead of ErrHostShuttingDown", res.err)})
			} else {
				trace = append(trace, "LTgAdd false")
			}
		case <-time.After(settleTimeout):
			fails = append(fails, failure{"rhp4-rpc-after-close-served", "an RPC after Close hangs"})
		}
		var left []string
		waitUntil(2*time.Second, func() bool { left = goroutinesWith("rhp/v4.(*Server).handle"); return len(left) == 0 })
		if len(left) > 0 {
			fails = append(fails, failure{"rhp4-goroutine-leak-after-close", "RPC handler goroutines are alive 2s after Close returned:\n" + left[0]})
		}
	}
	if len(fails) == 0 {
		*cases = append(*cases, tgCase(trace, true))
	}
	c.Res.Eval(fmt.Sprintf("rhp4|%d|%v|%v|%v", k, trace, listenerFirst, twice), k > 0)
	if variant == 1 {
		c.Res.Sample(map[string]any{"section": "rhp4-shutdown", "script": steps, "labels": trace})
	}
	c.Res.Count("rhp4:close")
	c.Res.CountN("rhp4:inflight-at-close", k)
	report(c, "rhp4-shutdown", seed, bedConfig{}, variant, steps, fails)
}

// ------------------------------------------------------------ wallet

type blockingWalletStore struct {
	*testutil.EphemeralWalletStore
	mu    sync.Mutex
	armed bool
	calls int
	live  int
	gate  chan struct{}
}

func (b *blockingWalletStore) BroadcastedSets() ([]wallet.BroadcastedSet, error) {
	b.mu.Lock()
	b.calls++
	armed, g := b.armed && b.calls >= 2, b.gate // the first call is the constructor's
	if armed {
		b.live++
	}
	b.mu.Unlock()
	if armed {
		<-g
		b.mu.Lock()
		b.live--
		b.mu.Unlock()
	}
	return b.EphemeralWalletStore.BroadcastedSets()
}

func (b *blockingWalletStore) counts() (calls, live int) {
	b.mu.Lock()
	defer b.mu.Unlock()
	return b.calls, b.live
}

func walletShutdown(c *Ctx, seed uint64, variant int, cases *[]string) {
	r := rng.New(seed)
	var fails []failure
	var steps, trace []string
	n, genesis := testutil.V2Network()
	store, ts, err := chain.NewDBStore(chain.NewMemDB(), n, genesis, nil)
	if err != nil {
		c.Res.Fail("harness-setup-failed", err.Error(), nil)
		return
	}
	cm := chain.NewManager(store, ts)
	inflight := variant%2 == 0
	bws := &blockingWalletStore{EphemeralWalletStore: testutil.NewEphemeralWalletStore(), gate: make(chan struct{}), armed: inflight}
	w, err := wallet.NewSingleAddressWallet(types.GeneratePrivateKey(), cm, bws, &testutil.MockSyncer{}, wallet.WithDebounceInterval(time.Millisecond))
	if err != nil {
		c.Res.Fail("harness-setup-failed", err.Error(), nil)
		return
	}
	if inflight {
		// the rebroadcast loop is held inside the store: background work is in progress
		if !waitUntil(settleTimeout, func() bool { _, live := bws.counts(); return live == 1 }) {
			fails = append(fails, failure{"wallet-rebroadcast-not-started", "the rebroadcast loop never called the store"})
		}
	} else {
		// the loop has run at least once, so it is a member of the group
		if !waitUntil(settleTimeout, func() bool { calls, _ := bws.counts(); return calls >= 2 }) {
			fails = append(fails, failure{"wallet-rebroadcast-not-started", "the rebroadcast loop never called the store"})
		}
		time.Sleep(time.Duration(r.Intn(2000)) * time.Microsecond)
	}
	trace = append(trace, "LTgAdd true")
	twice := (variant/2)%2 == 1
	steps = append(steps, fmt.Sprintf("Close (rebroadcast in progress: %v, a second Close beside the first: %v)", inflight, twice))
	closed := make(chan struct{})
	var closed2 chan struct{}
	t0 := time.Now()
	go func() { w.Close(); close(closed) }()
	if twice {
		closed2 = make(chan struct{})
		go func() { w.Close(); close(closed2) }()
	}
	trace = append(trace, "LStopBegin")
	if inflight {
		select {
		case <-closed:
			if _, live := bws.counts(); live > 0 {
				fails = append(fails, failure{"wallet-close-returned-with-rebroadcast-in-flight", fmt.Sprintf("Wallet.Close returned after %v while the rebroadcast loop was still inside the store", time.Since(t0))})
			}
		case <-closed2:
			if _, live := bws.counts(); live > 0 {
				fails = append(fails, failure{"wallet-close-returned-with-rebroadcast-in-flight", fmt.Sprintf("a second Wallet.Close, called while the first was waiting, returned after %v while the rebroadcast loop was still inside the store", time.Since(t0))})
			}
		case <-time.After(time.Duration(2+r.Intn(20)) * time.Millisecond):
		}
		bws.mu.Lock()
		bws.armed = false
		bws.mu.Unlock()
		close(bws.gate)
	}
	select {
	case <-closed:
		trace = append(trace, "LTgDone", "LStopReturn")
	case <-time.After(settleTimeout):
		fails = append(fails, failure{"wallet-close-deadlock", fmt.Sprintf("Wallet.Close did not return within %v", settleTimeout)})
	}
	if len(fails) == 0 {
		var left []string
		waitUntil(2*time.Second, func() bool {
			left = goroutinesWith("coreutils/wallet.NewSingleAddressWallet", "coreutils/wallet.(*SingleAddressWallet).rebroadcast")
			return len(left) == 0
		})
		if len(left) > 0 {
			fails = append(fails, failure{"wallet-goroutine-leak-after-close", "the rebroadcast goroutine is alive 2s after Close returned:\n" + left[0]})
		}
		// a reorg after Close must not start background work again
		before, _ := bws.counts()
		if b, ok := coreutils.MineBlock(cm, types.VoidAddress, time.Second); ok {
			cm.AddBlocks([]types.Block{b})
		}
		time.Sleep(5 * time.Millisecond)
		if after, _ := bws.counts(); after != before {
			fails = append(fails, failure{"wallet-background-work-after-close", "the wallet rebroadcast transactions after Close had returned"})
		}
		// closing twice is harmless
		done2 := make(chan struct{})
		go func() { w.Close(); close(done2) }()
		select {
		case <-done2:
		case <-time.After(settleTimeout):
			fails = append(fails, failure{"wallet-close-deadlock", "a second Close did not return"})
		}
	}
	if len(fails) == 0 {
		*cases = append(*cases, tgCase(trace, true))
	}
	c.Res.Eval(fmt.Sprintf("wallet|%v|%d", inflight, variant), inflight)
	if variant == 0 {
		c.Res.Sample(map[string]any{"section": "wallet-shutdown", "script": steps, "labels": trace})
	}
	c.Res.Count("wallet:close")
	report(c, "wallet-shutdown", seed, bedConfig{}, variant, steps, fails)
}
