package main

// Phased scenarios: the harness alternates bursts of RPCs, releases of held
// handlers, connects and disconnects, and waits after each phase until the
// syncer has visibly come to rest.  Every observation is logged as a label of
// the Coq transition system (Net/Limits.v); the log is replayed there.  The
// monitors of this file judge the same run without the model.

import (
	"context"
	"errors"
	"fmt"
	"net"
	"sort"
	"strings"
	"sync"
	"time"

	"go.sia.tech/coreutils/threadgroup"
	"verif/harness/internal/rng"
)

const settleTimeout = 8 * time.Second

type failure struct {
	kind, detail string
}

type scen struct {
	tb    *bed
	cfg   bedConfig
	r     *rng.R
	peers []*rawPeer // alive peers
	all   []*rawPeer
	next  int // next connection id

	// guarded by tb.mu
	trace   []string
	emitted map[uint64]bool // drop already logged

	base        int           // goroutines of package syncer that are not handlers inside the chain manager (see rebase)
	endingRate  int           // one request in endingRate ends in an error / panic / client abort (0: none)
	noTrace     bool          // the closing part of the log is not a determined linearisation
	settleBound time.Duration // overrides settleTimeout for the next settles (0: default)
	settleKind  string        // overrides the failure kind of a settle that times out
	peakSub     map[int]int   // highest number of running handlers per subnet since the phase began

	steps []string // human readable script, for the replay file
	fails []failure
	notes map[string]int
}

func (sc *scen) failf(kind, format string, a ...any) {
	sc.fails = append(sc.fails, failure{kind, fmt.Sprintf(format, a...)})
}

func (sc *scen) stepf(format string, a ...any) {
	sc.steps = append(sc.steps, fmt.Sprintf(format, a...))
}

// subKey is the model's subnet id of a peer under the configured prefix length.
func (sc *scen) subKey(p *rawPeer) int { return p.key }

func (sc *scen) emit(labels ...string) { // tb.mu held
	sc.trace = append(sc.trace, labels...)
}

func (sc *scen) emitL(labels ...string) {
	sc.tb.mu.Lock()
	sc.emit(labels...)
	sc.tb.mu.Unlock()
}

func coqBool(b bool) string {
	if b {
		return "true"
	}
	return "false"
}

func newScen(cfg bedConfig, r *rng.R) (*scen, error) {
	tb, err := newBed(cfg)
	if err != nil {
		return nil, err
	}
	sc := &scen{tb: tb, cfg: cfg, r: r, emitted: map[uint64]bool{}, notes: map[string]int{}, next: 1, peakSub: map[int]int{}}
	tb.onEnter = func(ri *rpcInfo) {
		if tb.liveSub[ri.sub] > sc.peakSub[ri.sub] {
			sc.peakSub[ri.sub] = tb.liveSub[ri.sub]
		}
		sc.emit(fmt.Sprintf("LAccept %d %d", ri.conn, ri.rid), fmt.Sprintf("LAcquire %d %d", ri.conn, ri.rid),
			fmt.Sprintf("LSubOk %d %d", ri.conn, ri.rid), fmt.Sprintf("LHStart %d true", ri.rid))
	}
	tb.onSend = func(ri *rpcInfo) { sc.emit(fmt.Sprintf("LSend %d %d", ri.conn, ri.rid)) }
	tb.onReturn = func(ri *rpcInfo) {
		sc.emit(fmt.Sprintf("LHDone %d", ri.rid), fmt.Sprintf("LRelSub %d", ri.rid), fmt.Sprintf("LRelPeer %d", ri.rid))
	}
	sc.base = 1 << 30
	return sc, nil
}

// syncerLess returns the number of goroutines with a frame of package syncer minus the handlers
// that are inside the chain manager, or false if a handler entered or left the chain manager
// while the stacks were taken.
func (sc *scen) syncerLess() (int, bool) {
	tb := sc.tb
	tb.mu.Lock()
	before := tb.live
	tb.mu.Unlock()
	n := goroutines().syncer
	tb.mu.Lock()
	after := tb.live
	tb.mu.Unlock()
	return n - before, before == after
}

// rebase: the goroutines the syncer runs besides the handlers inside the chain manager -- its own
// loops and one (or however many) per peer -- are counted, by package path and not by function
// name, when the set of peers has just changed.  The count may still contain goroutines that are
// on their way out (a peer that has just left, a handler that is finishing): those only ever make
// it too high, and settle lowers it whenever it sees fewer.  It can never be too low: everything
// that stays has been started by the time a connection is listed by Peers().
func (sc *scen) rebase() {
	for i := 0; i < 50; i++ {
		if n, ok := sc.syncerLess(); ok {
			sc.base = n
			return
		}
	}
}

// ------------------------------------------------------------ connect / disconnect

// connectBatch opens k inbound connections "at once": all TCP connections first
// (the syncer runs allowConnect on accept and then waits for our handshake), then
// all handshakes concurrently.  Returns how many were admitted.
func (sc *scen) connectBatch(specs [][2]int) (admitted int) {
	tb := sc.tb
	var ps []*rawPeer
	for _, sp := range specs {
		p, err := tb.dialTCP(sc.next, sp[0], sp[1])
		sc.next++
		if err != nil {
			sc.failf("harness-dial-failed", "dial from %v: %v", srcIP(sp[0], sp[1]), err)
			continue
		}
		ps = append(ps, p)
		sc.all = append(sc.all, p)
	}
	sc.stepf("connect %d inbound connections at once: %v", len(ps), specs)
	// What happened to each attempt is read off its outcome only: refused = the syncer closed the
	// connection (now, or when we try to shake hands), admitted = the handshake completes and the
	// peer is listed by Peers().  The syncer decides on accept and then waits for our handshake, so
	// giving the refusals a moment to arrive before any handshake starts means the attempts of one
	// batch are in practice all judged against the peers that were there before it.
	early := make([]bool, len(ps))
	var ew sync.WaitGroup
	for i, p := range ps {
		ew.Add(1)
		go func() { defer ew.Done(); early[i] = p.refusedEarly(1500 * time.Microsecond) }()
	}
	ew.Wait()
	type res struct {
		allowed, added bool
	}
	out := make([]res, len(ps))
	var wg sync.WaitGroup
	for i, p := range ps {
		wg.Add(1)
		go func() {
			defer wg.Done()
			if early[i] {
				p.conn.Close()
				return
			}
			if err := tb.handshake(p); err != nil {
				return
			}
			out[i].allowed = true
			tb.waitFor(settleTimeout, func() bool { return p.isDead() || tb.hasPeer(p.addr) })
			out[i].added = !p.isDead() && tb.hasPeer(p.addr)
		}()
	}
	wg.Wait()
	// canonical linearisation: the connections that passed allowConnect, the successful
	// insertions, then the refusals (at allowConnect or at addPeer).  The peer set only grows
	// during the batch, so whenever some interleaving explains the observed outcome this one does
	// (a refusal that saw the set already full sees it full at the end of the batch as well).
	tb.mu.Lock()
	for i, p := range ps {
		if out[i].allowed {
			sc.emit(fmt.Sprintf("LAllow %d %d true true", p.id, sc.subKey(p)))
		}
	}
	for i, p := range ps {
		if out[i].allowed && out[i].added {
			sc.emit(fmt.Sprintf("LAdd %d true", p.id), fmt.Sprintf("LLoopStart %d true", p.id))
		}
	}
	for i, p := range ps {
		if !out[i].allowed {
			sc.emit(fmt.Sprintf("LAllow %d %d true false", p.id, sc.subKey(p)))
		}
	}
	for i, p := range ps {
		if out[i].allowed && !out[i].added {
			sc.emit(fmt.Sprintf("LAdd %d false", p.id))
		}
	}
	tb.mu.Unlock()
	for i, p := range ps {
		if out[i].added {
			sc.peers = append(sc.peers, p)
			admitted++
		} else {
			p.close()
		}
	}
	sc.rebase()
	return
}

// connectOutbound makes the syncer dial a peer of the harness at 127.0.sub.host.
func (sc *scen) connectOutbound(sub, host int) bool {
	tb := sc.tb
	id := sc.next
	sc.next++
	sc.stepf("the syncer connects out to peer %d at %v", id, srcIP(sub, host))
	p, err := tb.connectOut(id, sub, host)
	if err != nil {
		sc.failf("syncer-outbound-connect-failed", "Connect to a reachable peer at %v failed: %v", srcIP(sub, host), err)
		return false
	}
	sc.all = append(sc.all, p)
	if !tb.waitFor(settleTimeout, func() bool { return tb.hasPeer(p.addr) }) {
		sc.failf("syncer-outbound-connect-failed", "Connect returned but the peer %s is not listed", p.addr)
		return false
	}
	sc.emitL(fmt.Sprintf("LAllow %d %d false true", p.id, p.key), fmt.Sprintf("LAdd %d true", p.id), fmt.Sprintf("LLoopStart %d true", p.id))
	sc.peers = append(sc.peers, p)
	sc.notes["outbound"]++
	sc.rebase()
	return true
}

// disconnect closes the client side of a peer that has nothing unresolved and waits
// until the syncer has dropped it.
func (sc *scen) disconnect(p *rawPeer) {
	tb := sc.tb
	sc.stepf("peer %d disconnects", p.id)
	p.closedByHarness = true
	p.close()
	if !tb.waitFor(settleTimeout, func() bool { return !tb.hasPeer(p.addr) }) {
		sc.failf("syncer-peer-not-removed", "peer %d (%s) closed its connection but is still listed after %v", p.id, p.addr, settleTimeout)
	}
	sc.emitL(fmt.Sprintf("LPeerErr %d", p.id), fmt.Sprintf("LLoopExit %d", p.id), fmt.Sprintf("LPeerRemove %d", p.id))
	for i, q := range sc.peers {
		if q == p {
			sc.peers = append(sc.peers[:i], sc.peers[i+1:]...)
			break
		}
	}
	sc.rebase()
}

// ------------------------------------------------------------ rest detection

func (ri *rpcInfo) resolved() bool { return ri.entered || ri.gotErr || ri.served }

// atRest (tb.mu held): every peer has either nothing unresolved, or is full and everything
// sent before its most recently admitted request is resolved (requests are accepted in the
// order they were sent, so what is still open sits behind the full channel).
func (sc *scen) atRest() (bool, string) {
	tb := sc.tb
	byConn := map[int][]*rpcInfo{}
	for _, ri := range tb.rpcs {
		byConn[ri.conn] = append(byConn[ri.conn], ri)
	}
	for _, p := range sc.peers {
		rs := byConn[p.id]
		sort.Slice(rs, func(i, j int) bool { return rs[i].sentSeq < rs[j].sentSeq })
		open, lastEntered := 0, -1
		for i, ri := range rs {
			if !ri.resolved() {
				open++
			}
			if ri.entered {
				lastEntered = i
			}
		}
		if open == 0 {
			continue
		}
		if tb.liveConn[p.id] < sc.cfg.MaxRPC {
			return false, fmt.Sprintf("peer %d has %d open requests and %d of %d slots in use", p.id, open, tb.liveConn[p.id], sc.cfg.MaxRPC)
		}
		for i := 0; i < lastEntered; i++ {
			if !rs[i].resolved() {
				return false, fmt.Sprintf("peer %d: request #%d sent before an admitted one is still open", p.id, i)
			}
		}
	}
	return true, ""
}

// settle waits until the syncer is at rest and no handler goroutine is between two steps.
func (sc *scen) settle(what string) bool {
	tb := sc.tb
	var why string
	bound := settleTimeout
	if sc.settleBound > 0 {
		bound = sc.settleBound
	}
	ok := tb.waitFor(bound, func() bool {
		tb.mu.Lock()
		rest, w := sc.atRest()
		live := tb.live
		tb.mu.Unlock()
		if !rest {
			why = w
			return false
		}
		// besides the handlers inside the chain manager the syncer runs what it ran when the peers
		// last changed (or less: goroutines that were on their way out then); anything beyond that
		// is a handler between two of its steps
		got, stable := sc.syncerLess()
		if !stable {
			why = "handlers are entering or leaving the chain manager"
			return false
		}
		if got < sc.base {
			sc.base = got
		}
		if got > sc.base {
			why = fmt.Sprintf("handler goroutines in transit: besides the %d handlers inside the chain manager the syncer runs %d goroutines, %d when the peers last changed", live, got, sc.base)
			return false
		}
		// nothing moved while we looked
		tb.mu.Lock()
		rest2, _ := sc.atRest()
		same := rest2 && tb.live == live
		tb.mu.Unlock()
		return same
	})
	if !ok {
		kind := "syncer-blocked-request-not-served"
		if sc.settleKind != "" {
			kind = sc.settleKind
		}
		if strings.Contains(why, "handler goroutines") && sc.settleKind == "" {
			kind = "syncer-handler-goroutine-stuck"
		}
		extra := ""
		if kind == "syncer-handler-goroutine-stuck" {
			for _, g := range goroutinesWith("handleRPC", "ReadRequest", "WriteResponse") {
				extra += "\n" + g
			}
		}
		sc.failf(kind, "%s: no rest after %v: %s (limits: per-peer %d, per-subnet %d)%s", what, bound, why, sc.cfg.MaxRPC, sc.cfg.MaxSubnet, extra)
	}
	return ok
}

// flushDrops logs the drops observed so far (client saw the stream die on a living connection
// without the handler ever running) and judges them: a drop is only legitimate when the subnet
// limit is enabled and the subnet is full.
func (sc *scen) flushDrops(phase string) {
	tb := sc.tb
	tb.mu.Lock()
	var ds []*rpcInfo
	for _, ri := range tb.rpcs {
		if ri.gotErr && !ri.entered && !sc.emitted[ri.rid] {
			ds = append(ds, ri)
		}
	}
	sort.Slice(ds, func(i, j int) bool {
		if ds[i].conn != ds[j].conn {
			return ds[i].conn < ds[j].conn
		}
		return ds[i].sentSeq < ds[j].sentSeq
	})
	perSub := map[int]int{}
	for _, ri := range ds {
		sc.emitted[ri.rid] = true
		sc.emit(fmt.Sprintf("LAccept %d %d", ri.conn, ri.rid), fmt.Sprintf("LAcquire %d %d", ri.conn, ri.rid), fmt.Sprintf("LSubDrop %d %d", ri.conn, ri.rid))
		perSub[ri.sub]++
	}
	liveSub := map[int]int{}
	for k, v := range sc.peakSub {
		liveSub[k] = v
	}
	tb.mu.Unlock()
	for sub, n := range perSub {
		sc.notes["dropped"] += n
		switch {
		case sc.cfg.MaxSubnet <= 0:
			sc.failf("syncer-drop-with-subnet-limit-disabled", "%s: %d requests of subnet %d were dropped although the per-subnet limit is %d (disabled); the per-peer limit must back-pressure, not drop", phase, n, sub, sc.cfg.MaxSubnet)
		case liveSub[sub] < sc.cfg.MaxSubnet:
			sc.failf("syncer-drop-under-subnet-budget", "%s: %d requests of subnet %d were dropped although at most %d of its %d subnet slots were held by handlers at any moment of this phase", phase, n, sub, liveSub[sub], sc.cfg.MaxSubnet)
		}
	}
}

// checkLimits judges the high-water marks recorded inside the chain manager.
func (sc *scen) checkLimits(phase string) {
	tb := sc.tb
	tb.mu.Lock()
	defer tb.mu.Unlock()
	for c, m := range tb.maxConn {
		if m > sc.cfg.MaxRPC {
			sc.fails = append(sc.fails, failure{"syncer-peer-limit-exceeded", fmt.Sprintf("%s: %d handlers of connection %d ran concurrently, per-peer limit %d", phase, m, c, sc.cfg.MaxRPC)})
			tb.maxConn[c] = 0
		}
	}
	if sc.cfg.MaxSubnet > 0 {
		for k, m := range tb.maxSub {
			if m > sc.cfg.MaxSubnet {
				sc.fails = append(sc.fails, failure{"syncer-subnet-limit-exceeded", fmt.Sprintf("%s: %d handlers of subnet %d ran concurrently, per-subnet limit %d", phase, m, k, sc.cfg.MaxSubnet)})
				tb.maxSub[k] = 0
			}
		}
	}
}

// ------------------------------------------------------------ phases

// burst sends counts[i] requests from peers[i], all peers concurrently.
func (sc *scen) beginPhase() {
	tb := sc.tb
	tb.mu.Lock()
	sc.peakSub = map[int]int{}
	for k, v := range tb.liveSub {
		sc.peakSub[k] = v
	}
	tb.mu.Unlock()
}

func (sc *scen) burst(counts map[int]int, what string) {
	tb := sc.tb
	sc.beginPhase()
	var desc []string
	var wg sync.WaitGroup
	start := make(chan struct{})
	ends := map[int][]int{} // drawn here: the generator's stream is not shared with the senders
	for _, p := range sc.peers {
		for i := 0; i < counts[p.id]; i++ {
			e := endOK
			if sc.endingRate > 0 && sc.r.Intn(sc.endingRate) == 0 {
				e = 1 + sc.r.Intn(3)
			}
			sc.notes["ending:"+endingName[e]]++
			ends[p.id] = append(ends[p.id], e)
		}
	}
	for _, p := range sc.peers {
		n := counts[p.id]
		if n == 0 {
			continue
		}
		desc = append(desc, fmt.Sprintf("peer %d x%d", p.id, n))
		wg.Add(1)
		go func() {
			defer wg.Done()
			<-start
			for i := 0; i < n; i++ {
				tb.sendEnding(p, ends[p.id][i])
			}
		}()
	}
	sc.stepf("%s: %s", what, strings.Join(desc, ", "))
	close(start)
	wg.Wait()
	sc.settle(what)
	sc.flushDrops(what)
	sc.checkLimits(what)
	sc.emitL("LQuiet")
}

// release opens the gates of the given handlers and waits for the consequences.
func (sc *scen) release(rs []*rpcInfo, what string) {
	tb := sc.tb
	sc.stepf("%s: release %d handlers", what, len(rs))
	sc.beginPhase()
	for _, i := range sc.r.Perm(len(rs)) {
		tb.open(rs[i])
	}
	if !tb.waitFor(settleTimeout, func() bool {
		tb.mu.Lock()
		defer tb.mu.Unlock()
		for _, ri := range rs {
			if !ri.returned {
				return false
			}
		}
		return true
	}) {
		sc.failf("syncer-handler-goroutine-stuck", "%s: a released handler did not return within %v", what, settleTimeout)
	}
	sc.settle(what)
	sc.flushDrops(what)
	sc.checkLimits(what)
	sc.emitL("LQuiet")
}

func (sc *scen) liveHandlers() []*rpcInfo {
	tb := sc.tb
	tb.mu.Lock()
	defer tb.mu.Unlock()
	var rs []*rpcInfo
	for _, ri := range tb.rpcs {
		if ri.entered && !ri.returned && !ri.opened {
			rs = append(rs, ri)
		}
	}
	sort.Slice(rs, func(i, j int) bool { return rs[i].rid < rs[j].rid })
	return rs
}

// drain releases handlers until nothing is held and nothing is open.
func (sc *scen) drain(what string) {
	for i := 0; i < 1000000 && len(sc.fails) == 0; i++ {
		rs := sc.liveHandlers()
		if len(rs) == 0 {
			break
		}
		sc.release(rs, what)
	}
	if len(sc.fails) > 0 {
		return
	}
	// every request must by now have been served or (legitimately) dropped
	tb := sc.tb
	tb.mu.Lock()
	var lost []string
	for _, ri := range tb.rpcs {
		alive := false
		for _, p := range sc.peers {
			if p.id == ri.conn {
				alive = true
			}
		}
		if !alive {
			continue
		}
		switch {
		case ri.served, ri.gotErr && !ri.entered:
		case ri.entered && ri.gotErr && (ri.ending != endOK || sc.cfg.RPCTimeoutMs > 0): // made to fail (or the short RPC deadline of this bed passed while it was held); what matters is that its slots came back
		case ri.entered && ri.gotErr:
			lost = append(lost, fmt.Sprintf("request %d of peer %d was handled but its reply failed", ri.rid, ri.conn))
		default:
			lost = append(lost, fmt.Sprintf("request %d of peer %d (entered=%v returned=%v)", ri.rid, ri.conn, ri.entered, ri.returned))
		}
	}
	tb.mu.Unlock()
	if len(lost) > 0 {
		// replies may still be in flight: give them the settle time
		ok := tb.waitFor(settleTimeout, func() bool {
			tb.mu.Lock()
			defer tb.mu.Unlock()
			for _, ri := range tb.rpcs {
				for _, p := range sc.peers {
					if p.id == ri.conn && !(ri.served || ri.gotErr) {
						return false
					}
				}
			}
			return true
		})
		if !ok {
			sort.Strings(lost)
			sc.failf("syncer-request-never-served", "%s: after all handlers were released %d requests were neither served nor dropped: %s", what, len(lost), strings.Join(lost[:min(3, len(lost))], "; "))
		}
	}
}

// observe returns the end-of-trace observables.
func (sc *scen) observe() (in, out, live int) {
	in, out = sc.tb.peersByDir()
	sc.tb.mu.Lock()
	live = sc.tb.live
	sc.tb.mu.Unlock()
	return
}

// ------------------------------------------------------------ shutdown of the syncer

// Ways in which Close is reached.
const (
	closePlain         = 0 // Close on a running syncer
	closeListenerFirst = 1 // the owner of the listener closed it before calling Close
	closeRunFailed     = 2 // Run began to shut down by itself (ChainManager.History failed in the sync loop)
	closeTwice         = 3 // a second Close while the first is still waiting
)

var closeModeName = []string{"Close", "listener closed by its owner, then Close", "Run failed by itself (History error), then Close", "Close twice at once"}

// closeSyncer calls Close at this moment (handlers may be held, requests may be blocked),
// checks that it waits for the handlers, releases them, and checks what is left behind.
func (sc *scen) closeSyncer(what string, mode int) {
	tb := sc.tb
	held := sc.liveHandlers()
	sc.stepf("%s: %s, with %d handlers inside the chain manager", what, closeModeName[mode], len(held))
	tornDown := false
	if mode == closeListenerFirst || mode == closeRunFailed {
		if mode == closeListenerFirst {
			tb.l.Close()
		} else if tb.histGate != nil {
			select {
			case <-tb.histGate:
			default:
				close(tb.histGate)
			}
		}
		// Run notices (accept error / sync loop error), closes the listener and the peers and then
		// waits for its other loops, which only end when the thread group is stopped
		ok := tb.waitFor(settleTimeout, func() bool {
			if len(tb.s.Peers()) != 0 {
				return false
			}
			d, err := net.DialTimeout("tcp", tb.l.Addr().String(), time.Second)
			if err == nil {
				d.Close()
				return false
			}
			return true
		})
		if !ok {
			sc.failf("syncer-run-teardown-incomplete", "%s: %v after %s the listener is still open or %d peers are still listed", what, settleTimeout, closeModeName[mode], len(tb.s.Peers()))
			return
		}
		tb.mu.Lock()
		for _, ri := range tb.rpcs {
			if !ri.resolved() {
				sc.noTrace = true // a loop was blocked on its channel when its peer was closed: order not observable
			}
		}
		for _, p := range sc.peers {
			sc.emit(fmt.Sprintf("LPeerErr %d", p.id), fmt.Sprintf("LLoopExit %d", p.id), fmt.Sprintf("LPeerRemove %d", p.id))
		}
		stillIn := tb.live
		tb.mu.Unlock()
		tornDown = true
		if stillIn != len(held) {
			sc.noTrace = true
		}
		select {
		case <-tb.runDone:
			// Run may only return once the group is stopped (its peer loop ends with the group's context)
			sc.noTrace = true
			tb.runDone <- nil
		default:
		}
	}
	sc.emitL("LStopBegin")
	closed := make(chan error, 1)
	t0 := time.Now()
	go func() { closed <- tb.s.Close() }()
	var closed2 chan error
	if mode == closeTwice {
		closed2 = make(chan error, 1)
		go func() {
			time.Sleep(time.Duration(sc.r.Intn(300)) * time.Microsecond)
			closed2 <- tb.s.Close()
		}()
	}

	returnedEarly := false
	if len(held) > 0 {
		// Run's teardown closes the peers; Close itself has to wait for the handlers
		early := func(which string) {
			tb.mu.Lock()
			stillIn := tb.live
			tb.mu.Unlock()
			if stillIn > 0 {
				sc.failf("syncer-close-returned-with-live-handlers", "%s (%s): %s returned after %v while %d RPC handlers were still inside the chain manager", what, closeModeName[mode], which, time.Since(t0), stillIn)
			}
		}
		timer := time.After(30 * time.Millisecond)
	wait:
		for {
			select {
			case <-closed:
				returnedEarly = true
				early("Close")
				break wait
			case err := <-closed2:
				early("the second Close")
				closed2 <- err
				break wait
			case <-timer:
				break wait
			}
		}
	}
	// the loops leave: blocked ones through <-tg.Done(), idle ones because Run closed the peers
	if !tornDown {
		tb.mu.Lock()
		for _, p := range sc.peers {
			sc.emit(fmt.Sprintf("LPeerErr %d", p.id), fmt.Sprintf("LLoopExit %d", p.id))
		}
		tb.mu.Unlock()
	}
	tb.openAll()
	if !returnedEarly {
		select {
		case <-closed:
		case <-time.After(settleTimeout):
			sc.failf("syncer-close-deadlock", "%s: Close did not return within %v after all handlers were released\n%s", what, settleTimeout, strings.Join(goroutinesWith("coreutils/syncer.", "coreutils/threadgroup."), "\n\n"))
			return
		}
	}
	tb.mu.Lock()
	sc.emit("LStopReturn")
	if !tornDown {
		for _, p := range sc.peers {
			sc.emit(fmt.Sprintf("LPeerRemove %d", p.id))
		}
	}
	tb.mu.Unlock()
	// a second Close that ran beside the first, and one more afterwards, return as well
	for i, ch := range []chan error{closed2, nil} {
		if i == 0 && ch == nil {
			continue
		}
		if ch == nil {
			ch = make(chan error, 1)
			go func() { ch <- tb.s.Close() }()
		}
		select {
		case <-ch:
		case <-time.After(settleTimeout):
			sc.failf("syncer-close-deadlock", "%s: a repeated Close did not return within %v", what, settleTimeout)
			return
		}
	}
	select {
	case <-tb.runDone:
	case <-time.After(settleTimeout):
		sc.failf("syncer-run-did-not-return", "%s: Run did not return within %v after Close", what, settleTimeout)
	}
	// nothing of the syncer may be left running
	var left []string
	tb.waitFor(3*time.Second, func() bool {
		left = goroutinesWith("coreutils/syncer.")
		return len(left) == 0
	})
	if len(left) > 0 {
		sc.failf("syncer-goroutine-leak-after-close", "%s: %d goroutines of the syncer are still alive 3s after Close returned:\n%s", what, len(left), left[0])
	}
	// work submitted afterwards is rejected
	tb.mu.Lock()
	tb.onSend = nil
	tb.mu.Unlock()
	ctx, cancel := context.WithTimeout(context.Background(), 2*time.Second)
	if p, err := tb.s.Connect(ctx, tb.sinkAddr()); err == nil {
		sc.failf("syncer-connect-after-close-accepted", "%s (%s): Connect to a reachable peer after Close returned no error; the syncer now lists %d peers", what, closeModeName[mode], len(tb.s.Peers()))
		p.Close()
	} else if !errors.Is(err, threadgroup.ErrClosed) {
		sc.notes["connect-after-close-other-error"]++
	}
	cancel()
	for _, p := range sc.peers {
		ri := tb.send(p)
		tb.waitFor(2*time.Second, func() bool {
			tb.mu.Lock()
			defer tb.mu.Unlock()
			return ri.gotErr || ri.served || ri.entered
		})
		tb.mu.Lock()
		bad := ri.served || ri.entered
		tb.mu.Unlock()
		if bad {
			sc.failf("syncer-rpc-after-close-served", "%s: an RPC sent after Close was handled", what)
		}
		break
	}
	if d, err := net.DialTimeout("tcp", tb.l.Addr().String(), time.Second); err == nil {
		d.Close()
		sc.failf("syncer-listener-open-after-close", "%s: the listener still accepts connections after Close", what)
	}
}

func (sc *scen) cleanup() {
	sc.tb.openAll()
	if sc.tb.histGate != nil {
		select {
		case <-sc.tb.histGate:
		default:
			close(sc.tb.histGate)
		}
	}
	for _, p := range sc.all {
		p.close()
	}
	done := make(chan struct{})
	go func() { sc.tb.s.Close(); close(done) }()
	select {
	case <-done:
	case <-time.After(5 * time.Second):
	}
	sc.tb.l.Close()
	if sc.tb.sink != nil {
		sc.tb.sink.Close()
	}
}

func (sc *scen) coqConfig() string {
	return fmt.Sprintf("(mk_config %d%%nat (%d)%%Z (%d)%%Z (%d)%%Z true)", sc.cfg.MaxRPC, sc.cfg.MaxSubnet, sc.cfg.MaxIn, sc.cfg.MaxOut)
}

func (sc *scen) coqCase(trace []string, in, out, live int, stopped bool) string {
	return fmt.Sprintf("mk_case %s [%s] %d %d %d %s", sc.coqConfig(), strings.Join(trace, "; "), in, out, live, coqBool(stopped))
}
