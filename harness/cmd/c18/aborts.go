package main

// Abort points and reused addresses (monitor-only sections, nothing is replayed in Coq).
//
// abortScenario, even variants: requests that are cut short or malformed -- the stream is closed
// after the RPC id, left hanging after the id and closed later, or carries a request the
// handler cannot decode.  Such handlers take both slots and leave through an error path without
// ever reaching the chain manager (a handler whose client hangs or walks away after the id may wait
// for the rest of the request until the RPC timeout, 300ms here); afterwards every peer must be
// able to fill its channel again.
// Odd variants: connections that are cut during set-up -- closed right after the TCP connect,
// after the version exchange, right after the handshake -- and one that never says anything.
// None of them may keep counting against MaxInboundPeers, and Close must not wait for the silent
// one longer than the connect timeout.
//
// sameAddress: a remote restarts (new unique id, same advertised address) and reconnects while
// its old connection is still registered.  Whatever the syncer does with the second connection,
// every connection it serves has to be listed by Peers() and Close must return.

import (
	"fmt"
	"strings"
	"time"

	"go.sia.tech/core/gateway"
	"go.sia.tech/core/types"
	"verif/harness/internal/rng"
)

var cutName = []string{"closed after the RPC id", "left hanging after the RPC id, closed later", "undecodable request"}

// cutRequest sends one request that will not reach the chain manager; it returns a function that
// finishes the cut (for the hanging kind).
func cutRequest(p *rawPeer, kind int) func() {
	st, err := p.t.DialStream()
	if err != nil {
		return func() {}
	}
	st.SetDeadline(time.Now().Add(30 * time.Second))
	req := &gateway.RPCSendHeaders{Max: 1}
	if st.WriteID(req) != nil {
		st.Close()
		return func() {}
	}
	switch kind {
	case 0:
		st.Close()
	case 1:
		return func() { st.Close() }
	case 2:
		// a SendV2Blocks request body where a SendHeaders request is expected: longer than the
		// handler is prepared to read
		st.WriteRequest(&gateway.RPCSendV2Blocks{History: make([]types.BlockID, 20), Max: 1})
		go func() {
			st.ReadResponse(req)
			st.Close()
		}()
	}
	return func() {}
}

func abortScenario(c *Ctx, seed uint64, variant int) {
	r := rng.New(seed)
	if variant%2 == 1 {
		abortedConnects(c, seed, variant, r)
		return
	}
	cfg := bedConfig{MaxRPC: 1 + (variant/2)%3, MaxSubnet: []int{2, 0, 1, 64}[(variant/2)%4], MaxIn: 8, MaxOut: 8, V4Bits: 24, RPCTimeoutMs: 300}
	sc, err := newScen(cfg, r)
	if err != nil {
		c.Res.Fail("harness-setup-failed", err.Error(), nil)
		return
	}
	defer sc.cleanup()
	sc.connectBatch([][2]int{{1, 10}, {1, 11}})
	if len(sc.peers) == 2 && len(sc.fails) == 0 {
		for round := 0; round < 2+r.Intn(3) && len(sc.fails) == 0; round++ {
			var later []func()
			n := 0
			for _, p := range sc.peers {
				for i := 1 + r.Intn(2*cfg.MaxRPC+2); i > 0; i-- {
					k := r.Intn(len(cutName))
					later = append(later, cutRequest(p, k))
					sc.notes["cut:"+cutName[k]]++
					n++
				}
			}
			sc.stepf("%d requests are cut short or malformed", n)
			time.Sleep(time.Duration(r.Intn(1500)) * time.Microsecond)
			for _, f := range later {
				f()
			}
			// the cut handlers have really ended (their goroutines are gone) before the probe starts;
			// if they have not after 20s their slots count as leaked
			sc.settleBound, sc.settleKind = 20*time.Second, "syncer-slot-leak"
			rested := sc.settle("after cut requests")
			sc.settleBound, sc.settleKind = 0, ""
			if !rested {
				break
			}
			// all slots are back: every peer fills its channel again
			probe := map[int]int{}
			for _, p := range sc.peers {
				probe[p.id] = cfg.MaxRPC
			}
			sc.burst(probe, "capacity probe after cut requests")
			want := 2 * cfg.MaxRPC
			if cfg.MaxSubnet > 0 && want > cfg.MaxSubnet {
				want = cfg.MaxSubnet
			}
			sc.tb.mu.Lock()
			got := sc.tb.liveSub[sc.peers[0].key]
			sc.tb.mu.Unlock()
			if got != want && len(sc.fails) == 0 {
				sc.failf("syncer-slot-leak", "after %d cut or malformed requests had ended, both peers of the subnet filled their channels again but only %d handlers run; %d slots should be available (per-peer %d, per-subnet %d)", n, got, want, cfg.MaxRPC, cfg.MaxSubnet)
			}
			sc.drain("drain")
		}
		if len(sc.fails) == 0 {
			sc.closeSyncer("close", closePlain)
		}
	}
	for k := range cutName {
		c.Res.CountN("aborts:request "+cutName[k], sc.notes["cut:"+cutName[k]])
	}
	c.Res.Eval(fmt.Sprintf("aborts|%d|%s", variant, strings.Join(sc.steps, "|")), true)
	report(c, "aborts", seed, cfg, variant, sc.steps, sc.fails)
}

var connCutName = []string{"closed right after the TCP connect", "closed after the version exchange", "closed right after the handshake", "silent for ever"}

func abortedConnects(c *Ctx, seed uint64, variant int, r *rng.R) {
	cfg := bedConfig{MaxRPC: 2, MaxSubnet: 64, MaxIn: 2, MaxOut: 8, V4Bits: 24, ConnectTimeoutMs: 150}
	sc, err := newScen(cfg, r)
	if err != nil {
		c.Res.Fail("harness-setup-failed", err.Error(), nil)
		return
	}
	defer sc.cleanup()
	tb := sc.tb
	silent := false
	for i := 0; i < 3+r.Intn(4); i++ {
		k := r.Intn(len(connCutName))
		if k == 3 && silent {
			k = 0 // one silent connection is enough: each holds one of the two places until it times out
		}
		p, err := tb.dialTCP(sc.next, 1, 50+i)
		sc.next++
		if err != nil {
			continue
		}
		sc.all = append(sc.all, p)
		sc.notes["conncut:"+connCutName[k]]++
		sc.stepf("an inbound connection is %s", connCutName[k])
		switch k {
		case 0:
			p.conn.Close()
		case 1:
			g := &gatedConn{Conn: p.conn, reached: make(chan struct{}), gate: make(chan struct{})}
			p.conn = g
			go tb.handshake(p)
			select {
			case <-g.reached:
			case <-time.After(settleTimeout):
			}
			g.Conn.Close()
			close(g.gate)
		case 2:
			if tb.handshake(p) == nil {
				p.close()
			}
		case 3:
			silent = true // stays open; the syncer has to give up on it by itself
		}
	}
	// none of them is a peer (the silent one holds nothing once the connect timeout has passed)
	if !tb.waitFor(settleTimeout, func() bool { return len(tb.s.Peers()) == 0 }) {
		sc.failf("syncer-aborted-connection-counted", "%d peers are listed although every connection was cut during set-up", len(tb.s.Peers()))
	}
	time.Sleep(time.Duration(cfg.ConnectTimeoutMs+20) * time.Millisecond)
	if len(sc.fails) == 0 {
		for i := 0; i < cfg.MaxIn; i++ {
			if sc.connectBatch([][2]int{{2, 10 + i}}) != 1 && len(sc.fails) == 0 {
				sc.failf("syncer-aborted-connection-counted", "after connections that were cut during set-up only %d of MaxInboundPeers=%d peers can connect", i, cfg.MaxIn)
			}
		}
	}
	if len(sc.fails) == 0 {
		// a fresh silent connection right before Close: Close may wait for it, but not for ever
		if p, err := tb.dialTCP(sc.next, 1, 99); err == nil {
			sc.all = append(sc.all, p)
			sc.stepf("one more silent connection, then Close (connect timeout %dms)", cfg.ConnectTimeoutMs)
			time.Sleep(2 * time.Millisecond)
		}
		sc.closeSyncer("close", closePlain)
	}
	for k := range connCutName {
		c.Res.CountN("aborts:connection "+connCutName[k], sc.notes["conncut:"+connCutName[k]])
	}
	c.Res.Eval(fmt.Sprintf("abortconn|%d|%s", variant, strings.Join(sc.steps, "|")), true)
	report(c, "aborts", seed, cfg, variant, sc.steps, sc.fails)
}

func sameAddress(c *Ctx, seed uint64, variant int) {
	r := rng.New(seed)
	cfg := bedConfig{MaxRPC: 2, MaxSubnet: 64, MaxIn: 8, MaxOut: 8, V4Bits: 24}
	sc, err := newScen(cfg, r)
	if err != nil {
		c.Res.Fail("harness-setup-failed", err.Error(), nil)
		return
	}
	defer sc.cleanup()
	tb := sc.tb
	port := 30000 + r.Intn(1000)
	connect := func() *rawPeer {
		p, err := tb.dialTCP(sc.next, 1, 10)
		sc.next++
		if err != nil {
			return nil
		}
		p.port = port
		sc.all = append(sc.all, p)
		if tb.handshake(p) != nil {
			return nil
		}
		return p
	}
	// served: a request sent over the connection is handled (and answered)
	served := func(p *rawPeer) bool {
		if p == nil || p.isDead() {
			return false
		}
		ri := tb.send(p)
		tb.open(ri)
		tb.waitFor(3*time.Second, func() bool {
			tb.mu.Lock()
			defer tb.mu.Unlock()
			return ri.served || ri.gotErr
		})
		tb.mu.Lock()
		defer tb.mu.Unlock()
		return ri.served
	}
	old := connect()
	if old == nil || !tb.waitFor(settleTimeout, func() bool { return tb.hasPeer(old.addr) }) {
		c.Res.Fail("harness-setup-failed", "first connection not registered", nil)
		return
	}
	others := r.Intn(3)
	for i := 0; i < others; i++ {
		sc.connectBatch([][2]int{{2, 20 + i}})
	}
	oldDiesFirst := variant%2 == 1
	sc.stepf("a node at %s restarts and reconnects with a new unique id (old connection closed before the new handshake: %v); %d other peers", old.addr, oldDiesFirst, others)
	if oldDiesFirst {
		old.close() // the syncer may or may not have noticed by the time the new connection arrives
		time.Sleep(time.Duration(r.Intn(300)) * time.Microsecond)
	}
	fresh := connect()
	if !oldDiesFirst {
		time.Sleep(time.Duration(r.Intn(2000)) * time.Microsecond)
		old.close()
	}
	// the node keeps trying until it is connected
	ok := false
	for try := 0; try < 50 && !ok; try++ {
		time.Sleep(4 * time.Millisecond)
		if ok = served(fresh); !ok {
			fresh = connect()
		}
	}
	if !ok {
		sc.failf("syncer-reconnect-refused-for-good", "a node that reconnects from %s with a new unique id is not served even 200ms after its old connection was closed", old.addr)
	} else {
		// wait for the old connection to be gone from the syncer's books, then compare
		time.Sleep(20 * time.Millisecond)
		if !served(fresh) {
			sc.failf("syncer-reconnect-refused-for-good", "the reconnected node lost its connection again")
		} else if got, want := len(tb.s.Peers()), 1+len(sc.peers); got != want {
			sc.failf("syncer-live-connection-not-listed", "%d inbound connections are being served (the reconnected node at %s answers RPCs, plus %d others) but Peers() lists %d: the unlisted one does not count against MaxInboundPeers and is not closed on shutdown", want, old.addr, len(sc.peers), got)
		}
	}
	// Close must not depend on the remote going away
	closed := make(chan struct{})
	go func() { tb.s.Close(); close(closed) }()
	select {
	case <-closed:
	case <-time.After(closeDeadline):
		sc.failf("syncer-close-deadlock", "Close did not return within %v while the reconnected node at %s keeps its connection open; Peers() lists %d peers\n%s", closeDeadline, old.addr, len(tb.s.Peers()), strings.Join(goroutinesWith("syncer.(*Syncer).Run(", "threadgroup.(*ThreadGroup).Stop"), "\n\n"))
	}
	c.Res.Count("same-address:reconnects")
	c.Res.Eval(fmt.Sprintf("sameaddr|%d|%d", variant, others), true)
	report(c, "same-address", seed, cfg, variant, sc.steps, sc.fails)
}
