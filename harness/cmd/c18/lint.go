package main

// The transition system takes certain regions of the code as single steps and relies on the
// order in which runPeer and its handler goroutine take and return their slots.  This file
// checks those structural facts on the source of the repository under test (go/ast), on every
// run: "the code really is that atomic" is checked, not assumed (DESIGN.md 3.4).

import (
	"fmt"
	"go/ast"
	"go/parser"
	"go/printer"
	"go/token"
	"path/filepath"
	"strings"
)

type lintCtx struct {
	fset *token.FileSet
	bad  []failure
}

func (lc *lintCtx) src(n ast.Node) string {
	var sb strings.Builder
	printer.Fprint(&sb, lc.fset, n)
	return sb.String()
}

func (lc *lintCtx) failf(kind, format string, a ...any) {
	lc.bad = append(lc.bad, failure{kind, fmt.Sprintf(format, a...)})
}

// containsOutsideFuncLit reports whether n contains a node satisfying pred that is not inside a
// nested function literal.
func containsOutsideFuncLit(n ast.Node, pred func(ast.Node) bool) bool {
	found := false
	ast.Inspect(n, func(x ast.Node) bool {
		if x == nil || found {
			return false
		}
		if _, ok := x.(*ast.FuncLit); ok && x != n {
			return false
		}
		if pred(x) {
			found = true
			return false
		}
		return true
	})
	return found
}

func isReturn(n ast.Node) bool { _, ok := n.(*ast.ReturnStmt); return ok }

func isRecvFrom(n ast.Node, name string) bool {
	u, ok := n.(*ast.UnaryExpr)
	if !ok || u.Op != token.ARROW {
		return false
	}
	id, ok := u.X.(*ast.Ident)
	return ok && id.Name == name
}

func isCallTo(n ast.Node, suffix string, lc *lintCtx) bool {
	call, ok := n.(*ast.CallExpr)
	return ok && strings.HasSuffix(lc.src(call.Fun), suffix)
}

func funcDecl(f *ast.File, recv, name string) *ast.FuncDecl {
	for _, d := range f.Decls {
		fd, ok := d.(*ast.FuncDecl)
		if !ok || fd.Name.Name != name {
			continue
		}
		if recv == "" && fd.Recv == nil {
			return fd
		}
		if fd.Recv != nil && len(fd.Recv.List) == 1 {
			if st, ok := fd.Recv.List[0].Type.(*ast.StarExpr); ok {
				if id, ok := st.X.(*ast.Ident); ok && id.Name == recv {
					return fd
				}
			}
		}
	}
	return nil
}

// startsLocked: the body begins with <mu>.Lock(); defer <mu>.Unlock() (possibly after simple
// early returns that touch nothing shared).
func (lc *lintCtx) lockedRegion(fd *ast.FuncDecl, mu string, allowPrefix bool) bool {
	for i, st := range fd.Body.List {
		if es, ok := st.(*ast.ExprStmt); ok && isCallTo(es.X, mu+".Lock", lc) {
			if i+1 < len(fd.Body.List) {
				if ds, ok := fd.Body.List[i+1].(*ast.DeferStmt); ok && strings.HasSuffix(lc.src(ds.Call.Fun), mu+".Unlock") {
					return i == 0 || allowPrefix
				}
			}
			return false
		}
	}
	return false
}

func runLint(c *Ctx) {
	lc := &lintCtx{fset: token.NewFileSet()}
	parse := func(rel string) *ast.File {
		f, err := parser.ParseFile(lc.fset, filepath.Join(c.Repo, rel), nil, 0)
		if err != nil {
			lc.failf("lint-source-unreadable", "%s: %v", rel, err)
			return nil
		}
		return f
	}
	if f := parse("syncer/syncer.go"); f != nil {
		lc.lintRunPeer(f)
		for _, fn := range []struct {
			name, mu string
			prefix   bool
		}{{"allowConnect", "s.mu", false}, {"acquireInflight", "s.inflightMu", true}, {"releaseInflight", "s.inflightMu", true}} {
			fd := funcDecl(f, "Syncer", fn.name)
			if fd == nil {
				lc.failf("lint-anchor-missing", "syncer.(*Syncer).%s not found", fn.name)
			} else if !lc.lockedRegion(fd, fn.mu, fn.prefix) {
				lc.failf("syncer-critical-section-changed", "syncer.(*Syncer).%s no longer runs as one region under %s (Lock immediately followed by defer Unlock); the model takes it as one atomic step", fn.name, fn.mu)
			}
		}
		if fd := funcDecl(f, "Syncer", "addPeer"); fd == nil {
			lc.failf("lint-anchor-missing", "syncer.(*Syncer).addPeer not found")
		} else {
			// the insertion into s.peers (and, since the repair, the comparison) happens in ONE region under s.mu
			locks := 0
			ast.Inspect(fd, func(n ast.Node) bool {
				if isCallTo(n, "s.mu.Lock", lc) {
					locks++
				}
				return true
			})
			if locks != 1 {
				lc.failf("syncer-critical-section-changed", "syncer.(*Syncer).addPeer takes s.mu %d times; the model takes the comparison and the insertion as one atomic step", locks)
			}
		}
	}
	if f := parse("threadgroup/threadgroup.go"); f != nil {
		if fd := funcDecl(f, "ThreadGroup", "Add"); fd == nil {
			lc.failf("lint-anchor-missing", "threadgroup.(*ThreadGroup).Add not found")
		} else if !lc.lockedRegion(fd, "tg.mu", false) {
			lc.failf("threadgroup-critical-section-changed", "ThreadGroup.Add no longer tests the closed channel and increments the WaitGroup in one region under tg.mu")
		}
	}
	// every path through Close reaches the thread group's Stop (the model's Close IS Stop):
	// no return before it
	for _, cl := range []struct{ file, recv, kind string }{
		{"syncer/syncer.go", "Syncer", "syncer-close-skips-stop"},
		{"rhp/v4/server.go", "Server", "rhp4-close-skips-stop"},
		{"wallet/wallet.go", "SingleAddressWallet", "wallet-close-skips-stop"},
	} {
		f := parse(cl.file)
		if f == nil {
			continue
		}
		fd := funcDecl(f, cl.recv, "Close")
		if fd == nil {
			lc.failf("lint-anchor-missing", "%s: (*%s).Close not found", cl.file, cl.recv)
			continue
		}
		reached := false
		for _, st := range fd.Body.List {
			if es, ok := st.(*ast.ExprStmt); ok && isCallTo(es.X, ".tg.Stop", lc) {
				reached = true
				break
			}
			if containsOutsideFuncLit(st, isReturn) {
				lc.failf(cl.kind, "%s: (*%s).Close can return at\n%s\nbefore the thread group is stopped: on that path background work is not waited for and later work is accepted", cl.file, cl.recv, lc.src(st))
				reached = true
				break
			}
		}
		if !reached {
			lc.failf(cl.kind, "%s: (*%s).Close does not call tg.Stop() on its main path", cl.file, cl.recv)
		}
	}
	for _, b := range lc.bad {
		c.Res.Fail(b.kind, b.detail, map[string]any{"section": "lint", "repo": c.Repo})
	}
	c.Res.Count("lint:runs")
	c.Res.Eval("lint", false)
}

// lintRunPeer checks the slot discipline of runPeer:
//   - in the loop, after the per-peer slot was taken (the select sending on the channel), every
//     branch that does not start the handler (continue / return) first gives the slot back;
//   - the handler goroutine registers BOTH releases (the receive from the channel and
//     releaseInflight) with defer before anything that can return.
func (lc *lintCtx) lintRunPeer(f *ast.File) {
	fd := funcDecl(f, "Syncer", "runPeer")
	if fd == nil {
		lc.failf("lint-anchor-missing", "syncer.(*Syncer).runPeer not found")
		return
	}
	// the channel: x := make(chan struct{}, ...)
	ch := ""
	ast.Inspect(fd, func(n ast.Node) bool {
		as, ok := n.(*ast.AssignStmt)
		if !ok || len(as.Lhs) != 1 || len(as.Rhs) != 1 {
			return true
		}
		if call, ok := as.Rhs[0].(*ast.CallExpr); ok && lc.src(call.Fun) == "make" && len(call.Args) >= 1 && strings.HasPrefix(lc.src(call.Args[0]), "chan ") {
			if id, ok := as.Lhs[0].(*ast.Ident); ok {
				ch = id.Name
			}
		}
		return true
	})
	if ch == "" {
		lc.failf("lint-anchor-missing", "runPeer: the per-peer channel was not found")
		return
	}
	var loop *ast.ForStmt
	ast.Inspect(fd, func(n ast.Node) bool {
		if fs, ok := n.(*ast.ForStmt); ok && loop == nil {
			loop = fs
		}
		return loop == nil
	})
	if loop == nil {
		lc.failf("lint-anchor-missing", "runPeer: the accept loop was not found")
		return
	}
	acquired := false
	var goStmt *ast.GoStmt
	for _, st := range loop.Body.List {
		if sel, ok := st.(*ast.SelectStmt); ok && !acquired {
			for _, cl := range sel.Body.List {
				if cc, ok := cl.(*ast.CommClause); ok {
					if send, ok := cc.Comm.(*ast.SendStmt); ok && lc.src(send.Chan) == ch {
						acquired = true
					}
				}
			}
			continue
		}
		if !acquired {
			continue
		}
		if gs, ok := st.(*ast.GoStmt); ok {
			goStmt = gs
			break
		}
		// a statement between taking the slot and starting the handler: any way out of the
		// iteration must hand the slot back first
		ast.Inspect(st, func(n ast.Node) bool {
			blk, ok := n.(*ast.BlockStmt)
			if !ok {
				return true
			}
			leaves := false
			gaveBack := false
			for _, bs := range blk.List {
				if es, ok := bs.(*ast.ExprStmt); ok && isRecvFrom(es.X, ch) {
					gaveBack = true
				}
				switch x := bs.(type) {
				case *ast.BranchStmt:
					if x.Tok == token.CONTINUE || x.Tok == token.BREAK {
						leaves = true
					}
				case *ast.ReturnStmt:
					leaves = true
				}
			}
			if leaves && !gaveBack {
				lc.failf("syncer-loop-slot-not-returned", "runPeer: a branch taken after the per-peer slot was acquired leaves the iteration without `<-%s`:\n%s", ch, lc.src(blk))
			}
			return true
		})
	}
	if !acquired {
		lc.failf("lint-anchor-missing", "runPeer: no select that sends on %s", ch)
		return
	}
	if goStmt == nil {
		lc.failf("lint-anchor-missing", "runPeer: the handler goroutine was not found")
		return
	}
	lit, ok := goStmt.Call.Fun.(*ast.FuncLit)
	if !ok {
		lc.failf("lint-anchor-missing", "runPeer: the handler is not a function literal")
		return
	}
	peerDeferred, subDeferred := false, false
	for _, st := range lit.Body.List {
		if ds, ok := st.(*ast.DeferStmt); ok {
			if isCallTo(ds.Call, "releaseInflight", lc) {
				subDeferred = true
			}
			if fl, ok := ds.Call.Fun.(*ast.FuncLit); ok && containsOutsideFuncLit(fl.Body, func(n ast.Node) bool { return isRecvFrom(n, ch) }) {
				peerDeferred = true
			}
			if fl, ok := ds.Call.Fun.(*ast.FuncLit); ok && containsOutsideFuncLit(fl.Body, func(n ast.Node) bool { return isCallTo(n, "releaseInflight", lc) }) {
				subDeferred = true
			}
			continue
		}
		if containsOutsideFuncLit(st, isReturn) && !(peerDeferred && subDeferred) {
			what := []string{}
			if !peerDeferred {
				what = append(what, "`<-"+ch+"` (per-peer slot)")
			}
			if !subDeferred {
				what = append(what, "releaseInflight (subnet slot)")
			}
			lc.failf("syncer-handler-slot-release-not-deferred", "runPeer's handler goroutine can return at\n%s\nbefore %s is registered with defer: the slot leaks on that exit (thread group closed)", lc.src(st), strings.Join(what, " and "))
			return
		}
	}
	if !peerDeferred || !subDeferred {
		lc.failf("syncer-handler-slot-release-not-deferred", "runPeer's handler goroutine does not release both slots in deferred calls (per-peer deferred: %v, subnet deferred: %v)", peerDeferred, subDeferred)
	}
}
