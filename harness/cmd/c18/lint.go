package main

// The transition system takes certain regions of the code as single steps and relies on the
// order in which runPeer and its handler take and return their slots.  This file looks for
// those structural facts in the source of the repository under test (go/ast) on every run.
//
// A lint never reports a failure by itself:
//   - whole package directories are parsed and functions are found by name anywhere in the
//     package; helpers extracted from the anchors are followed (two call levels);
//   - an anchor that cannot be found at all becomes a note in the evidence ("lint not applicable
//     on this tree"); the dynamic checks carry the property alone;
//   - an anchor that is found but does not show the expected discipline is a broken TIE between
//     model and source: the harness then runs the directed dynamic scenarios the lint stands for,
//     harder (runDirected), and records the tie with Result.BreakTie.  bin/check reports a tie
//     only when no monitor produced a concrete failing run (VIOLATION ... no-failing-input-found).

import (
	"fmt"
	"go/ast"
	"go/parser"
	"go/printer"
	"go/token"
	"os"
	"path/filepath"
	"sort"
	"strings"
)

type tie struct {
	name, detail string
	area         string // which directed scenarios stand for it: caps | slots | threadgroup | close
}

type lintCtx struct {
	fset  *token.FileSet
	ties  []tie
	notes []string
}

func (lc *lintCtx) src(n ast.Node) string {
	var sb strings.Builder
	printer.Fprint(&sb, lc.fset, n)
	return sb.String()
}

func (lc *lintCtx) tief(area, name, format string, a ...any) {
	lc.ties = append(lc.ties, tie{name: name, detail: fmt.Sprintf(format, a...), area: area})
}

func (lc *lintCtx) notef(format string, a ...any) {
	lc.notes = append(lc.notes, "lint not applicable on this tree: "+fmt.Sprintf(format, a...))
}

// pkg is one parsed package directory (non-test files).
type pkg struct {
	files []*ast.File
	funcs map[string][]*ast.FuncDecl // by name
}

func (lc *lintCtx) load(repo, rel string) *pkg {
	dir := filepath.Join(repo, rel)
	ents, err := os.ReadDir(dir)
	if err != nil {
		lc.notef("%s: %v", rel, err)
		return nil
	}
	p := &pkg{funcs: map[string][]*ast.FuncDecl{}}
	var names []string
	for _, e := range ents {
		if !e.IsDir() && strings.HasSuffix(e.Name(), ".go") && !strings.HasSuffix(e.Name(), "_test.go") {
			names = append(names, e.Name())
		}
	}
	sort.Strings(names)
	for _, n := range names {
		f, err := parser.ParseFile(lc.fset, filepath.Join(dir, n), nil, 0)
		if err != nil {
			lc.notef("%s/%s: %v", rel, n, err)
			continue
		}
		p.files = append(p.files, f)
		for _, d := range f.Decls {
			if fd, ok := d.(*ast.FuncDecl); ok && fd.Body != nil {
				p.funcs[fd.Name.Name] = append(p.funcs[fd.Name.Name], fd)
			}
		}
	}
	return p
}

func recvName(fd *ast.FuncDecl) string {
	if fd.Recv == nil || len(fd.Recv.List) != 1 {
		return ""
	}
	t := fd.Recv.List[0].Type
	if st, ok := t.(*ast.StarExpr); ok {
		t = st.X
	}
	if id, ok := t.(*ast.Ident); ok {
		return id.Name
	}
	return ""
}

// method finds a method (or function, recv == "") by name anywhere in the package.
func (p *pkg) method(recv, name string) *ast.FuncDecl {
	for _, fd := range p.funcs[name] {
		if recvName(fd) == recv {
			return fd
		}
	}
	return nil
}

// callee resolves a call expression to a function of the package (by the last selector name).
func (p *pkg) callee(call *ast.CallExpr) *ast.FuncDecl {
	name := ""
	switch f := call.Fun.(type) {
	case *ast.Ident:
		name = f.Name
	case *ast.SelectorExpr:
		name = f.Sel.Name
	}
	if fds := p.funcs[name]; len(fds) == 1 {
		return fds[0]
	}
	return nil
}

// inspectNoLit walks n without entering nested function literals.
func inspectNoLit(n ast.Node, fn func(ast.Node) bool) {
	ast.Inspect(n, func(x ast.Node) bool {
		if x == nil {
			return false
		}
		if _, ok := x.(*ast.FuncLit); ok && x != n {
			return false
		}
		return fn(x)
	})
}

func containsOutsideFuncLit(n ast.Node, pred func(ast.Node) bool) bool {
	found := false
	inspectNoLit(n, func(x ast.Node) bool {
		if found {
			return false
		}
		if pred(x) {
			found = true
			return false
		}
		return true
	})
	return found
}

func isReturn(n ast.Node) bool { _, ok := n.(*ast.ReturnStmt); return ok }

func isRecvFrom(n ast.Node, name string) bool {
	u, ok := n.(*ast.UnaryExpr)
	if !ok || u.Op != token.ARROW {
		return false
	}
	id, ok := u.X.(*ast.Ident)
	return ok && id.Name == name
}

func (lc *lintCtx) isCallTo(n ast.Node, suffix string) bool {
	call, ok := n.(*ast.CallExpr)
	return ok && strings.HasSuffix(lc.src(call.Fun), suffix)
}

// reaches reports whether body (or a package function it calls, up to depth levels deep)
// contains a node satisfying pred; rename maps an identifier passed as argument to the
// parameter name inside the callee (used for the per-peer channel).
func (lc *lintCtx) reaches(p *pkg, body ast.Node, depth int, pred func(n ast.Node) bool) bool {
	if containsOutsideFuncLit(body, pred) {
		return true
	}
	if depth == 0 {
		return false
	}
	found := false
	inspectNoLit(body, func(x ast.Node) bool {
		if found {
			return false
		}
		if call, ok := x.(*ast.CallExpr); ok {
			if fd := p.callee(call); fd != nil && lc.reaches(p, fd.Body, depth-1, pred) {
				found = true
			}
			if fl, ok := call.Fun.(*ast.FuncLit); ok && lc.reaches(p, fl.Body, depth, pred) {
				found = true
			}
		}
		return true
	})
	return found
}

// paramFor returns the name the callee gives to the argument written as ident arg in call.
func paramFor(call *ast.CallExpr, fd *ast.FuncDecl, arg string) string {
	idx := -1
	for i, a := range call.Args {
		if id, ok := a.(*ast.Ident); ok && id.Name == arg {
			idx = i
		}
	}
	if idx < 0 {
		return arg
	}
	i := 0
	for _, f := range fd.Type.Params.List {
		for _, n := range f.Names {
			if i == idx {
				return n.Name
			}
			i++
		}
	}
	return arg
}

// takesLock: the function locks mu and releases it (deferred or explicit).
func (lc *lintCtx) takesLock(fd *ast.FuncDecl, mu string) bool {
	lock, unlock := false, false
	ast.Inspect(fd.Body, func(n ast.Node) bool {
		if lc.isCallTo(n, mu+".Lock") {
			lock = true
		}
		if lc.isCallTo(n, mu+".Unlock") {
			unlock = true
		}
		return true
	})
	return lock && unlock
}

// lockedToEnd: some top-level statement is X.Lock() or X.RLock() immediately followed by the
// matching deferred unlock, whatever the mutex is called and whichever type owns it; only simple
// statements may precede it, and only when allowPrefix.  Returns the mutex expression and whether
// it is the read lock.
func (lc *lintCtx) lockedToEnd(fd *ast.FuncDecl, allowPrefix bool) (mu string, read, ok bool) {
	for i, st := range fd.Body.List {
		es, isExpr := st.(*ast.ExprStmt)
		if !isExpr {
			continue
		}
		call, isCall := es.X.(*ast.CallExpr)
		if !isCall {
			continue
		}
		sel, isSel := call.Fun.(*ast.SelectorExpr)
		if !isSel || (sel.Sel.Name != "Lock" && sel.Sel.Name != "RLock") {
			continue
		}
		mu, read = lc.src(sel.X), sel.Sel.Name == "RLock"
		if i+1 < len(fd.Body.List) {
			if ds, isDefer := fd.Body.List[i+1].(*ast.DeferStmt); isDefer {
				if us, isSel := ds.Call.Fun.(*ast.SelectorExpr); isSel && lc.src(us.X) == mu &&
					(us.Sel.Name == "Unlock" && !read || us.Sel.Name == "RUnlock" && read) {
					return mu, read, i == 0 || allowPrefix
				}
			}
		}
		return mu, read, false
	}
	return "", false, false
}

// runLint returns the broken ties; notes go to the evidence.
func runLint(c *Ctx) []tie {
	lc := &lintCtx{fset: token.NewFileSet()}
	if p := lc.load(c.Repo, "syncer"); p != nil {
		lc.lintRunPeer(p)
		lc.lintPeerCap(p)
		lc.lintClose(p, "syncer", "Syncer")
	}
	if p := lc.load(c.Repo, "threadgroup"); p != nil {
		if fd := p.method("ThreadGroup", "Add"); fd == nil {
			lc.notef("threadgroup.(*ThreadGroup).Add not found")
		} else if mu, read, ok := lc.lockedToEnd(fd, false); !ok {
			lc.tief("threadgroup", "threadgroup-add-region", "ThreadGroup.Add no longer tests the closed channel and increments the WaitGroup in one region under the group's mutex (the lock is not its first statement, or is not held to the end)")
		} else if read {
			// any number of Adds may share the read lock as long as Stop closes under the WRITE lock
			stop := p.method("ThreadGroup", "Stop")
			if stop == nil {
				lc.notef("threadgroup.(*ThreadGroup).Stop not found")
			} else if !containsOutsideFuncLit(stop.Body, func(n ast.Node) bool {
				call, ok := n.(*ast.CallExpr)
				if !ok {
					return false
				}
				sel, ok := call.Fun.(*ast.SelectorExpr)
				return ok && sel.Sel.Name == "Lock" && lc.src(sel.X) == mu
			}) {
				lc.tief("threadgroup", "threadgroup-add-region", "ThreadGroup.Add runs under the read lock of %s but Stop does not take its write lock: an Add can overlap the close", mu)
			}
		}
	}
	if p := lc.load(c.Repo, "rhp/v4"); p != nil {
		lc.lintClose(p, "rhp/v4", "Server")
	}
	if p := lc.load(c.Repo, "wallet"); p != nil {
		lc.lintClose(p, "wallet", "SingleAddressWallet")
	}
	c.Res.Notes = append(c.Res.Notes, lc.notes...)
	c.Res.Count("lint:runs")
	c.Res.CountN("lint:anchors-not-found", len(lc.notes))
	c.Res.CountN("lint:ties-broken", len(lc.ties))
	return lc.ties
}

// lintClose: every path through Close reaches the thread group's Stop (directly or through a
// helper): no return before it.
func (lc *lintCtx) lintClose(p *pkg, dir, recv string) {
	fd := p.method(recv, "Close")
	if fd == nil {
		lc.notef("%s: (*%s).Close not found", dir, recv)
		return
	}
	isStop := func(n ast.Node) bool {
		return lc.isCallTo(n, "tg.Stop") || lc.isCallTo(n, ".Stop") && strings.Contains(lc.src(n), "tg")
	}
	if !lc.reaches(p, fd.Body, 2, isStop) {
		lc.notef("%s: (*%s).Close does not visibly call the thread group's Stop", dir, recv)
		return
	}
	for _, st := range fd.Body.List {
		if _, isDefer := st.(*ast.DeferStmt); isDefer && lc.reaches(p, st, 2, isStop) {
			return // deferred: reached on every path
		}
		if lc.reaches(p, st, 2, isStop) && !containsOutsideFuncLit(st, isReturn) {
			return
		}
		if containsOutsideFuncLit(st, isReturn) {
			lc.tief("close", recv+"-close-reaches-stop", "%s: (*%s).Close can return at\n%s\nbefore the thread group is stopped: on that path background work would not be waited for and later work would be accepted", dir, recv, lc.src(st))
			return
		}
	}
}

// lintPeerCap: the inbound cap is enforced under s.mu at the point of insertion -- the function
// that inserts into s.peers compares against MaxInboundPeers (itself or through a counting
// helper) in the same critical section as the insertion.  Where allowConnect takes its snapshot
// (and how long it holds the mutex) does not matter for the cap.
func (lc *lintCtx) lintPeerCap(p *pkg) {
	var ins *ast.FuncDecl
	var insStmt ast.Node
	for _, fds := range p.funcs {
		for _, fd := range fds {
			ast.Inspect(fd.Body, func(n ast.Node) bool {
				as, ok := n.(*ast.AssignStmt)
				if !ok {
					return true
				}
				for _, l := range as.Lhs {
					if ix, ok := l.(*ast.IndexExpr); ok && strings.HasSuffix(lc.src(ix.X), ".peers") {
						ins, insStmt = fd, as
					}
				}
				return true
			})
		}
	}
	if ins == nil {
		lc.notef("syncer: no function inserts into s.peers")
		return
	}
	// walk the top-level statements: Lock ... [compare] ... insertion, no Unlock call in between
	locked, compared, done := false, false, false
	var walk func(list []ast.Stmt)
	walk = func(list []ast.Stmt) {
		for _, st := range list {
			if done {
				return
			}
			if es, ok := st.(*ast.ExprStmt); ok {
				if lc.isCallTo(es.X, "mu.Lock") {
					locked, compared = true, false
					continue
				}
				if lc.isCallTo(es.X, "mu.Unlock") {
					locked, compared = false, false
					continue
				}
			}
			if locked && strings.Contains(lc.src(st), "MaxInboundPeers") {
				compared = true
			}
			contains := false
			ast.Inspect(st, func(n ast.Node) bool {
				if n == insStmt {
					contains = true
				}
				return !contains
			})
			if contains {
				if blk, ok := st.(*ast.BlockStmt); ok {
					walk(blk.List)
					continue
				}
				if st == insStmt || !locked || !compared {
					done = true
					if !(locked && compared) {
						lc.tief("caps", "syncer-inbound-cap-at-insertion", "syncer.(*Syncer).%s inserts into s.peers without comparing the inbound count with MaxInboundPeers in the same region under s.mu (locked=%v, compared=%v); the model's LAdd step is one atomic compare-and-insert", ins.Name.Name, locked, compared)
					}
					return
				}
				done = true
				return
			}
		}
	}
	walk(ins.Body.List)
	if ac := p.method("Syncer", "allowConnect"); ac == nil {
		lc.notef("syncer.(*Syncer).allowConnect not found")
	} else if !lc.reaches(p, ac.Body, 2, func(n ast.Node) bool { return lc.isCallTo(n, "mu.Lock") }) {
		lc.tief("caps", "syncer-allowconnect-snapshot", "syncer.(*Syncer).allowConnect counts the peers without taking s.mu")
	}
}

// lintRunPeer checks the slot discipline of runPeer:
//   - in the loop, after the per-peer slot was taken (the select sending on the channel), every
//     branch that does not start the handler (continue / return) first gives the slot back;
//   - the handler (a function literal, or a function of the package started with go) registers
//     BOTH releases (the receive from the channel and releaseInflight) with defer before anything
//     that can return.
func (lc *lintCtx) lintRunPeer(p *pkg) {
	fd := p.method("Syncer", "runPeer")
	if fd == nil {
		lc.notef("syncer.(*Syncer).runPeer not found")
		return
	}
	ch := ""
	ast.Inspect(fd, func(n ast.Node) bool {
		as, ok := n.(*ast.AssignStmt)
		if !ok || len(as.Lhs) != 1 || len(as.Rhs) != 1 {
			return true
		}
		if call, ok := as.Rhs[0].(*ast.CallExpr); ok && lc.src(call.Fun) == "make" && len(call.Args) >= 1 && strings.HasPrefix(lc.src(call.Args[0]), "chan ") {
			if id, ok := as.Lhs[0].(*ast.Ident); ok {
				ch = id.Name
			}
		}
		return true
	})
	if ch == "" {
		lc.notef("runPeer: the per-peer channel was not found")
		return
	}
	var loop *ast.ForStmt
	ast.Inspect(fd, func(n ast.Node) bool {
		if fs, ok := n.(*ast.ForStmt); ok && loop == nil {
			loop = fs
		}
		return loop == nil
	})
	if loop == nil {
		lc.notef("runPeer: the accept loop was not found")
		return
	}
	acquired := false
	var goStmt *ast.GoStmt
	var acquireCall *ast.CallExpr // the subnet slot: `if !X(subnet) { give the per-peer slot back; continue }`
	for _, st := range loop.Body.List {
		if sel, ok := st.(*ast.SelectStmt); ok && !acquired {
			for _, cl := range sel.Body.List {
				if cc, ok := cl.(*ast.CommClause); ok {
					if send, ok := cc.Comm.(*ast.SendStmt); ok && lc.src(send.Chan) == ch {
						acquired = true
					}
				}
			}
			continue
		}
		if !acquired {
			continue
		}
		if gs, ok := st.(*ast.GoStmt); ok {
			goStmt = gs
			break
		}
		if is, ok := st.(*ast.IfStmt); ok && acquireCall == nil {
			if u, ok := is.Cond.(*ast.UnaryExpr); ok && u.Op == token.NOT {
				if call, ok := u.X.(*ast.CallExpr); ok {
					acquireCall = call
				}
			}
		}
		ast.Inspect(st, func(n ast.Node) bool {
			blk, ok := n.(*ast.BlockStmt)
			if !ok {
				return true
			}
			leaves, gaveBack := false, false
			for _, bs := range blk.List {
				if lc.reaches(p, bs, 2, func(x ast.Node) bool { return isRecvFrom(x, ch) }) {
					gaveBack = true
				}
				switch x := bs.(type) {
				case *ast.BranchStmt:
					if x.Tok == token.CONTINUE || x.Tok == token.BREAK {
						leaves = true
					}
				case *ast.ReturnStmt:
					leaves = true
				}
			}
			if leaves && !gaveBack {
				lc.tief("slots", "syncer-loop-returns-slot", "runPeer: a branch taken after the per-peer slot was acquired leaves the iteration without `<-%s`:\n%s", ch, lc.src(blk))
			}
			return true
		})
	}
	if !acquired {
		lc.notef("runPeer: no select that sends on %s", ch)
		return
	}
	if goStmt == nil {
		lc.notef("runPeer: no go statement after the slot is taken")
		return
	}
	var body *ast.BlockStmt
	hch := ch
	switch f := goStmt.Call.Fun.(type) {
	case *ast.FuncLit:
		body = f.Body
	default:
		if cd := p.callee(goStmt.Call); cd != nil {
			body = cd.Body
			hch = paramFor(goStmt.Call, cd, ch)
		}
	}
	if body == nil {
		lc.notef("runPeer: the handler started with go could not be resolved")
		return
	}
	releasesPeer := func(n ast.Node) bool { return isRecvFrom(n, hch) }
	// the release of the subnet slot: a call named like a release, or another method on the
	// object the slot was acquired from (s.limiter.acquire / s.limiter.release), or a function of
	// the package that decrements a counter
	acqRecv := ""
	if acquireCall != nil {
		if sel, ok := acquireCall.Fun.(*ast.SelectorExpr); ok {
			acqRecv = lc.src(sel.X)
		}
	}
	var releaseCall *ast.CallExpr
	releasesSub := func(n ast.Node) bool {
		call, ok := n.(*ast.CallExpr)
		if !ok {
			return false
		}
		name, recv := "", ""
		switch f := call.Fun.(type) {
		case *ast.Ident:
			name = f.Name
		case *ast.SelectorExpr:
			name, recv = f.Sel.Name, lc.src(f.X)
		default:
			return false
		}
		hit := strings.Contains(strings.ToLower(name), "release")
		if !hit && acquireCall != nil && recv == acqRecv && recv != "s" && call != acquireCall && name != "Lock" && name != "Unlock" {
			hit = true
		}
		if !hit {
			if cd := p.callee(call); cd != nil && name != "done" && containsOutsideFuncLit(cd.Body, func(x ast.Node) bool {
				id, ok := x.(*ast.IncDecStmt)
				return ok && id.Tok == token.DEC
			}) {
				hit = true
			}
		}
		if hit && releaseCall == nil {
			releaseCall = call
		}
		return hit
	}
	defer func() {
		// the two functions that move the subnet counter do so in one locked region each
		for _, x := range []struct {
			call *ast.CallExpr
			name string
		}{{acquireCall, "acquireInflight"}, {releaseCall, "releaseInflight"}} {
			var cd *ast.FuncDecl
			if x.call != nil {
				cd = p.callee(x.call)
			}
			if cd == nil {
				cd = p.method("Syncer", x.name)
			}
			if cd == nil {
				lc.notef("syncer: the function that moves the subnet counter (%s) could not be resolved", x.name)
			} else if _, _, ok := lc.lockedToEnd(cd, true); !ok {
				lc.tief("slots", "syncer-subnet-counter-region", "syncer: %s no longer reads and writes the subnet counter in one locked region (Lock immediately followed by defer Unlock); the model takes it as one atomic step", cd.Name.Name)
			}
		}
	}()
	peerDeferred, subDeferred := false, false
	for _, st := range body.List {
		if ds, ok := st.(*ast.DeferStmt); ok {
			// the deferred call itself, a deferred literal, or a deferred helper of the package
			var scope ast.Node = ds.Call
			if fl, ok := ds.Call.Fun.(*ast.FuncLit); ok {
				scope = fl.Body
			}
			if lc.reaches(p, scope, 2, releasesSub) {
				subDeferred = true
			}
			if lc.reaches(p, scope, 2, releasesPeer) {
				peerDeferred = true
			}
			continue
		}
		if containsOutsideFuncLit(st, isReturn) && !(peerDeferred && subDeferred) {
			what := []string{}
			if !peerDeferred {
				what = append(what, "`<-"+hch+"` (per-peer slot)")
			}
			if !subDeferred {
				what = append(what, "the release of the subnet slot")
			}
			lc.tief("slots", "syncer-handler-defers-releases", "runPeer's handler can return at\n%s\nbefore %s is registered with defer: the slot would leak on that exit (thread group closed), in a syncer that is already shutting down -- not observable at run time", lc.src(st), strings.Join(what, " and "))
			return
		}
	}
	if !peerDeferred || !subDeferred {
		lc.tief("slots", "syncer-handler-defers-releases", "runPeer's handler does not release both slots in deferred calls (per-peer deferred: %v, subnet deferred: %v)", peerDeferred, subDeferred)
	}
}

// runDirected runs, for every area in which a tie is broken, the dynamic scenarios the lint
// stands for, harder than the regular sections do; a real defect then yields a concrete replay.
func runDirected(c *Ctx, ties []tie, cases *[]string) {
	areas := map[string]bool{}
	for _, t := range ties {
		areas[t.area] = true
	}
	failed := func() bool { return len(c.Res.Failures) > 0 }
	if areas["caps"] && !failed() {
		for m := 1; m <= 4 && !failed(); m++ {
			for rep := 0; rep < 5 && !failed(); rep++ {
				*cases = append(*cases, capsInbound(c, c.R.U64(), bedConfig{MaxSubnet: 64, MaxRPC: 4, MaxIn: m, MaxOut: 16, V4Bits: 24}, -1)...)
			}
		}
		for i := 0; i < c.Scale(60, 300) && !failed(); i++ {
			*cases = append(*cases, capsInbound(c, c.R.U64(), bedConfig{MaxSubnet: 64, MaxRPC: 4, MaxIn: 1 + i%3, MaxOut: 16, V4Bits: 24}, i)...)
		}
		c.Res.Count("directed:caps")
	}
	if areas["slots"] && !failed() {
		for i := 0; i < c.Scale(60, 300) && !failed(); i++ {
			cfg := bedConfig{MaxSubnet: []int{1, 2, 1, 2, 64}[i%5], MaxRPC: 1 + i%3, MaxIn: 64, MaxOut: 16, V4Bits: 24}
			cs, _ := phasedScenario(c, c.R.U64(), cfg, 1+i%2+3*((i/2)%4))
			*cases = append(*cases, cs...)
		}
		for i := 0; i < c.Scale(10, 60) && !failed(); i++ {
			stressRun(c, c.R.U64(), bedConfig{MaxSubnet: []int{1, 2}[i%2], MaxRPC: 1 + i%2, MaxIn: 64, MaxOut: 16, V4Bits: 24}, 2*i+1) // Close in the middle
		}
		c.Res.Count("directed:slots")
	}
	if areas["threadgroup"] && !failed() {
		for i := 0; i < c.Scale(200, 1000) && !failed(); i++ {
			tgScripted(c, c.R.U64(), cases)
		}
		for i := 0; i < c.Scale(100, 500) && !failed(); i++ {
			tgStress(c, c.R.U64()) // late Add racing with Stop
		}
		for i := 0; i < 5 && !failed(); i++ {
			tgRace(c, c.R.U64())
		}
		c.Res.Count("directed:threadgroup")
	}
	if areas["close"] && !failed() {
		for i := 0; i < c.Scale(36, 200) && !failed(); i++ {
			cfg := bedConfig{MaxSubnet: subnetLimits[i%5], MaxRPC: 1 + i%3, MaxIn: 64, MaxOut: 16, V4Bits: 24}
			cs, _ := phasedScenario(c, c.R.U64(), cfg, i%3+3*(1+i%3))
			*cases = append(*cases, cs...)
		}
		for i := 0; i < 64 && !failed(); i++ {
			closeWhileConnecting(c, c.R.U64(), i)
		}
		for i := 0; i < 16 && !failed(); i++ {
			rhp4Shutdown(c, c.R.U64(), i, cases)
		}
		for i := 0; i < 8 && !failed(); i++ {
			walletShutdown(c, c.R.U64(), i, cases)
		}
		c.Res.Count("directed:close")
	}
	for _, t := range ties {
		c.Res.BreakTie(t.name, t.detail)
	}
}
