package main

// Close while a sync is in flight: the syncer has downloaded a batch of blocks from a node with a
// longer chain and its block-applying goroutine is inside the chain manager (held there by the
// wrapper).  Close and Run may only return once that call has come back, and the syncer must not
// touch the chain manager afterwards.  Monitor-only.

import (
	"context"
	"fmt"
	"net"
	"strings"
	"time"

	"go.sia.tech/core/gateway"
	"go.sia.tech/core/types"
	coreutils "go.sia.tech/coreutils"
	"go.sia.tech/coreutils/chain"
	"go.sia.tech/coreutils/syncer"
	"go.sia.tech/coreutils/testutil"
	"verif/harness/internal/rng"
)

func closeDuringSync(c *Ctx, seed uint64, variant int) {
	r := rng.New(seed)
	cfg := bedConfig{MaxRPC: 4, MaxSubnet: 64, MaxIn: 8, MaxOut: 8, V4Bits: 24, SyncIntervalMs: 10, ParkAddBlocks: true}
	var fails []failure
	failf := func(kind, format string, a ...any) { fails = append(fails, failure{kind, fmt.Sprintf(format, a...)}) }
	nblocks := 3 + r.Intn(20)
	steps := []string{fmt.Sprintf("the syncer syncs %d blocks from a peer; Close while the first batch is being applied to the chain manager", nblocks)}

	// the node to sync from
	n, genesis := testutil.Network()
	store, ts, err := chain.NewDBStore(chain.NewMemDB(), n, genesis, nil)
	if err != nil {
		c.Res.Fail("harness-setup-failed", err.Error(), nil)
		return
	}
	cm2 := chain.NewManager(store, ts)
	for i := 0; i < nblocks; i++ {
		b, ok := coreutils.MineBlock(cm2, types.VoidAddress, 5*time.Second)
		if !ok || cm2.AddBlocks([]types.Block{b}) != nil {
			c.Res.Fail("harness-setup-failed", "mining failed", nil)
			return
		}
	}
	l2, err := net.Listen("tcp", "127.0.0.1:0")
	if err != nil {
		c.Res.Fail("harness-setup-failed", err.Error(), nil)
		return
	}
	defer l2.Close()
	s2 := syncer.New(l2, cm2, testutil.NewEphemeralPeerStore(), gateway.Header{GenesisID: genesis.ID(), UniqueID: gateway.GenerateUniqueID(), NetAddress: l2.Addr().String()},
		syncer.WithSyncInterval(time.Hour), syncer.WithPeerDiscoveryInterval(time.Hour))
	go s2.Run()
	defer s2.Close()

	tb, err := newBed(cfg)
	if err != nil {
		c.Res.Fail("harness-setup-failed", err.Error(), nil)
		return
	}
	openGate := func() {
		tb.mu.Lock()
		if tb.addGate != nil {
			close(tb.addGate)
			tb.addGate = nil
		}
		tb.mu.Unlock()
	}
	defer func() {
		openGate()
		done := make(chan struct{})
		go func() { tb.s.Close(); close(done) }()
		select {
		case <-done:
		case <-time.After(2 * time.Second):
		}
		tb.l.Close()
	}()
	ctx, cancel := context.WithTimeout(context.Background(), 5*time.Second)
	_, err = tb.s.Connect(ctx, l2.Addr().String())
	cancel()
	if err != nil {
		c.Res.Fail("harness-setup-failed", "connect to the node to sync from: "+err.Error(), nil)
		return
	}
	inAdd := func() int { tb.mu.Lock(); defer tb.mu.Unlock(); return tb.addLive }
	if !tb.waitFor(settleTimeout, func() bool { return inAdd() > 0 }) {
		c.Res.Notes = append(c.Res.Notes, "close-during-sync: the syncer did not start applying blocks within the time limit (scenario skipped)")
		c.Res.Count("sync:not-started")
		return
	}
	time.Sleep(time.Duration(r.Intn(1500)) * time.Microsecond)
	closed := make(chan struct{})
	t0 := time.Now()
	go func() { tb.s.Close(); close(closed) }()
	early := func(what string) {
		if n := inAdd(); n > 0 {
			failf("syncer-close-returned-with-sync-in-flight", "%s returned after %v while the syncer's block-applying goroutine was still inside the chain manager (%d call in progress, %d blocks to sync)", what, time.Since(t0), n, nblocks)
		}
	}
	select {
	case <-closed:
		early("Close")
	case <-tb.runDone:
		early("Run")
		tb.runDone <- nil
	case <-time.After(time.Duration(20+r.Intn(30)) * time.Millisecond):
	}
	openGate()
	select {
	case <-closed:
	case <-time.After(closeDeadline):
		failf("syncer-close-deadlock", "Close did not return within %v after the chain manager call was released\n%s", closeDeadline, strings.Join(goroutinesWith("syncer.(*Syncer).Run(", "parallelSync", "threadgroup.(*ThreadGroup).Stop"), "\n\n"))
	}
	if len(fails) == 0 {
		select {
		case <-tb.runDone:
		case <-time.After(closeDeadline):
			failf("syncer-run-did-not-return", "Run did not return after Close during a sync")
		}
		early("Close and Run")
		tb.mu.Lock()
		tb.closeReturned = true
		tb.mu.Unlock()
		time.Sleep(20 * time.Millisecond)
		tb.mu.Lock()
		after, live := tb.addAfterClose, tb.addLive
		tb.mu.Unlock()
		if after > 0 || live > 0 {
			failf("syncer-close-returned-with-sync-in-flight", "after Close and Run had returned the syncer made %d more block-applying calls to the chain manager (%d in progress)", after, live)
		}
	}
	c.Res.Count("sync:close-while-applying-blocks")
	c.Res.Eval(fmt.Sprintf("closesync|%d|%d", variant, nblocks), true)
	report(c, "close-during-sync", seed, cfg, variant, steps, fails)
}
