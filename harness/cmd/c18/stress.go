package main

// Free-running load on the same bed: senders and a releaser run with random timing, a Close
// may fall in the middle.  No trace is written; the monitors judge the run.

import (
	"fmt"
	"strings"
	"sync"
	"time"

	"verif/harness/internal/rng"
)

func stressRun(c *Ctx, seed uint64, cfg bedConfig, variant int) {
	r := rng.New(seed)
	sc, err := newScen(cfg, r)
	if err != nil {
		c.Res.Fail("harness-setup-failed", err.Error(), nil)
		return
	}
	defer sc.cleanup()
	tb := sc.tb
	sc.connectBatch([][2]int{{1, 10}, {1, 11}, {2, 12}})
	closeInTheMiddle := variant%2 == 1
	dur := time.Duration(c.Scale(150, 600)) * time.Millisecond

	stop := make(chan struct{})
	var wg sync.WaitGroup
	var closeCalled time.Time
	var cmu sync.Mutex
	var pmu sync.Mutex // guards sc.peers while peers come and go
	gone := map[int]bool{}
	var sender func(p *rawPeer, pr *rng.R)
	sender = func(p *rawPeer, pr *rng.R) {
		defer wg.Done()
		var mine []*rpcInfo
		for {
			select {
			case <-stop:
				return
			default:
			}
			pmu.Lock()
			left := gone[p.id]
			pmu.Unlock()
			if left {
				return
			}
			// bounded backlog: at most 2*limit+6 requests of this peer are unanswered
			tb.mu.Lock()
			open := 0
			for _, ri := range mine {
				if !(ri.served || ri.gotErr) {
					open++
				}
			}
			tb.mu.Unlock()
			if open <= 2*cfg.MaxRPC+6 {
				for i := 1 + pr.Intn(3); i > 0; i-- {
					e := endOK
					if pr.Intn(5) == 0 {
						e = 1 + pr.Intn(3)
					}
					mine = append(mine, tb.sendEnding(p, e))
				}
			}
			time.Sleep(time.Duration(pr.Intn(1500)) * time.Microsecond)
		}
	}
	for _, p := range sc.peers {
		wg.Add(1)
		go sender(p, r.Fork())
	}
	// peers that go away and come back while everything else is going on: their held handlers and
	// blocked requests stay behind, the newcomer starts with a fresh channel but the same subnet
	churn := !closeInTheMiddle && variant%4 == 2
	reconnects := 0
	if churn {
		wg.Add(1)
		cr := r.Fork()
		go func() {
			defer wg.Done()
			for {
				select {
				case <-stop:
					return
				case <-time.After(time.Duration(3+cr.Intn(12)) * time.Millisecond):
				}
				pmu.Lock()
				i := cr.Intn(len(sc.peers))
				p := sc.peers[i]
				sc.peers = append(sc.peers[:i:i], sc.peers[i+1:]...)
				gone[p.id] = true
				sc.next++
				id := sc.next
				pmu.Unlock()
				p.closedByHarness = true
				p.close()
				np, err := tb.dialTCP(id, p.sub, p.host)
				if err != nil || tb.handshake(np) != nil {
					continue
				}
				if !tb.waitFor(2*time.Second, func() bool { return np.isDead() || tb.hasPeer(np.addr) }) || np.isDead() {
					np.close()
					continue
				}
				pmu.Lock()
				sc.peers = append(sc.peers, np)
				sc.all = append(sc.all, np)
				reconnects++
				pmu.Unlock()
				wg.Add(1)
				go sender(np, cr.Fork())
			}
		}()
	}
	wg.Add(1)
	rr := r.Fork()
	go func() { // releaser
		defer wg.Done()
		for {
			select {
			case <-stop:
				return
			default:
			}
			live := sc.liveHandlers()
			for _, ri := range live {
				if rr.Intn(3) > 0 {
					tb.open(ri)
				}
			}
			time.Sleep(time.Duration(rr.Intn(800)) * time.Microsecond)
		}
	}()
	sc.stepf("3 peers (two share a subnet) send bursts, handlers are released at random, for %v; Close in the middle: %v", dur, closeInTheMiddle)

	if closeInTheMiddle {
		time.Sleep(dur / 2)
		cmu.Lock()
		closeCalled = time.Now()
		cmu.Unlock()
		closed := make(chan struct{})
		go func() { tb.s.Close(); close(closed) }()
		select {
		case <-closed:
			tb.mu.Lock()
			live := tb.live
			tb.mu.Unlock()
			if live != 0 {
				sc.failf("syncer-close-returned-with-live-handlers", "Close returned under load while %d RPC handlers were still inside the chain manager", live)
			}
		case <-time.After(settleTimeout):
			sc.failf("syncer-close-deadlock", "Close did not return within %v under load although handlers kept being released\n%s", settleTimeout, strings.Join(goroutinesWith("coreutils/syncer.", "coreutils/threadgroup."), "\n\n"))
		}
		close(stop)
		wg.Wait()
		tb.openAll()
		select {
		case <-tb.runDone:
		case <-time.After(settleTimeout):
			sc.failf("syncer-run-did-not-return", "Run did not return within %v after Close", settleTimeout)
		}
		var left []string
		tb.waitFor(3*time.Second, func() bool { left = goroutinesWith("coreutils/syncer."); return len(left) == 0 })
		if len(left) > 0 {
			sc.failf("syncer-goroutine-leak-after-close", "%d goroutines of the syncer are still alive 3s after Close returned under load:\n%s", len(left), left[0])
		}
	} else {
		time.Sleep(dur)
		close(stop)
		wg.Wait()
	}
	sc.checkLimits("under load")
	// with the subnet limit disabled nothing may have been dropped while the syncer was open
	tb.mu.Lock()
	drops, total, entered := 0, 0, 0
	for _, ri := range tb.rpcs {
		total++
		if ri.entered {
			entered++
		}
		if ri.gotErr && !ri.entered && !gone[ri.conn] && (closeCalled.IsZero() || ri.errAt.Before(closeCalled)) {
			drops++
		}
	}
	tb.mu.Unlock()
	if drops > 0 && cfg.MaxSubnet <= 0 {
		sc.failf("syncer-drop-with-subnet-limit-disabled", "%d of %d requests were dropped under load although the per-subnet limit is %d (disabled)", drops, total, cfg.MaxSubnet)
	}
	if !closeInTheMiddle && len(sc.fails) == 0 {
		// everything that was sent is served or legitimately dropped, all slots come back
		sc.rebase() // peers have come and gone; what is on its way out now only makes the count too high
		sc.settle("after load")
		tb.mu.Lock()
		for _, ri := range tb.rpcs {
			if ri.gotErr && !ri.entered {
				sc.emitted[ri.rid] = true
			}
		}
		tb.mu.Unlock()
		sc.drain("after load")
		probe := map[int]int{}
		for _, p := range sc.peers {
			probe[p.id] = cfg.MaxRPC
		}
		sc.burst(probe, "capacity probe after load")
		tb.mu.Lock()
		want := map[int]int{}
		for _, p := range sc.peers {
			want[p.key] += cfg.MaxRPC
		}
		for k, w := range want {
			if cfg.MaxSubnet > 0 && w > cfg.MaxSubnet {
				w = cfg.MaxSubnet
			}
			if got := tb.liveSub[k]; got != w && len(sc.fails) == 0 {
				sc.fails = append(sc.fails, failure{"syncer-slot-leak", fmt.Sprintf("after the load, with every handler ended, the peers of subnet %d filled their channels again but only %d handlers run; %d slots should be available", k, got, w)})
			}
		}
		tb.mu.Unlock()
		if len(sc.fails) == 0 {
			sc.closeSyncer("close after load", []int{closePlain, closeTwice, closeListenerFirst}[(variant/2)%3])
		}
	}
	c.Res.Eval(fmt.Sprintf("stress|%d|%+v|%d", seed, cfg, variant), entered > 0)
	c.Res.Count("stress:runs")
	c.Res.CountN("stress:peer-reconnects-under-load", reconnects)
	c.Res.CountN("stress:requests", total)
	c.Res.CountN("stress:handled", entered)
	c.Res.CountN("stress:dropped", drops)
	report(c, "stress", seed, cfg, variant, sc.steps, sc.fails)
}
