package main

// Peer caps under simultaneous connection attempts.
//
// Inbound: allowConnect runs when the TCP connection is accepted and then the syncer waits
// for the remote's handshake, so k connections opened before any of them shakes hands are all
// judged against the same peer set; the handshakes then complete concurrently and each ends
// in addPeer.  Outbound: peerLoop works through the peer store one address at a time.

import (
	"fmt"
	"net"
	"strings"
	"sync"
	"time"

	"go.sia.tech/core/gateway"
	"go.sia.tech/coreutils/syncer"
	"verif/harness/internal/rng"
)

func capsInbound(c *Ctx, seed uint64, cfg bedConfig, variant int) (cases []string) {
	r := rng.New(seed)
	sc, err := newScen(cfg, r)
	if err != nil {
		c.Res.Fail("harness-setup-failed", err.Error(), nil)
		return nil
	}
	defer sc.cleanup()
	m := max(cfg.MaxIn, 0) // a cap below zero admits nobody

	checkCap := func(what string) {
		in, _ := sc.tb.peersByDir()
		alive := 0
		for _, p := range sc.peers {
			if !p.isDead() {
				alive++
			}
		}
		if in > m {
			sc.failf("syncer-inbound-cap-exceeded", "%s: the syncer lists %d inbound peers (and %d of our connections are established), MaxInboundPeers is %d", what, in, alive, m)
		}
	}

	refused := 0
	if variant < 0 {
		// the minimal witness (corpus / shrunk replay): an empty syncer, MaxInboundPeers+1
		// connections accepted before any of them has completed its handshake
		var specs [][2]int
		for i := 0; i <= m; i++ {
			specs = append(specs, [2]int{1, 100 + i})
		}
		adm := sc.connectBatch(specs)
		refused += len(specs) - adm
		checkCap(fmt.Sprintf("%d simultaneous connections to an empty syncer", len(specs)))
	} else {
		rounds := 1 + r.Intn(3)
		for round := 0; round < rounds && len(sc.fails) == 0; round++ {
			// sometimes a few peers are already there, connected one after the other
			for i := r.Intn(m + 1); i > 0 && len(sc.peers) < m; i-- {
				sc.connectBatch([][2]int{{1, 100 + sc.next%100}})
			}
			k := 2 + r.Intn(6)
			var specs [][2]int
			for i := 0; i < k; i++ {
				specs = append(specs, [2]int{1 + r.Intn(3), 100 + (sc.next+i)%100})
			}
			adm := sc.connectBatch(specs)
			refused += k - adm
			checkCap(fmt.Sprintf("round %d, %d simultaneous connections", round, k))
			// some peers leave again
			for _, p := range append([]*rawPeer(nil), sc.peers...) {
				if r.Intn(3) == 0 {
					sc.disconnect(p)
				}
			}
		}
		if len(sc.fails) > 0 && sc.fails[0].kind == "syncer-inbound-cap-exceeded" {
			// shrink: does the minimal witness fail too?  then report that one
			before := len(c.Res.Failures)
			capsInbound(c, seed, cfg, -1)
			if len(c.Res.Failures) > before || c.Res.Distribution["fail:syncer-inbound-cap-exceeded"] > 0 {
				sc.fails = nil
			}
		}
	}
	in, out, live := sc.observe()
	sc.tb.mu.Lock()
	tr := append([]string(nil), sc.trace...)
	sc.tb.mu.Unlock()
	if len(sc.fails) == 0 {
		cases = append(cases, sc.coqCase(tr, in, out, live, false))
	}
	c.Res.Eval(fmt.Sprintf("caps-in|%+v|%s", cfg, strings.Join(sc.steps, "|")), refused > 0)
	c.Res.Count(fmt.Sprintf("caps:max-inbound=%d", cfg.MaxIn))
	c.Res.CountN("caps:refused-connections", refused)
	report(c, "caps-inbound", seed, cfg, variant, sc.steps, sc.fails)
	return cases
}

// capsOutbound fills the peer store with k reachable addresses and lets peerLoop connect;
// the outbound peer count must never exceed MaxOutboundPeers and must reach min(k, max).
func capsOutbound(c *Ctx, seed uint64, maxOut, k int) (cases []string) {
	cfg := bedConfig{MaxSubnet: 64, MaxRPC: 4, MaxIn: 8, MaxOut: maxOut, V4Bits: 24}
	var fails []failure
	var steps []string

	// k acceptors that complete the gateway handshake and then hold the connection
	var ls []net.Listener
	var mu sync.Mutex
	var ts []*gateway.Transport
	var order []int
	var genesis = new(gateway.Header)
	for i := 0; i < k; i++ {
		l, err := net.Listen("tcp", fmt.Sprintf("127.0.9.%d:0", 1+i))
		if err != nil {
			c.Res.Fail("harness-setup-failed", err.Error(), nil)
			return nil
		}
		ls = append(ls, l)
		go func() {
			for {
				conn, err := l.Accept()
				if err != nil {
					return
				}
				go func() {
					t, err := gateway.Accept(conn, gateway.Header{GenesisID: genesis.GenesisID, UniqueID: gateway.GenerateUniqueID(), NetAddress: l.Addr().String()})
					if err != nil {
						conn.Close()
						return
					}
					mu.Lock()
					ts = append(ts, t)
					order = append(order, i)
					mu.Unlock()
					for {
						st, err := t.AcceptStream()
						if err != nil {
							return
						}
						st.Close()
					}
				}()
			}
		}()
	}
	defer func() {
		for _, l := range ls {
			l.Close()
		}
		mu.Lock()
		for _, t := range ts {
			t.Close()
		}
		mu.Unlock()
	}()

	tb, err := newBedWith(cfg, func(ps syncer.PeerStore, h gateway.Header) {
		genesis.GenesisID = h.GenesisID
		for _, l := range ls {
			ps.AddPeer(l.Addr().String())
		}
	}, syncer.WithPeerDiscoveryInterval(20*time.Millisecond))
	if err != nil {
		c.Res.Fail("harness-setup-failed", err.Error(), nil)
		return nil
	}
	steps = append(steps, fmt.Sprintf("peer store holds %d reachable addresses, MaxOutboundPeers %d", k, maxOut))
	want := min(k, maxOut)
	maxSeen := 0
	deadline := time.Now().Add(settleTimeout)
	stableSince := time.Time{}
	for time.Now().Before(deadline) {
		_, out := tb.peersByDir()
		if out > maxSeen {
			maxSeen = out
		}
		if out >= want {
			if stableSince.IsZero() {
				stableSince = time.Now()
			} else if time.Since(stableSince) > 120*time.Millisecond { // six more rounds of peerLoop
				break
			}
		}
		time.Sleep(500 * time.Microsecond)
	}
	in, out := tb.peersByDir()
	if maxSeen > maxOut {
		fails = append(fails, failure{"syncer-outbound-cap-exceeded", fmt.Sprintf("peerLoop holds %d outbound peers, MaxOutboundPeers is %d", maxSeen, maxOut)})
	} else if out < want {
		fails = append(fails, failure{"syncer-outbound-peers-not-formed", fmt.Sprintf("only %d of %d possible outbound connections after %v", out, want, settleTimeout)})
	}
	var tr []string
	mu.Lock()
	for j := 0; j < out && j < len(order); j++ {
		tr = append(tr, fmt.Sprintf("LAllow %d 9 false true", j+1), fmt.Sprintf("LAdd %d true", j+1), fmt.Sprintf("LLoopStart %d true", j+1))
	}
	mu.Unlock()
	if out == want && want == maxOut && k > maxOut {
		// peerLoop does not even ask: numOutbound() >= max; asking would be refused
		tr = append(tr, fmt.Sprintf("LAllow %d 9 false false", out+1))
	}
	if len(fails) == 0 {
		cases = append(cases, fmt.Sprintf("mk_case (mk_config %d%%nat (%d)%%Z (%d)%%Z (%d)%%Z true) [%s] %d %d 0 false", cfg.MaxRPC, cfg.MaxSubnet, cfg.MaxIn, cfg.MaxOut, strings.Join(tr, "; "), in, out))
	}
	// shut down: Close must return and leave nothing
	done := make(chan struct{})
	go func() { tb.s.Close(); close(done) }()
	select {
	case <-done:
	case <-time.After(settleTimeout):
		fails = append(fails, failure{"syncer-close-deadlock", "Close of a syncer with outbound peers did not return within " + settleTimeout.String()})
	}
	tb.l.Close()
	c.Res.Eval(fmt.Sprintf("caps-out|%d|%d", maxOut, k), k > maxOut)
	c.Res.Count(fmt.Sprintf("caps:max-outbound=%d", maxOut))
	report(c, "caps-outbound", seed, cfg, k, steps, fails)
	return cases
}
