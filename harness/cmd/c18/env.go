package main

// Test bed for the syncer part of C18: a real syncer.Syncer with
//   - a ChainManager wrapper that logs handler enter/exit and holds every
//     SendHeaders handler until the harness opens its gate,
//   - a PeerStore wrapper whose Peers / UpdatePeerInfo calls can be held to pin a stage,
//   - raw gateway clients bound to chosen 127.x.y.z source addresses, so that
//     subnets differ or collide as the scenario wants.

import (
	"context"
	"errors"
	"fmt"
	"net"
	"runtime"
	"strings"
	"sync"
	"sync/atomic"
	"time"

	"go.sia.tech/core/consensus"
	"go.sia.tech/core/gateway"
	"go.sia.tech/core/types"
	"go.sia.tech/coreutils/chain"
	"go.sia.tech/coreutils/syncer"
	"go.sia.tech/coreutils/testutil"
)

// ---------------------------------------------------------------- blocking chain manager

type rpcInfo struct {
	rid    uint64
	conn   int // connection id (model id)
	sub    int // subnet number
	gate   chan struct{}
	opened bool

	sentSeq  int // order of sending on its connection
	entered  bool
	returned bool
	served   bool // client got the response
	gotErr   bool // client saw an error instead of a response
	errAt    time.Time

	ending int             // how the handler is made to end once released (endOK ...)
	stream *gateway.Stream // client side, for endClientAbort
}

// Ways a handler ends; whichever it is, both slots have to come back.
const (
	endOK          = iota // the chain manager answers, the reply is written
	endCMError            // the chain manager returns an error: handleRPC returns it
	endCMPanic            // the chain manager panics: handleRPC recovers
	endClientAbort        // the client has closed its stream: writing the reply fails
)

var endingName = []string{"ok", "cm-error", "cm-panic", "client-abort"}

type blockingCM struct {
	*chain.Manager
	tb *bed
}

// ridMarker marks the requests of the harness (Index.ID); Index.Height carries the request id.
var ridMarker = types.BlockID{0xC1, 0x18, 0x5E, 0xED}

// Headers is what the RPCSendHeaders handler calls: index.Height carries the request id.
func (b *blockingCM) Headers(index types.ChainIndex, max uint64) ([]types.BlockHeader, uint64, error) {
	tb := b.tb
	rid := index.Height
	tb.mu.Lock()
	ri := tb.rpcs[rid]
	if index.ID != ridMarker {
		ri = nil // not one of ours: e.g. an undecodable request whose first bytes happen to parse
	}
	if ri == nil {
		tb.mu.Unlock()
		return b.Manager.Headers(index, max)
	}
	ri.entered = true
	tb.liveConn[ri.conn]++
	tb.liveSub[ri.sub]++
	tb.live++
	if tb.liveConn[ri.conn] > tb.maxConn[ri.conn] {
		tb.maxConn[ri.conn] = tb.liveConn[ri.conn]
	}
	if tb.liveSub[ri.sub] > tb.maxSub[ri.sub] {
		tb.maxSub[ri.sub] = tb.liveSub[ri.sub]
	}
	if tb.onEnter != nil {
		tb.onEnter(ri)
	}
	gate := ri.gate
	tb.mu.Unlock()
	tb.bump()

	<-gate

	tb.mu.Lock()
	ri.returned = true
	tb.liveConn[ri.conn]--
	tb.liveSub[ri.sub]--
	tb.live--
	if tb.onReturn != nil {
		tb.onReturn(ri)
	}
	ending := ri.ending
	tb.mu.Unlock()
	tb.bump()
	switch ending {
	case endCMError:
		return nil, 0, errors.New("injected: headers unavailable")
	case endCMPanic:
		panic("injected: chain manager panics")
	}
	return nil, 0, nil
}

// AddBlocks / AddValidatedV2Blocks are what the syncer's block-applying goroutine calls.
func (b *blockingCM) AddBlocks(blocks []types.Block) error {
	defer b.tb.parkAdd()()
	return b.Manager.AddBlocks(blocks)
}

func (b *blockingCM) AddValidatedV2Blocks(blocks []types.Block, states []consensus.State) error {
	defer b.tb.parkAdd()()
	return b.Manager.AddValidatedV2Blocks(blocks, states)
}

// parkAdd records a block-applying call of the syncer and holds it while the gate is shut.
func (tb *bed) parkAdd() func() {
	tb.mu.Lock()
	tb.addCalls++
	tb.addLive++
	if tb.closeReturned {
		tb.addAfterClose++
	}
	g := tb.addGate
	tb.mu.Unlock()
	tb.bump()
	if g != nil {
		<-g
	}
	return func() {
		tb.mu.Lock()
		tb.addLive--
		tb.mu.Unlock()
		tb.bump()
	}
}

// History is what the sync loop calls first on every tick; an error there is fatal for Run.
func (b *blockingCM) History() ([32]types.BlockID, error) {
	if g := b.tb.histGate; g != nil {
		<-g
		return [32]types.BlockID{}, errors.New("injected: history unavailable")
	}
	return b.Manager.History()
}

// ---------------------------------------------------------------- peer store wrapper

type countingStore struct {
	syncer.PeerStore
	// calls that can be held to pin a stage: Peers (the peer loop's first move: keeps Run busy)
	// and UpdatePeerInfo (called by addPeer just before it inserts the peer)
	holdPeers, holdUpdate holdPoint
}

// holdPoint holds the next call that passes it (once) until released.
type holdPoint struct {
	armed   atomic.Bool
	entered chan struct{}
	release chan struct{}
	once    sync.Once
}

func (h *holdPoint) arm() {
	h.entered = make(chan struct{}, 1)
	h.release = make(chan struct{})
	h.armed.Store(true)
}

func (h *holdPoint) pass() {
	if h.armed.CompareAndSwap(true, false) {
		h.entered <- struct{}{}
		<-h.release
	}
}

func (h *holdPoint) open() {
	if h.release != nil {
		h.once.Do(func() { close(h.release) })
	}
	h.armed.Store(false)
}

func (cs *countingStore) Peers() ([]syncer.PeerInfo, error) {
	cs.holdPeers.pass()
	return cs.PeerStore.Peers()
}

func (cs *countingStore) UpdatePeerInfo(addr string, fn func(*syncer.PeerInfo)) error {
	cs.holdUpdate.pass()
	return cs.PeerStore.UpdatePeerInfo(addr, fn)
}

// ---------------------------------------------------------------- the bed

type bedConfig struct {
	MaxRPC    int
	MaxSubnet int
	MaxIn     int
	MaxOut    int
	V4Bits    int
	// FailHistory: the sync loop runs (1ms interval) and its first ChainManager.History call
	// blocks until the harness lets it fail, after which Run shuts down by itself
	FailHistory bool `json:",omitempty"`
	// HoldPeerLoop: the peer loop's first PeerStore.Peers call is held, so Run stays busy until
	// the harness lets it go
	HoldPeerLoop bool `json:",omitempty"`
	// ConnectTimeoutMs: WithConnectTimeout (default here 10s)
	ConnectTimeoutMs int `json:",omitempty"`
	// RPCTimeoutMs: WithRPCTimeout (default here 1 minute): a handler whose client never completes
	// its request gives up, and returns its slots, when this deadline passes
	RPCTimeoutMs int `json:",omitempty"`
	// SyncIntervalMs: WithSyncInterval (default here: never); ParkAddBlocks: AddBlocks and
	// AddValidatedV2Blocks of the chain manager are held until the harness lets them go
	SyncIntervalMs int  `json:",omitempty"`
	ParkAddBlocks  bool `json:",omitempty"`
}

type bed struct {
	cfg     bedConfig
	s       *syncer.Syncer
	l       net.Listener
	cm      *blockingCM
	ps      *countingStore
	genesis types.BlockID
	runDone chan error

	mu       sync.Mutex
	rpcs     map[uint64]*rpcInfo
	liveConn map[int]int
	liveSub  map[int]int
	maxConn  map[int]int
	maxSub   map[int]int
	live     int
	onEnter  func(*rpcInfo) // called with mu held
	onReturn func(*rpcInfo) // called with mu held
	onSend   func(*rpcInfo) // called with mu held, before anything is written
	nextRID  uint64

	wake chan struct{} // poked on every observation

	histGate chan struct{} // see bedConfig.FailHistory

	addGate                          chan struct{} // see bedConfig.ParkAddBlocks
	addCalls, addLive, addAfterClose int
	closeReturned                    bool
	sink                             net.Listener // a live gateway acceptor for Connect probes
}

func (tb *bed) bump() {
	select {
	case tb.wake <- struct{}{}:
	default:
	}
}

func newBed(cfg bedConfig, extra ...syncer.Option) (*bed, error) {
	return newBedWith(cfg, nil, extra...)
}

// newBedWith lets the caller fill the peer store before Run starts (peerLoop reads it at once).
func newBedWith(cfg bedConfig, prefill func(syncer.PeerStore, gateway.Header), extra ...syncer.Option) (*bed, error) {
	n, genesis := testutil.Network()
	store, ts, err := chain.NewDBStore(chain.NewMemDB(), n, genesis, nil)
	if err != nil {
		return nil, err
	}
	tb := &bed{cfg: cfg, rpcs: map[uint64]*rpcInfo{}, liveConn: map[int]int{}, liveSub: map[int]int{},
		maxConn: map[int]int{}, maxSub: map[int]int{}, wake: make(chan struct{}, 1), genesis: genesis.ID()}
	tb.cm = &blockingCM{Manager: chain.NewManager(store, ts), tb: tb}
	tb.ps = &countingStore{PeerStore: testutil.NewEphemeralPeerStore()}
	l, err := net.Listen("tcp", "127.0.0.1:0")
	if err != nil {
		return nil, err
	}
	tb.l = l
	opts := []syncer.Option{
		syncer.WithSyncInterval(time.Hour),
		syncer.WithPeerDiscoveryInterval(time.Hour),
		syncer.WithMaxInboundPeers(cfg.MaxIn),
		syncer.WithMaxOutboundPeers(cfg.MaxOut),
		syncer.WithMaxInflightRPCs(cfg.MaxRPC),
		syncer.WithMaxInflightRPCsPerSubnet(cfg.MaxSubnet),
		syncer.WithInflightRPCSubnetPrefixes(cfg.V4Bits, 48),
		syncer.WithRPCTimeout(rpcTimeout(cfg)),
		syncer.WithConnectTimeout(connectTimeout(cfg)),
	}
	if cfg.ParkAddBlocks {
		tb.addGate = make(chan struct{})
	}
	if cfg.SyncIntervalMs > 0 {
		opts = append(opts, syncer.WithSyncInterval(time.Duration(cfg.SyncIntervalMs)*time.Millisecond))
	}
	if cfg.FailHistory {
		tb.histGate = make(chan struct{})
		opts = append(opts, syncer.WithSyncInterval(time.Millisecond))
	}
	opts = append(opts, extra...)
	hdr := gateway.Header{
		GenesisID:  genesis.ID(),
		UniqueID:   gateway.GenerateUniqueID(),
		NetAddress: l.Addr().String(),
	}
	if prefill != nil {
		prefill(tb.ps, hdr)
	}
	if cfg.HoldPeerLoop {
		tb.ps.holdPeers.arm()
	}
	tb.s = syncer.New(l, tb.cm, tb.ps, hdr, opts...)
	tb.runDone = make(chan error, 1)
	go func() { tb.runDone <- tb.s.Run() }()
	return tb, nil
}

// sinkAddr returns the address of a live acceptor that completes the gateway handshake and then
// holds the connection: a Connect to it can only fail because the syncer refuses to do it.
func (tb *bed) sinkAddr() string {
	if tb.sink == nil {
		l, err := net.Listen("tcp", "127.0.0.1:0")
		if err != nil {
			return tb.l.Addr().String()
		}
		tb.sink = l
		go func() {
			for {
				conn, err := l.Accept()
				if err != nil {
					return
				}
				go func() {
					defer conn.Close()
					conn.SetDeadline(time.Now().Add(5 * time.Second))
					t, err := gateway.Accept(conn, gateway.Header{GenesisID: tb.genesis, UniqueID: gateway.GenerateUniqueID(), NetAddress: l.Addr().String()})
					if err != nil {
						return
					}
					conn.SetDeadline(time.Time{})
					defer t.Close()
					for {
						st, err := t.AcceptStream()
						if err != nil {
							return
						}
						st.Close()
					}
				}()
			}
		}()
	}
	return tb.sink.Addr().String()
}

func rpcTimeout(cfg bedConfig) time.Duration {
	if cfg.RPCTimeoutMs > 0 {
		return time.Duration(cfg.RPCTimeoutMs) * time.Millisecond
	}
	return time.Minute
}

func connectTimeout(cfg bedConfig) time.Duration {
	if cfg.ConnectTimeoutMs > 0 {
		return time.Duration(cfg.ConnectTimeoutMs) * time.Millisecond
	}
	return 10 * time.Second
}

// waitFor polls cond (woken by observations, at least every 200µs) until it holds or d elapses.
func (tb *bed) waitFor(d time.Duration, cond func() bool) bool {
	deadline := time.Now().Add(d)
	for {
		if cond() {
			return true
		}
		if time.Now().After(deadline) {
			return cond()
		}
		select {
		case <-tb.wake:
		case <-time.After(200 * time.Microsecond):
		}
	}
}

// ---------------------------------------------------------------- raw gateway client

type rawPeer struct {
	id              int // model connection id
	sub             int // subnet number (third octet)
	host            int // fourth octet
	key             int // subnet key under the configured prefix length (model subnet id)
	port            int // advertised port (0: a fresh one)
	outbound        bool
	conn            net.Conn
	t               *gateway.Transport
	dead            chan struct{}
	addr            string // address the syncer files the peer under (Peer.Addr())
	nsent           int
	closedByHarness bool
}

var portSeq atomic.Int64

func srcIP(sub, host int) net.IP { return net.IPv4(127, 0, byte(sub), byte(host)) }

// subnetKey is the model's subnet id of 127.0.sub.host under the configured IPv4 prefix length
// (the harness only uses /0, /16, /24 and /32).
func (tb *bed) subnetKey(sub, host int) int {
	switch {
	case tb.cfg.V4Bits >= 32:
		return sub*256 + host
	case tb.cfg.V4Bits >= 24:
		return sub
	}
	return 0
}

// dialTCP opens the TCP connection only (the syncer runs allowConnect on accept).
func (tb *bed) dialTCP(id, sub, host int) (*rawPeer, error) {
	d := net.Dialer{LocalAddr: &net.TCPAddr{IP: srcIP(sub, host)}, Timeout: 5 * time.Second}
	conn, err := d.DialContext(context.Background(), "tcp", tb.l.Addr().String())
	if err != nil {
		return nil, err
	}
	return &rawPeer{id: id, sub: sub, host: host, key: tb.subnetKey(sub, host), conn: conn, dead: make(chan struct{})}, nil
}

// handshake performs the gateway handshake; an error means the syncer closed the
// connection before or during it (allowConnect refused, or the handshake failed).
func (tb *bed) handshake(p *rawPeer) error {
	port := int64(p.port)
	if port == 0 {
		port = 20000 + portSeq.Add(1)%40000
	}
	p.conn.SetDeadline(time.Now().Add(10 * time.Second))
	t, err := gateway.Dial(p.conn, gateway.Header{
		GenesisID:  tb.genesis,
		UniqueID:   gateway.GenerateUniqueID(),
		NetAddress: fmt.Sprintf("%s:%d", srcIP(p.sub, p.host), port),
	})
	if err != nil {
		p.conn.Close()
		return err
	}
	p.conn.SetDeadline(time.Time{})
	p.t = t
	p.addr = fmt.Sprintf("%s:%d", srcIP(p.sub, p.host), port)
	go func() {
		for {
			st, err := t.AcceptStream()
			if err != nil {
				close(p.dead)
				tb.bump()
				return
			}
			st.Close() // we serve nothing
		}
	}()
	return nil
}

// connectOut makes the syncer dial an acceptor of the harness bound to 127.0.sub.host; the
// acceptor's end of the connection is then used like any raw peer (it can send RPCs).
func (tb *bed) connectOut(id, sub, host int) (*rawPeer, error) {
	l, err := net.Listen("tcp", fmt.Sprintf("%s:0", srcIP(sub, host)))
	if err != nil {
		return nil, err
	}
	defer l.Close()
	p := &rawPeer{id: id, sub: sub, host: host, key: tb.subnetKey(sub, host), dead: make(chan struct{}), outbound: true, addr: l.Addr().String()}
	got := make(chan error, 1)
	go func() {
		conn, err := l.Accept()
		if err != nil {
			got <- err
			return
		}
		conn.SetDeadline(time.Now().Add(10 * time.Second))
		t, err := gateway.Accept(conn, gateway.Header{GenesisID: tb.genesis, UniqueID: gateway.GenerateUniqueID(), NetAddress: l.Addr().String()})
		if err != nil {
			conn.Close()
			got <- err
			return
		}
		conn.SetDeadline(time.Time{})
		p.conn, p.t = conn, t
		got <- nil
		for {
			st, err := t.AcceptStream()
			if err != nil {
				close(p.dead)
				tb.bump()
				return
			}
			st.Close()
		}
	}()
	ctx, cancel := context.WithTimeout(context.Background(), 10*time.Second)
	defer cancel()
	if _, err := tb.s.Connect(ctx, l.Addr().String()); err != nil {
		return nil, err
	}
	if err := <-got; err != nil {
		return nil, err
	}
	return p, nil
}

// refusedEarly reports whether the syncer has already closed the freshly opened connection
// (allowConnect said no): it waits up to d for the connection to die.  The syncer sends nothing
// before it has read our version, so on a connection that is still wanted the read just times out.
func (p *rawPeer) refusedEarly(d time.Duration) bool {
	p.conn.SetReadDeadline(time.Now().Add(d))
	var b [1]byte
	_, err := p.conn.Read(b[:])
	p.conn.SetReadDeadline(time.Time{})
	if err == nil {
		return false
	}
	var ne net.Error
	if errors.As(err, &ne) && ne.Timeout() {
		return false
	}
	return true
}

func (p *rawPeer) isDead() bool {
	select {
	case <-p.dead:
		return true
	default:
		return false
	}
}

func (p *rawPeer) close() {
	if p.t != nil {
		p.t.Close()
	} else if p.conn != nil {
		p.conn.Close()
	}
}

// send issues one RPCSendHeaders whose Index.Height identifies it; the fate of the
// request is recorded when the response or an error arrives.
func (tb *bed) send(p *rawPeer) *rpcInfo { return tb.sendEnding(p, endOK) }

func (tb *bed) sendEnding(p *rawPeer, ending int) *rpcInfo {
	tb.mu.Lock()
	tb.nextRID++
	ri := &rpcInfo{rid: tb.nextRID, conn: p.id, sub: p.key, gate: make(chan struct{}), sentSeq: p.nsent, ending: ending}
	p.nsent++
	tb.rpcs[ri.rid] = ri
	if tb.onSend != nil {
		tb.onSend(ri)
	}
	tb.mu.Unlock()
	st, err := p.t.DialStream()
	if err == nil {
		st.SetDeadline(time.Now().Add(2 * time.Minute))
		req := &gateway.RPCSendHeaders{Index: types.ChainIndex{Height: ri.rid, ID: ridMarker}, Max: 1}
		if err = st.WriteID(req); err == nil {
			err = st.WriteRequest(req)
		}
	}
	if err != nil {
		// the syncer may close the stream (subnet over budget) before we have written the
		// request: for the client that is the same observation as a failed read
		tb.mu.Lock()
		ri.gotErr = true
		ri.errAt = time.Now()
		tb.mu.Unlock()
		if st != nil {
			st.Close()
		}
		tb.bump()
		return ri
	}
	tb.mu.Lock()
	ri.stream = st
	tb.mu.Unlock()
	go func() {
		resp := &gateway.RPCSendHeaders{Max: 1}
		err := st.ReadResponse(resp)
		st.Close()
		tb.mu.Lock()
		if err == nil {
			ri.served = true
		} else {
			ri.gotErr = true
			ri.errAt = time.Now()
		}
		tb.mu.Unlock()
		tb.bump()
	}()
	return ri
}

func (tb *bed) open(ri *rpcInfo) {
	tb.mu.Lock()
	if !ri.opened && ri.ending == endClientAbort && ri.stream != nil {
		ri.stream.Close() // the client walks away before the handler gets to reply
	}
	if !ri.opened {
		ri.opened = true
		close(ri.gate)
	}
	tb.mu.Unlock()
}

func (tb *bed) openAll() {
	tb.mu.Lock()
	for _, ri := range tb.rpcs {
		if !ri.opened {
			ri.opened = true
			close(ri.gate)
		}
	}
	tb.mu.Unlock()
}

// peersByDir returns the number of inbound and outbound peers the syncer reports.
func (tb *bed) peersByDir() (in, out int) {
	for _, p := range tb.s.Peers() {
		if p.Inbound {
			in++
		} else {
			out++
		}
	}
	return
}

func (tb *bed) hasPeer(addr string) bool {
	for _, p := range tb.s.Peers() {
		if p.Addr() == addr {
			return true
		}
	}
	return false
}

// ---------------------------------------------------------------- goroutine inventory

type inventory struct {
	total    int
	handlers int // goroutines created by Syncer.runPeer (RPC handlers)
	loops    int // goroutines executing Syncer.runPeer itself
	syncer   int // goroutines with a frame of package coreutils/syncer
	byPkg    map[string]int
	dump     string
}

// goroutines takes a stack dump of all goroutines and classifies them.
func goroutines() inventory {
	buf := make([]byte, 1<<20)
	for {
		n := runtime.Stack(buf, true)
		if n < len(buf) {
			buf = buf[:n]
			break
		}
		buf = make([]byte, 2*len(buf))
	}
	inv := inventory{byPkg: map[string]int{}, dump: string(buf)}
	for _, g := range strings.Split(string(buf), "\n\n") {
		if !strings.HasPrefix(g, "goroutine ") {
			continue
		}
		inv.total++
		if strings.Contains(g, "created by go.sia.tech/coreutils/syncer.(*Syncer).runPeer in") {
			inv.handlers++
		}
		if strings.Contains(g, "go.sia.tech/coreutils/syncer.(*Syncer).runPeer(") {
			inv.loops++
		}
		if strings.Contains(g, "go.sia.tech/coreutils/syncer.") {
			inv.syncer++
		}
		for _, pkg := range []string{"coreutils/syncer.", "coreutils/rhp/v4.", "coreutils/wallet.", "coreutils/threadgroup.", "go.sia.tech/mux", "coreutils/rhp/v4/siamux."} {
			if strings.Contains(g, pkg) {
				inv.byPkg[pkg]++
			}
		}
	}
	return inv
}

// goroutinesWith returns the stack blocks that mention any of the given substrings.
func goroutinesWith(subs ...string) []string {
	inv := goroutines()
	var out []string
	for _, g := range strings.Split(inv.dump, "\n\n") {
		for _, s := range subs {
			if strings.Contains(g, s) {
				out = append(out, g)
				break
			}
		}
	}
	return out
}
