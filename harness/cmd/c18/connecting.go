package main

// Close while a connection is at each stage of being established: before the handshake, inside
// the handshake, inside addPeer (held in PeerStore.UpdatePeerInfo), just after addPeer --
// inbound (a raw peer that dawdles) and outbound (Connect to an acceptor that dawdles, or through
// a slow dialer), with Run idle or kept busy in its peer loop.  Whatever the moment: Close
// returns within a deadline, Run returns, no peer is left in Peers(), no goroutine is left.

import (
	"context"
	"errors"
	"fmt"
	"net"
	"strings"
	"sync"
	"time"

	"go.sia.tech/core/gateway"
	"go.sia.tech/coreutils/syncer"
	"go.sia.tech/coreutils/threadgroup"
	"verif/harness/internal/rng"
)

var stageName = []string{"before the handshake", "inside the handshake", "inside addPeer (PeerStore.UpdatePeerInfo)", "just after addPeer"}

const closeDeadline = 5 * time.Second

// gatedConn lets the first write through and holds the second until the gate opens: the
// gateway handshake is then stuck between the version exchange and the header exchange.
type gatedConn struct {
	net.Conn
	mu      sync.Mutex
	writes  int
	reached chan struct{}
	gate    chan struct{}
}

func (g *gatedConn) Write(b []byte) (int, error) {
	g.mu.Lock()
	g.writes++
	n := g.writes
	g.mu.Unlock()
	if n == 2 {
		close(g.reached)
		<-g.gate
	}
	return g.Conn.Write(b)
}

// slowDialer waits for its gate and then dials regardless of the context it was given.
type slowDialer struct {
	once    sync.Once
	reached chan struct{}
	gate    chan struct{}
}

func (d *slowDialer) DialContext(ctx context.Context, network, addr string) (net.Conn, error) {
	if err := ctx.Err(); err != nil {
		return nil, err // the harness's probes with a dead context
	}
	d.once.Do(func() { close(d.reached) })
	<-d.gate
	return (&net.Dialer{Timeout: 5 * time.Second}).DialContext(context.Background(), network, addr)
}

func closeWhileConnecting(c *Ctx, seed uint64, variant int) {
	r := rng.New(seed)
	outbound, stage, holdRun := variant%2 == 1, (variant/2)%4, (variant/8)%2 == 1
	cfg := bedConfig{MaxSubnet: 64, MaxRPC: 4, MaxIn: 8, MaxOut: 8, V4Bits: 24, HoldPeerLoop: holdRun}
	var fails []failure
	failf := func(kind, format string, a ...any) { fails = append(fails, failure{kind, fmt.Sprintf(format, a...)}) }
	dir := map[bool]string{false: "inbound", true: "outbound"}[outbound]
	what := fmt.Sprintf("Close while an %s connection is %s (Run busy in its peer loop: %v)", dir, stageName[stage], holdRun)
	steps := []string{what}

	var opts []syncer.Option
	var dialer *slowDialer
	if outbound && stage == 0 {
		dialer = &slowDialer{reached: make(chan struct{}), gate: make(chan struct{})}
		opts = append(opts, syncer.WithDialer(dialer))
	}
	tb, err := newBedWith(cfg, nil, opts...)
	if err != nil {
		c.Res.Fail("harness-setup-failed", err.Error(), nil)
		return
	}
	wait := func(ch <-chan struct{}, what string) bool {
		select {
		case <-ch:
			return true
		case <-time.After(settleTimeout):
			failf("harness-stage-not-reached", "%s: timed out waiting for %s", what, what)
			return false
		}
	}
	var cleanup []func()
	defer func() {
		tb.ps.holdPeers.open()
		tb.ps.holdUpdate.open()
		for _, f := range cleanup {
			f()
		}
		done := make(chan struct{})
		go func() { tb.s.Close(); close(done) }()
		select {
		case <-done:
		case <-time.After(2 * time.Second):
		}
		tb.l.Close()
		if tb.sink != nil {
			tb.sink.Close()
		}
	}()
	if holdRun && !wait(tb.ps.holdPeers.entered, "the peer loop to query the peer store") {
		report(c, "close-while-connecting", seed, cfg, variant, steps, fails)
		return
	}

	closed := make(chan error, 1)
	closing := func() { // calls Close and waits until the thread group is visibly closed
		go func() { closed <- tb.s.Close() }()
		dead, cancel := context.WithCancel(context.Background())
		cancel()
		waitUntil(settleTimeout, func() bool {
			// with a dead context Connect fails without side effects; once the group is closed
			// it is refused with ErrClosed instead
			_, err := tb.s.Connect(dead, "127.0.0.1:1")
			return errors.Is(err, threadgroup.ErrClosed)
		})
	}
	pause := func() { time.Sleep(time.Duration(r.Intn(400)) * time.Microsecond) }
	proceed := make(chan struct{}) // closed when the connection attempt has run its course
	ok := true

	if !outbound {
		p, err := tb.dialTCP(1, 1, 10)
		if err != nil {
			c.Res.Fail("harness-setup-failed", err.Error(), nil)
			return
		}
		cleanup = append(cleanup, p.close)
		// give the syncer a moment to accept the connection and decide on it; if it has closed it
		// already there is no connection attempt to close around
		if p.refusedEarly(2 * time.Millisecond) {
			c.Res.Count("connecting:refused-at-once")
			ok = false
		}
		shake := func() {
			go func() {
				if tb.handshake(p) == nil {
					waitUntil(2*time.Second, func() bool { return p.isDead() || tb.hasPeer(p.addr) })
				}
				close(proceed)
			}()
		}
		switch {
		case !ok:
		case stage == 0:
			closing()
			pause()
			shake()
		case stage == 1:
			g := &gatedConn{Conn: p.conn, reached: make(chan struct{}), gate: make(chan struct{})}
			p.conn = g
			shake()
			if ok = wait(g.reached, "the handshake to reach the header exchange"); ok {
				closing()
				pause()
			}
			close(g.gate)
		case stage == 2:
			tb.ps.holdUpdate.arm()
			shake()
			if ok = wait(tb.ps.holdUpdate.entered, "the connection to reach addPeer"); ok {
				closing()
				pause()
			}
			tb.ps.holdUpdate.open()
		default:
			shake()
			waitUntil(settleTimeout, func() bool { return tb.hasPeer(p.addr) || p.isDead() })
			go func() { closed <- tb.s.Close() }()
		}
	} else {
		// the acceptor: completes the handshake when its gate opens, then holds the connection
		sinkGate, sinkReached := make(chan struct{}), make(chan struct{})
		l, err := net.Listen("tcp", "127.0.0.1:0")
		if err != nil {
			c.Res.Fail("harness-setup-failed", err.Error(), nil)
			return
		}
		cleanup = append(cleanup, func() { l.Close() })
		go func() {
			conn, err := l.Accept()
			if err != nil {
				return
			}
			defer conn.Close()
			close(sinkReached)
			<-sinkGate
			conn.SetDeadline(time.Now().Add(5 * time.Second))
			t, err := gateway.Accept(conn, gateway.Header{GenesisID: tb.genesis, UniqueID: gateway.GenerateUniqueID(), NetAddress: l.Addr().String()})
			if err != nil {
				return
			}
			conn.SetDeadline(time.Time{})
			defer t.Close()
			for {
				st, err := t.AcceptStream()
				if err != nil {
					return
				}
				st.Close()
			}
		}()
		if stage != 1 {
			close(sinkGate)
		}
		connect := func() {
			go func() {
				ctx, cancel := context.WithTimeout(context.Background(), 5*time.Second)
				defer cancel()
				tb.s.Connect(ctx, l.Addr().String())
				close(proceed)
			}()
		}
		switch stage {
		case 0:
			connect()
			if ok = wait(dialer.reached, "Connect to reach the dialer"); ok {
				closing()
				pause()
			}
			close(dialer.gate)
		case 1:
			connect()
			if ok = wait(sinkReached, "Connect to start the handshake"); ok {
				closing()
				pause()
			}
			close(sinkGate)
		case 2:
			tb.ps.holdUpdate.arm()
			connect()
			if ok = wait(tb.ps.holdUpdate.entered, "Connect to reach addPeer"); ok {
				closing()
				pause()
			}
			tb.ps.holdUpdate.open()
		default:
			connect()
			wait(proceed, "Connect to return")
			go func() { closed <- tb.s.Close() }()
		}
	}
	if ok {
		wait(proceed, "the connection attempt to finish")
		// the peer's goroutine (if it got that far) is refused by the closed group and has to take
		// the peer out again; only then is Run let go
		time.Sleep(time.Duration(r.Intn(3000)) * time.Microsecond)
		tb.ps.holdPeers.open()
		select {
		case <-closed:
		case <-time.After(closeDeadline):
			failf("syncer-close-deadlock", "%s: Close did not return within %v; Peers() lists %d peers\n%s", what, closeDeadline, len(tb.s.Peers()), strings.Join(goroutinesWith("syncer.(*Syncer).Run(", "threadgroup.(*ThreadGroup).Stop"), "\n\n"))
		}
		select {
		case <-tb.runDone:
		case <-time.After(closeDeadline):
			failf("syncer-run-did-not-return", "%s: Run did not return after Close; Peers() lists %d peers", what, len(tb.s.Peers()))
		}
		var left int
		if !waitUntil(2*time.Second, func() bool { left = len(tb.s.Peers()); return left == 0 }) {
			failf("syncer-peer-left-after-close", "%s: %d peer(s) are still listed by Peers() after Close: the peer was inserted by addPeer while the syncer was closing and its goroutine, refused by the closed thread group, did not remove it", what, left)
		}
		if len(fails) == 0 {
			var gs []string
			if !waitUntil(3*time.Second, func() bool { gs = goroutinesWith("coreutils/syncer."); return len(gs) == 0 }) {
				failf("syncer-goroutine-leak-after-close", "%s: %d goroutines of the syncer are alive 3s after Close returned:\n%s", what, len(gs), gs[0])
			}
		}
	}
	c.Res.Eval("connecting|"+what, true)
	c.Res.Count("connecting:" + dir + ", " + stageName[stage])
	report(c, "close-while-connecting", seed, cfg, variant, steps, fails)
}
