package main

// What WithMaxInflightRPCs(n) does for n <= 0 is undocumented; it is reported as an
// observation, not judged (DESIGN.md 4a).  n = -1 panics in make(chan), which would take the
// harness down with it, so that experiment runs in a child process.

import (
	"fmt"
	"os"
	"os/exec"
	"strings"
	"time"

	"verif/harness/internal/rng"
)

func observePeerLimitBelowOne(c *Ctx) {
	cfg := bedConfig{MaxRPC: 0, MaxSubnet: 0, MaxIn: 8, MaxOut: 8, V4Bits: 24}
	sc, err := newScen(cfg, rng.New(1))
	if err == nil {
		sc.connectBatch([][2]int{{1, 10}})
		if len(sc.peers) == 1 {
			ri := sc.tb.send(sc.peers[0])
			time.Sleep(150 * time.Millisecond)
			sc.tb.mu.Lock()
			entered, gotErr := ri.entered, ri.gotErr
			sc.tb.mu.Unlock()
			c.Res.Notes = append(c.Res.Notes, fmt.Sprintf("observation (not judged): WithMaxInflightRPCs(0): a request was %s after 150ms (admitted=%v, dropped=%v): an unbuffered channel blocks every RPC", map[bool]string{true: "admitted", false: "still blocked"}[entered], entered, gotErr))
		}
		sc.cleanup()
	}
	exe, err := os.Executable()
	if err != nil {
		return
	}
	cmd := exec.Command(exe)
	cmd.Env = append(os.Environ(), "C18_CHILD=negpeer")
	done := make(chan struct{})
	var out []byte
	go func() { out, err = cmd.CombinedOutput(); close(done) }()
	select {
	case <-done:
	case <-time.After(10 * time.Second):
		cmd.Process.Kill()
		<-done
	}
	line := ""
	for _, l := range strings.Split(string(out), "\n") {
		if strings.HasPrefix(l, "panic:") || strings.HasPrefix(l, "child:") {
			line = l
			break
		}
	}
	c.Res.Notes = append(c.Res.Notes, fmt.Sprintf("observation (not judged): WithMaxInflightRPCs(-1) in a child process: exit=%v, %q", err, line))
}

// childMain connects one peer to a syncer with a negative per-peer limit.
func childMain() {
	cfg := bedConfig{MaxRPC: -1, MaxSubnet: 0, MaxIn: 8, MaxOut: 8, V4Bits: 24}
	sc, err := newScen(cfg, rng.New(1))
	if err != nil {
		fmt.Println("child: setup failed:", err)
		return
	}
	sc.connectBatch([][2]int{{1, 10}})
	time.Sleep(200 * time.Millisecond)
	fmt.Println("child: no panic; peers:", len(sc.tb.s.Peers()))
	os.Exit(0)
}
