// Command c19 checks C19 (pruning removes only old block bodies and never
// breaks the node): histories with prune calls run on a real manager and, without
// the prunes, on an unpruned twin; after every call the two must agree unless
// the call needed a pruned body, which must fail with an error and change nothing.
package main

import (
	"bytes"
	"encoding/json"
	"fmt"
	"os"
	"strings"

	"go.sia.tech/core/types"
	"verif/harness/internal/chaingen"
	"verif/harness/internal/hx"
	"verif/harness/internal/mgrsim"
	"verif/harness/internal/rng"
)

func main() { hx.Main("C19", run) }

type failure struct{ kind, detail string }

// drive: how the pruned node is driven besides the plan (mgrsim/ext.go): modes; "probe" = after every call
// the requests that may need bodies are made around the pruning boundary; "blind:<api>" = the plan is run
// again without any read between the calls and <api> is the first read.
type drive struct {
	Modes []string
	Probe bool
	First string
}

func driveOf(cs mgrsim.Case) drive {
	d := drive{}
	for _, m := range cs.Modes {
		switch {
		case m == "probe":
			d.Probe = true
		case strings.HasPrefix(m, "blind:"):
			d.First = strings.TrimPrefix(m, "blind:")
		default:
			d.Modes = append(d.Modes, m)
		}
	}
	return d
}

func (d drive) has(m string) bool {
	for _, x := range d.Modes {
		if x == m {
			return true
		}
	}
	return false
}

func runCase(t *chaingen.Tree, d drive, plan []mgrsim.Op) ([]mgrsim.Obs, *failure, map[string]int) {
	s := mgrsim.NewSim(t, nil)
	if len(d.Modes) > 0 {
		s.Enable(d.Modes...)
	}
	twin := mgrsim.NewSim(t, nil)
	stats := map[string]int{}
	var prev, tprev mgrsim.Obs
	s.Observe(&prev)
	twin.Observe(&tprev)
	var obs []mgrsim.Obs
	var fail *failure
	report := func(kind, format string, a ...any) {
		if fail == nil {
			fail = &failure{kind, fmt.Sprintf(format, a...)}
		}
	}
	diverged := false
	stopped := false
	var lastPrune uint64
	havePrune := false
	for _, op := range plan {
		o := s.Do(op)
		if o.Hung {
			report("c19-call-hangs", "%s (modes %v: a reorg listener prunes from inside the notification)", o.ErrText, d.Modes)
			stopped = true
			break
		}
		obs = append(obs, o)
		if o.Panic {
			report("c19-panic", "%v panicked: %s", op, o.ErrText)
			stopped = true
			break
		}
		broken := len(o.Best) == 0
		for _, id := range o.Best {
			if id < 0 {
				broken = true
			}
		}
		if broken {
			report("c19-best-chain-broken", "after %v the best chain %v has a height without an index or a block that the generator does not know (-1 / -2)", op, o.Best)
			stopped = true
			break
		}
		if !mgrsim.HasTwin(t, plan) {
			for _, k := range o.Known {
				if k.Body && !k.Good {
					report("c19-stored-body-not-the-submitted-block", "after %v the stored body of block %d differs from the block that was submitted (no same-id copy is part of the plan; modes %v)", op, k.ID, d.Modes)
					break
				}
			}
		}
		for _, id := range o.Polled {
			if id != prev.Best[0] && id != o.Best[0] {
				report("c19-intermediate-tip-visible", "while %v ran (tip %d before, %d after) a concurrent reader was served tip %d", op, prev.Best[0], o.Best[0], id)
			}
		}
		for _, f := range o.ListenerFaults {
			report("c19-reader-sees-inconsistent-state", "during %v: %s", op, f)
		}
		switch op.Kind {
		case "reopen":
			stats["reopens"]++
			if why, same := mgrsim.SameState(prev, o); !same || o.Err {
				report("c19-reopen-changed-state", "%v (err=%v %s) changed what the pruned node serves: %s", op, o.Err, o.ErrText, why)
			}
		case "prune":
			stats["prunes"]++
			tipH := uint64(len(prev.Best) - 1)
			switch {
			case op.Height == 0:
				stats["prune-height:0"]++
			case op.Height == ^uint64(0):
				stats["prune-height:max-uint64"]++
			case op.Height > tipH+1:
				stats["prune-height:beyond-tip"]++
			case op.Height == tipH+1:
				stats["prune-height:tip+1"]++
			case op.Height == tipH:
				stats["prune-height:tip"]++
			default:
				stats["prune-height:mid-chain"]++
			}
			if havePrune {
				switch {
				case op.Height == lastPrune:
					stats["prune-after-prune:same-height"]++
				case op.Height < lastPrune:
					stats["prune-after-prune:lower"]++
				default:
					stats["prune-after-prune:higher"]++
				}
			}
			lastPrune, havePrune = op.Height, true
			// best chain, tip state, states and headers unchanged; exactly the bodies below the height are gone
			if fmt.Sprint(o.Best) != fmt.Sprint(prev.Best) || !bytes.Equal(o.TipState, prev.TipState) {
				report("c19-prune-changed-chain", "%v changed the best chain or tip state", op)
			}
			h := map[int]uint64{}
			onBest := map[int]bool{}
			for i, id := range o.Best {
				h[id] = uint64(len(o.Best) - 1 - i)
				onBest[id] = true
			}
			// expected: walking down from height-1, bodies are removed until the first already missing one
			expectGone := map[int]bool{}
			top := op.Height // above the tip there is nothing to prune; every best-chain body below the height goes
			if top > uint64(len(prev.Best)) {
				top = uint64(len(prev.Best))
			}
			for hh := int64(top) - 1; hh >= 0; hh-- {
				id := prev.Best[len(prev.Best)-1-int(hh)]
				if !prev.Known[id].Body {
					break
				}
				expectGone[id] = true
			}
			for i, k := range o.Known {
				p := prev.Known[i]
				if k.State != p.State {
					report("c19-prune-changed-state", "%v changed the stored state of block %d (%d -> %d)", op, k.ID, p.State, k.State)
				}
				if expectGone[k.ID] {
					if k.Body || k.Supp {
						report("c19-prune-kept-body", "%v kept the body of best-chain block %d at height %d", op, k.ID, h[k.ID])
					}
					stats["bodies-pruned"]++
				} else if k.Body != p.Body || k.Supp != p.Supp {
					report("c19-prune-removed-wrong-body", "%v changed body/supplement of block %d (on best chain: %v, height %d) which is not below the prune height on the best chain", op, k.ID, onBest[k.ID], h[k.ID])
				}
			}
			// header serving and history still work
			if _, err := s.CM.History(); err != nil {
				report("c19-history-broken", "History fails after %v: %v", op, err)
			}
			gidx, _ := s.CM.BestIndex(0)
			hdrs, _, err := s.CM.Headers(gidx, 1000)
			if err != nil || len(hdrs) != len(o.Best)-1 {
				report("c19-headers-broken", "Headers from genesis after %v: %d headers, err %v (chain length %d)", op, len(hdrs), err, len(o.Best))
			}
			mr := o.MinReorg
			if mr >= 0 {
				// the fork point itself needs no body; every block strictly above it must have one,
				// and the index is minimal: the block below it has no body (or it is genesis)
				for i, id := range o.Best {
					if h[id] > h[mr] && !o.Known[id].Body {
						report("c19-min-reorg-index-wrong", "after %v MinReorgIndex is block %d (height %d) but block %d above it has no body", op, mr, h[mr], id)
					}
					if id == mr && mr != o.Best[0] && !o.Known[id].Body {
						report("c19-min-reorg-index-wrong", "after %v MinReorgIndex is block %d below the tip, which has no body", op, mr)
					}
					if id == mr && i+1 < len(o.Best) && o.Known[o.Best[i+1]].Body {
						report("c19-min-reorg-index-not-minimal", "after %v MinReorgIndex is block %d but the block below it still has a body", op, mr)
					}
				}
			} else {
				report("c19-min-reorg-index-wrong", "after %v MinReorgIndex is not on the generated tree", op)
			}
		default:
			to := twin.Do(op)
			tprev = to
			if len(o.ListenerPruned) > 0 {
				// the listener pruned below h from inside the notification: on the new best chain every body below
				// h is gone (bodies are missing from the bottom only), every body from h up is there, and nothing
				// off the best chain lost its body
				h := o.ListenerPruned[len(o.ListenerPruned)-1]
				stats["prunes-from-inside-the-reorg-listener"]++
				onBest, wasBest := map[int]bool{}, map[int]bool{}
				for _, id := range prev.Best {
					wasBest[id] = true
				}
				for i, id := range o.Best {
					onBest[id] = true
					hh := uint64(len(o.Best) - 1 - i)
					if hh < h && o.Known[id].Body {
						report("c19-prune-kept-body", "%v: the reorg listener pruned below %d from inside the notification, yet best-chain block %d at height %d still has its body", op, h, id, hh)
					}
					// (a block that was on the best chain without a body before the call was pruned earlier)
					if hh >= h && !o.Known[id].Body && (prev.Known[id].Body || !wasBest[id]) {
						report("c19-prune-removed-wrong-body", "%v: the reorg listener pruned below %d from inside the notification and best-chain block %d at height %d lost its body", op, h, id, hh)
					}
				}
				for i, k := range o.Known {
					if !onBest[k.ID] && prev.Known[i].Body && !k.Body {
						report("c19-prune-removed-wrong-body", "%v: the reorg listener pruned below %d and block %d, which is not on the best chain, lost its body", op, h, k.ID)
					}
				}
			}
			if diverged {
				break
			}
			same := to.Err == o.Err && fmt.Sprint(to.Best) == fmt.Sprint(o.Best) && bytes.Equal(to.TipState, o.TipState) && to.Notified == o.Notified
			if same {
				stats["calls-equal-to-twin"]++
				// where the fork point of an adopted reorg lies relative to the reported minimum reorg index
				if len(prev.Best) > 0 && fmt.Sprint(o.Best) != fmt.Sprint(prev.Best) && prev.MinReorg >= 0 {
					nb := map[int]bool{}
					for _, id := range o.Best {
						nb[id] = true
					}
					for _, id := range prev.Best {
						if nb[id] {
							if id != prev.Best[0] {
								fh, mh := s.T.Nodes[id].Height, s.T.Nodes[prev.MinReorg].Height
								switch {
								case mh == 0: // nothing was pruned yet
								case fh == mh:
									stats["reorgs-adopted/fork-point-exactly-at-min-reorg-index"]++
								case fh == mh+1:
									stats["reorgs-adopted/fork-point-one-above-min-reorg-index"]++
								default:
									stats["reorgs-adopted/fork-point-further-above-min-reorg-index"]++
								}
								if mh > 0 {
									stats["reorgs-adopted-on-a-pruned-node"]++
								}
							}
							break
						}
					}
				}
				break
			}
			// legitimate only if the twin's reorg reverted a block whose body the pruned node no longer has
			needsPruned := false
			newBest := map[int]bool{}
			for _, id := range to.Best {
				newBest[id] = true
			}
			for _, id := range prev.Best {
				if !newBest[id] && !prev.Known[id].Body {
					needsPruned = true
				}
			}
			if needsPruned && o.Err && fmt.Sprint(o.Best) == fmt.Sprint(prev.Best) && bytes.Equal(o.TipState, prev.TipState) {
				// legitimate only for a fork point below the reported minimum reorg index
				fork := -1
				for _, id := range prev.Best {
					if newBest[id] {
						fork = id
						break
					}
				}
				if fork >= 0 && prev.MinReorg >= 0 && s.T.Nodes[fork].Height >= s.T.Nodes[prev.MinReorg].Height {
					report("c19-reorg-at-or-above-min-reorg-index-refused", "%v: fork point is block %d (height %d), at or above the reported MinReorgIndex %d (height %d), yet the pruned node refused (%s) what the unpruned twin adopted", op, fork, s.T.Nodes[fork].Height, prev.MinReorg, s.T.Nodes[prev.MinReorg].Height, o.ErrText)
				}
				stats["reorgs-refused-below-boundary"]++
				if fork >= 0 && prev.MinReorg >= 0 && s.T.Nodes[fork].Height+1 == s.T.Nodes[prev.MinReorg].Height {
					stats["reorgs-refused-below-boundary/fork-point-one-below-min-reorg-index"]++
				}
				// the refusal comes after the reverts that were still possible: those had to be rolled back
				rev := 0
				for _, id := range prev.Best {
					if newBest[id] || !prev.Known[id].Body {
						break
					}
					rev++
				}
				if rev > 0 {
					stats["reorgs-refused-below-boundary/after-reverting>=1-block"]++
				}
				diverged = true
				break
			}
			if needsPruned {
				report("c19-below-boundary-not-clean", "%v needs pruned bodies: pruned node err=%v (%s) best %v -> %v", op, o.Err, o.ErrText, prev.Best, o.Best)
			} else {
				report("c19-twin-differs", "%v: pruned node err=%v best=%v, unpruned twin err=%v best=%v (no pruned body is needed)", op, o.Err, o.Best, to.Err, to.Best)
			}
		}
		// requests that need pruned bodies fail with an error: Block() of a pruned id reports absence
		for _, k := range o.Known {
			if !k.Body {
				if _, ok := s.CM.Block(s.T.Nodes[k.ID].ID); ok {
					report("c19-block-served-without-body", "Block(%d) served although the body is gone", k.ID)
				}
			}
		}
		if d.Probe {
			probe(s, o, stats, report)
		}
		// "history, header serving ... keep working and produce the same [answers] as on an unpruned node":
		// while both nodes are on the same best chain the two calls answer identically
		if !diverged && fmt.Sprint(tprev.Best) == fmt.Sprint(o.Best) {
			for _, api := range []string{"history", "headers", "bestindex", "tipstate"} {
				if a, b := mgrsim.ReadAPI(s, api), mgrsim.ReadAPI(twin, api); a != b {
					report("c19-"+api+"-differs-from-twin", "after %v %s answers %.200q on the pruned node and %.200q on the unpruned twin (same best chain)", op, api, a, b)
				}
			}
			stats["read-calls-compared-with-twin"] += 4
		}
		prev = o
	}
	if fail == nil && !stopped && d.First != "" {
		// class 1: the same plan on a fresh node with no read between the calls (in particular none between a
		// prune and the next call); the first read afterwards is d.First
		stats["unobserved-re-runs"]++
		firstObserved := mgrsim.ReadAPI(s, d.First)
		firstBlind, blind, bad := mgrsim.RunBlind(t, plan, d.Modes, d.First)
		if bad != "" {
			report("c19-unobserved-run-fails", "the plan run without any read between the calls: %s (with an observation after every call it ran through)", bad)
		} else if firstBlind != firstObserved {
			report("c19-first-read-after-unobserved-run-differs", "the plan run without any read between the calls, then %s as the very first read: it returns %.300q; on the node that was observed after every call the same read returns %.300q", d.First, firstBlind, firstObserved)
		} else if why, same := mgrsim.SameState(prev, blind); !same {
			report("c19-unobserved-run-differs", "the plan run without any read between the calls ends in another state than with an observation after every call: %s", why)
		}
	}
	return obs, fail, stats
}

// probe makes, around the pruning boundary, the requests that may need block bodies (UpdatesSince,
// BlocksForHistory) and one that never does (Headers). Ground truth from the observation: a request
// needs a pruned body iff one of the best-chain blocks it has to deliver has none. Such a request must
// fail with an error (never panic, never deliver something else); every other request must be served
// with exactly those blocks.
func probe(s *mgrsim.Sim, o mgrsim.Obs, stats map[string]int, report func(kind, format string, a ...any)) {
	if o.MinReorg < 0 || len(o.Best) < 2 {
		return
	}
	tip := len(o.Best) - 1
	at := func(h int) *chaingen.Node { return s.T.Nodes[o.Best[tip-h]] }
	mr := int(s.T.Nodes[o.MinReorg].Height)
	for h := mr - 2; h <= mr+1; h++ {
		if h < 0 || h >= tip {
			continue
		}
		n := 2
		if tip-h < n {
			n = tip - h
		}
		needsPruned := false
		for j := 1; j <= n; j++ {
			if !o.Known[o.Best[tip-(h+j)]].Body {
				needsPruned = true
			}
		}
		idx := types.ChainIndex{Height: uint64(h), ID: at(h).ID}
		type answer struct {
			name string
			err  error
			ids  []types.BlockID
		}
		call := func(name string, f func() (error, []types.BlockID)) (a answer, panicked bool) {
			defer func() {
				if r := recover(); r != nil {
					report("c19-request-panics", "%s from best-chain height %d (MinReorgIndex at height %d, needs a pruned body: %v) panicked: %v", name, h, mr, needsPruned, r)
					panicked = true
				}
			}()
			err, ids := f()
			return answer{name, err, ids}, false
		}
		var answers []answer
		if a, p := call("UpdatesSince", func() (error, []types.BlockID) {
			rus, aus, err := s.CM.UpdatesSince(idx, n)
			var ids []types.BlockID
			for _, au := range aus {
				ids = append(ids, au.Block.ID())
			}
			if err == nil && len(rus) != 0 {
				ids = append(ids, types.BlockID{}) // a revert on the best chain: a wrong answer
			}
			return err, ids
		}); !p {
			answers = append(answers, a)
		}
		if a, p := call("BlocksForHistory", func() (error, []types.BlockID) {
			bs, _, err := s.CM.BlocksForHistory([]types.BlockID{idx.ID}, uint64(n))
			var ids []types.BlockID
			for _, b := range bs {
				ids = append(ids, b.ID())
			}
			return err, ids
		}); !p {
			answers = append(answers, a)
		}
		for _, a := range answers {
			switch {
			case needsPruned && a.err == nil:
				report("c19-request-needing-pruned-body-succeeded", "%s from best-chain height %d for %d blocks returned no error although a block it has to deliver has no body (MinReorgIndex at height %d); it delivered %d blocks", a.name, h, n, mr, len(a.ids))
			case needsPruned:
				stats["requests-needing-a-pruned-body-refused"]++
			case a.err != nil:
				report("c19-request-refused-although-bodies-present", "%s from best-chain height %d for %d blocks failed (%v) although every block it has to deliver has its body", a.name, h, n, a.err)
			default:
				ok := len(a.ids) == n
				for j := 0; ok && j < n; j++ {
					ok = a.ids[j] == at(h+1+j).ID
				}
				if !ok {
					report("c19-request-wrong-answer", "%s from best-chain height %d for %d blocks did not deliver the best-chain blocks above it", a.name, h, n)
				}
				stats["requests-at-or-above-the-boundary-served"]++
			}
		}
		// header serving never needs a body
		if a, p := call("Headers", func() (error, []types.BlockID) {
			hs, _, err := s.CM.Headers(idx, uint64(n))
			var ids []types.BlockID
			for _, bh := range hs {
				ids = append(ids, bh.ID())
			}
			return err, ids
		}); !p {
			ok := a.err == nil && len(a.ids) == n
			for j := 0; ok && j < n; j++ {
				ok = a.ids[j] == at(h+1+j).ID
			}
			if !ok {
				report("c19-headers-broken", "Headers from best-chain height %d for %d headers (bodies pruned below height %d): err %v, %d headers", h, n, mr, a.err, len(a.ids))
			}
			stats["header-requests-across-the-boundary-served"]++
		}
	}
}

func shrink(t *chaingen.Tree, d drive, plan []mgrsim.Op, kind string) []mgrsim.Op {
	if kind == "c19-call-hangs" {
		return plan // every attempt costs a hang timeout
	}
	fails := func(p []mgrsim.Op) bool {
		_, f, _ := runCase(t, d, p)
		return f != nil && f.kind == kind
	}
	for changed := true; changed; {
		changed = false
		for i := range plan {
			c := append(append([]mgrsim.Op(nil), plan[:i]...), plan[i+1:]...)
			if fails(c) {
				plan, changed = c, true
				break
			}
		}
	}
	return plan
}

// hangs counts histories in which a call did not return; every further one would cost a hang timeout, so
// after the first the listener modes are dropped for the rest of the run (the failure is already reported).
var hangs int

func afterHang(modes []string) []string {
	if hangs == 0 {
		return modes
	}
	var out []string
	for _, m := range modes {
		if !strings.HasPrefix(m, "listener-") {
			out = append(out, m)
		}
	}
	return out
}

// safeTree regenerates the case's tree; the generator builds blocks with real chain.Manager
// nodes, so a panic there ("mined block rejected", "replay failed") means a linear node refused a
// valid block or chain: that is reported as a failure of the node, not as a harness crash.
func safeTree(cs mgrsim.Case) (t *chaingen.Tree, msg string) {
	defer func() {
		if r := recover(); r != nil {
			t, msg = nil, fmt.Sprint(r)
		}
	}()
	return cs.Tree(), ""
}

func run(c *hx.Ctx) {
	res := c.Res
	res.Shard = 40
	res.Rule = "fork trees of real mined blocks x submission plans with PruneBlocks calls at heights 0..beyond the tip, repeated prunes, re-submission of pruned blocks, later forks above/at/below the pruned height; each plan also runs without the prunes on an unpruned twin; non-trivial := at least one body was pruned and a later call changed the tip or was refused below the boundary; distinct by (tree seed, plan)"
	var cases []string
	doCase := func(cs mgrsim.Case) {
		t := cs.Tree()
		cs.Modes = afterHang(cs.Modes)
		d := driveOf(cs)
		obs, f, st := runCase(t, d, cs.Plan)
		if f != nil && f.kind == "c19-call-hangs" {
			hangs++
		}
		for _, m := range cs.Modes {
			if strings.HasPrefix(m, "blind:") {
				res.Count("unobserved-re-run/first-read=" + strings.TrimPrefix(m, "blind:"))
			} else {
				res.Count("mode:" + m)
			}
		}
		js, _ := json.Marshal(cs)
		res.Eval(string(js), st["bodies-pruned"] > 0 && (st["calls-equal-to-twin"] > 0 || st["reorgs-refused-below-boundary"] > 0))
		for k, v := range st {
			res.CountN(k, v)
		}
		res.CountN("calls", len(cs.Plan))
		maxKids, leaves := 0, 0
		for _, n := range t.Nodes {
			if len(n.Children) > maxKids {
				maxKids = len(n.Children)
			}
			if len(n.Children) == 0 {
				leaves++
			}
		}
		if maxKids >= 3 {
			res.Count("tree:hub(node-with>=3-children)")
		}
		if leaves >= 4 {
			res.Count("tree:>=4-leaves")
		}
		if f != nil {
			small := shrink(t, d, cs.Plan, f.kind)
			_, f2, _ := runCase(t, d, small)
			if f.kind == "c19-call-hangs" {
				f2 = f
			}
			if f2 == nil {
				f2, small = f, cs.Plan
			}
			scs := cs
			scs.Plan = small
			res.Fail(f2.kind, f2.detail, map[string]any{"case": scs})
		}
		if len(obs) == len(cs.Plan) && !mgrsim.HasTwin(t, cs.Plan) && !d.has("listener-prune") {
			// a reopen is a no-op of the model; prunes from inside the listener are not operations of the plan
			// (those histories are judged by the monitors and the twin only)
			mp, mo := mgrsim.ModelHistory(cs.Plan, obs)
			cases = append(cases, mgrsim.CoqCase(t, mp, mo))
		}
		if len(res.Samples) < 2 {
			var ops []string
			for _, op := range cs.Plan {
				ops = append(ops, op.String())
			}
			res.Sample(map[string]any{"regime": chaingen.RegimeNames[cs.Regime], "blocks": len(t.Nodes), "plan": ops})
		}
	}
	if c.Replay != "" {
		var rp struct {
			Replay struct {
				Case mgrsim.Case `json:"case"`
			} `json:"replay"`
		}
		b, _ := os.ReadFile(c.Replay)
		json.Unmarshal(b, &rp)
		doCase(rp.Replay.Case)
		res.WriteCases("Run.Run_C01", cases)
		return
	}
	// corpus: directed histories, run first
	for _, cs := range []mgrsim.Case{
		// prune everything incl. the tip, re-store a lower best-chain block through the pre-validated path,
		// then fork at that block: MinReorgIndex must not promise a reorg the node cannot do
		{Seed: 11, Regime: 2, Opts: chaingen.GenOpts{Shape: []int{0, 1, 2, 2, 4}}, Plan: []mgrsim.Op{
			{Kind: "add", Nodes: []int{1, 2, 3}}, {Kind: "prune", Height: 4}, {Kind: "addv", Nodes: []int{2}}, {Kind: "add", Nodes: []int{4, 5}}}},
		// prune beyond the tip
		{Seed: 12, Regime: 0, Opts: chaingen.GenOpts{Shape: []int{0, 1, 2}}, Plan: []mgrsim.Op{
			{Kind: "add", Nodes: []int{1, 2, 3}}, {Kind: "prune", Height: 9}, {Kind: "prune", Height: 9}}},
		// re-submission of pruned best-chain blocks, then a deep fork
		{Seed: 13, Regime: 1, Opts: chaingen.GenOpts{Shape: []int{0, 1, 2, 3, 1, 5, 6, 7, 8}}, Plan: []mgrsim.Op{
			{Kind: "add", Nodes: []int{1, 2, 3, 4}}, {Kind: "prune", Height: 3}, {Kind: "add", Nodes: []int{2}}, {Kind: "add", Nodes: []int{1, 2, 3}}, {Kind: "add", Nodes: []int{5, 6, 7, 8, 9}}}},
	} {
		doCase(cs)
	}
	// one prune call with a long backlog: a line of 230 blocks (trivial-target regimes), nothing pruned before,
	// prune far above 144 blocks at once, a second call (must change nothing), then pruned-block re-submission
	for regime := 0; regime < 3; regime++ {
		line := make([]int, 230)
		all := make([]int, 230)
		for i := range line {
			line[i], all[i] = i, i+1
		}
		heights := []uint64{225, 231, ^uint64(0)}
		doCase(mgrsim.Case{Seed: uint64(21 + regime), Regime: regime, Opts: chaingen.GenOpts{Shape: line}, Plan: []mgrsim.Op{
			{Kind: "add", Nodes: all}, {Kind: "prune", Height: heights[regime]}, {Kind: "prune", Height: heights[regime]}, {Kind: "add", Nodes: []int{3, 4}}, {Kind: "prune", Height: 10}}})
		res.Count("long-line(230-blocks)-pruned-in-one-call")
	}
	n := c.Scale(200, 5000)
	for i := 0; i < n; i++ {
		r := c.R.Fork()
		cs := mgrsim.Case{Seed: r.U64(), Regime: i % 6, Opts: chaingen.GenOpts{Blocks: 6 + r.Intn(16), Branchiness: 2 + r.Intn(5), TxPerBlock: r.Intn(3), Corruptions: r.Intn(3), Jitter: r.Intn(3), OnInvalid: r.Intn(2), Twins: r.Intn(8) / 7}}
		if cs.Regime >= 3 && r.Bool() {
			cs.Opts.Jitter = 4000 // fast and slow blocks: branches diverge in work (near-ties for the 20% rule)
		}
		t, gerr := safeTree(cs)
		if t == nil {
			res.Eval(fmt.Sprint("generator ", cs.Seed), true)
			res.Fail("c19-linear-node-rejects-valid-block", "while building a fork tree a linear node (real chain.Manager fed only valid blocks in order) failed: "+gerr, map[string]any{"case": cs})
			continue
		}
		pr := rng.New(cs.Seed ^ 0x9747b28c)
		plan := mgrsim.GenPlan(pr, t, true)
		// make sure prunes happen after something was adopted: interleave extra prunes
		var p2 []mgrsim.Op
		for j, op := range plan {
			p2 = append(p2, op)
			if j > 1 && pr.Chance(1, 4) {
				p2 = append(p2, mgrsim.Op{Kind: "prune", Height: uint64(pr.Intn(len(t.Nodes)/2 + 3))})
				if pr.Chance(1, 3) {
					p2 = append(p2, p2[len(p2)-1]) // repeated prune
				}
			}
		}
		// generalisation pass, by case number so that every regime meets every dimension (i%6 is the regime)
		k := i / 6
		switch k % 5 {
		case 1:
			cs.Modes = append(cs.Modes, "listener-prune")
		case 2:
			cs.Modes = append(cs.Modes, "poll")
		case 3:
			cs.Modes = append(cs.Modes, "scribble", "listener-reads")
		}
		if k%3 == 0 {
			cs.Modes = append(cs.Modes, "probe")
		}
		if i%2 == 1 {
			cs.Modes = append(cs.Modes, "blind:"+mgrsim.ReadAPIs[(i/2)%len(mgrsim.ReadAPIs)])
		}
		insert := func(op mgrsim.Op) {
			at := 2 + pr.Intn(len(p2)-1)
			p2 = append(p2[:at:at], append([]mgrsim.Op{op}, p2[at:]...)...)
		}
		if k%3 == 1 {
			insert(mgrsim.Op{Kind: "reopen"})
			insert(mgrsim.Op{Kind: "reopen"})
		}
		if k%4 == 2 {
			insert(mgrsim.Op{Kind: "prune", Height: ^uint64(0)})
			insert(mgrsim.Op{Kind: "prune", Height: 0})
			insert(mgrsim.Op{Kind: "prune", Height: 1})
		}
		cs.Plan = p2
		doCase(cs)
	}
	res.WriteCases("Run.Run_C01", cases)
}
