// Command c19 checks C19 (pruning removes only old block bodies and never
// breaks the node): histories with prune calls run on a real manager and, without
// the prunes, on an unpruned twin; after every call the two must agree unless
// the call needed a pruned body, which must fail with an error and change nothing.
package main

import (
	"bytes"
	"encoding/json"
	"fmt"
	"os"

	"go.sia.tech/core/types"
	"verif/harness/internal/chaingen"
	"verif/harness/internal/hx"
	"verif/harness/internal/mgrsim"
	"verif/harness/internal/rng"
)

func main() { hx.Main("C19", run) }

type failure struct{ kind, detail string }

func runCase(t *chaingen.Tree, plan []mgrsim.Op) ([]mgrsim.Obs, *failure, map[string]int) {
	s := mgrsim.NewSim(t, nil)
	twin := mgrsim.NewSim(t, nil)
	stats := map[string]int{}
	var prev, tprev mgrsim.Obs
	s.Observe(&prev)
	twin.Observe(&tprev)
	var obs []mgrsim.Obs
	var fail *failure
	report := func(kind, format string, a ...any) {
		if fail == nil {
			fail = &failure{kind, fmt.Sprintf(format, a...)}
		}
	}
	diverged := false
	for _, op := range plan {
		o := s.Do(op)
		obs = append(obs, o)
		if o.Panic {
			report("c19-panic", "%v panicked: %s", op, o.ErrText)
			break
		}
		switch op.Kind {
		case "prune":
			stats["prunes"]++
			// best chain, tip state, states and headers unchanged; exactly the bodies below the height are gone
			if fmt.Sprint(o.Best) != fmt.Sprint(prev.Best) || !bytes.Equal(o.TipState, prev.TipState) {
				report("c19-prune-changed-chain", "%v changed the best chain or tip state", op)
			}
			h := map[int]uint64{}
			onBest := map[int]bool{}
			for i, id := range o.Best {
				h[id] = uint64(len(o.Best) - 1 - i)
				onBest[id] = true
			}
			// expected: walking down from height-1, bodies are removed until the first already missing one
			expectGone := map[int]bool{}
			for hh := int64(op.Height) - 1; hh >= 0; hh-- {
				if hh >= int64(len(prev.Best)) {
					continue // above the tip there is nothing to prune; every best-chain body below the height goes
				}
				id := prev.Best[len(prev.Best)-1-int(hh)]
				if !prev.Known[id].Body {
					break
				}
				expectGone[id] = true
			}
			for i, k := range o.Known {
				p := prev.Known[i]
				if k.State != p.State {
					report("c19-prune-changed-state", "%v changed the stored state of block %d (%d -> %d)", op, k.ID, p.State, k.State)
				}
				if expectGone[k.ID] {
					if k.Body || k.Supp {
						report("c19-prune-kept-body", "%v kept the body of best-chain block %d at height %d", op, k.ID, h[k.ID])
					}
					stats["bodies-pruned"]++
				} else if k.Body != p.Body || k.Supp != p.Supp {
					report("c19-prune-removed-wrong-body", "%v changed body/supplement of block %d (on best chain: %v, height %d) which is not below the prune height on the best chain", op, k.ID, onBest[k.ID], h[k.ID])
				}
			}
			// header serving and history still work
			if _, err := s.CM.History(); err != nil {
				report("c19-history-broken", "History fails after %v: %v", op, err)
			}
			gidx, _ := s.CM.BestIndex(0)
			hdrs, _, err := s.CM.Headers(gidx, 1000)
			if err != nil || len(hdrs) != len(o.Best)-1 {
				report("c19-headers-broken", "Headers from genesis after %v: %d headers, err %v (chain length %d)", op, len(hdrs), err, len(o.Best))
			}
			mr := o.MinReorg
			if mr >= 0 {
				// the fork point itself needs no body; every block strictly above it must have one,
				// and the index is minimal: the block below it has no body (or it is genesis)
				for i, id := range o.Best {
					if h[id] > h[mr] && !o.Known[id].Body {
						report("c19-min-reorg-index-wrong", "after %v MinReorgIndex is block %d (height %d) but block %d above it has no body", op, mr, h[mr], id)
					}
					if id == mr && mr != o.Best[0] && !o.Known[id].Body {
						report("c19-min-reorg-index-wrong", "after %v MinReorgIndex is block %d below the tip, which has no body", op, mr)
					}
					if id == mr && i+1 < len(o.Best) && o.Known[o.Best[i+1]].Body {
						report("c19-min-reorg-index-not-minimal", "after %v MinReorgIndex is block %d but the block below it still has a body", op, mr)
					}
				}
			} else {
				report("c19-min-reorg-index-wrong", "after %v MinReorgIndex is not on the generated tree", op)
			}
		default:
			to := twin.Do(op)
			if diverged {
				break
			}
			same := to.Err == o.Err && fmt.Sprint(to.Best) == fmt.Sprint(o.Best) && bytes.Equal(to.TipState, o.TipState) && to.Notified == o.Notified
			if same {
				stats["calls-equal-to-twin"]++
				break
			}
			// legitimate only if the twin's reorg reverted a block whose body the pruned node no longer has
			needsPruned := false
			newBest := map[int]bool{}
			for _, id := range to.Best {
				newBest[id] = true
			}
			for _, id := range prev.Best {
				if !newBest[id] && !prev.Known[id].Body {
					needsPruned = true
				}
			}
			if needsPruned && o.Err && fmt.Sprint(o.Best) == fmt.Sprint(prev.Best) && bytes.Equal(o.TipState, prev.TipState) {
				// legitimate only for a fork point below the reported minimum reorg index
				fork := -1
				for _, id := range prev.Best {
					if newBest[id] {
						fork = id
						break
					}
				}
				if fork >= 0 && prev.MinReorg >= 0 && s.T.Nodes[fork].Height >= s.T.Nodes[prev.MinReorg].Height {
					report("c19-reorg-at-or-above-min-reorg-index-refused", "%v: fork point is block %d (height %d), at or above the reported MinReorgIndex %d (height %d), yet the pruned node refused (%s) what the unpruned twin adopted", op, fork, s.T.Nodes[fork].Height, prev.MinReorg, s.T.Nodes[prev.MinReorg].Height, o.ErrText)
				}
				stats["reorgs-refused-below-boundary"]++
				diverged = true
				break
			}
			if needsPruned {
				report("c19-below-boundary-not-clean", "%v needs pruned bodies: pruned node err=%v (%s) best %v -> %v", op, o.Err, o.ErrText, prev.Best, o.Best)
			} else {
				report("c19-twin-differs", "%v: pruned node err=%v best=%v, unpruned twin err=%v best=%v (no pruned body is needed)", op, o.Err, o.Best, to.Err, to.Best)
			}
		}
		// requests that need pruned bodies fail with an error: Block() of a pruned id reports absence
		for _, k := range o.Known {
			if !k.Body {
				if _, ok := s.CM.Block(s.T.Nodes[k.ID].ID); ok {
					report("c19-block-served-without-body", "Block(%d) served although the body is gone", k.ID)
				}
			}
		}
		prev = o
	}
	_ = types.BlockID{}
	return obs, fail, stats
}

func shrink(t *chaingen.Tree, plan []mgrsim.Op, kind string) []mgrsim.Op {
	fails := func(p []mgrsim.Op) bool {
		_, f, _ := runCase(t, p)
		return f != nil && f.kind == kind
	}
	for changed := true; changed; {
		changed = false
		for i := range plan {
			c := append(append([]mgrsim.Op(nil), plan[:i]...), plan[i+1:]...)
			if fails(c) {
				plan, changed = c, true
				break
			}
		}
	}
	return plan
}

// safeTree regenerates the case's tree; the generator builds blocks with real chain.Manager
// nodes, so a panic there ("mined block rejected", "replay failed") means a linear node refused a
// valid block or chain: that is reported as a failure of the node, not as a harness crash.
func safeTree(cs mgrsim.Case) (t *chaingen.Tree, msg string) {
	defer func() {
		if r := recover(); r != nil {
			t, msg = nil, fmt.Sprint(r)
		}
	}()
	return cs.Tree(), ""
}

func run(c *hx.Ctx) {
	res := c.Res
	res.Shard = 40
	res.Rule = "fork trees of real mined blocks x submission plans with PruneBlocks calls at heights 0..beyond the tip, repeated prunes, re-submission of pruned blocks, later forks above/at/below the pruned height; each plan also runs without the prunes on an unpruned twin; non-trivial := at least one body was pruned and a later call changed the tip or was refused below the boundary; distinct by (tree seed, plan)"
	var cases []string
	doCase := func(cs mgrsim.Case) {
		t := cs.Tree()
		obs, f, st := runCase(t, cs.Plan)
		js, _ := json.Marshal(cs)
		res.Eval(string(js), st["bodies-pruned"] > 0 && (st["calls-equal-to-twin"] > 0 || st["reorgs-refused-below-boundary"] > 0))
		for k, v := range st {
			res.CountN(k, v)
		}
		res.CountN("calls", len(cs.Plan))
		if f != nil {
			small := shrink(t, cs.Plan, f.kind)
			_, f2, _ := runCase(t, small)
			if f2 == nil {
				f2, small = f, cs.Plan
			}
			scs := cs
			scs.Plan = small
			res.Fail(f2.kind, f2.detail, map[string]any{"case": scs})
		}
		if len(obs) == len(cs.Plan) && !mgrsim.HasTwin(t, cs.Plan) {
			cases = append(cases, mgrsim.CoqCase(t, cs.Plan, obs))
		}
		if len(res.Samples) < 2 {
			var ops []string
			for _, op := range cs.Plan {
				ops = append(ops, op.String())
			}
			res.Sample(map[string]any{"regime": chaingen.RegimeNames[cs.Regime], "blocks": len(t.Nodes), "plan": ops})
		}
	}
	if c.Replay != "" {
		var rp struct {
			Replay struct {
				Case mgrsim.Case `json:"case"`
			} `json:"replay"`
		}
		b, _ := os.ReadFile(c.Replay)
		json.Unmarshal(b, &rp)
		doCase(rp.Replay.Case)
		res.WriteCases("Run.Run_C01", cases)
		return
	}
	// corpus: directed histories, run first
	for _, cs := range []mgrsim.Case{
		// prune everything incl. the tip, re-store a lower best-chain block through the pre-validated path,
		// then fork at that block: MinReorgIndex must not promise a reorg the node cannot do
		{Seed: 11, Regime: 2, Opts: chaingen.GenOpts{Shape: []int{0, 1, 2, 2, 4}}, Plan: []mgrsim.Op{
			{Kind: "add", Nodes: []int{1, 2, 3}}, {Kind: "prune", Height: 4}, {Kind: "addv", Nodes: []int{2}}, {Kind: "add", Nodes: []int{4, 5}}}},
		// prune beyond the tip
		{Seed: 12, Regime: 0, Opts: chaingen.GenOpts{Shape: []int{0, 1, 2}}, Plan: []mgrsim.Op{
			{Kind: "add", Nodes: []int{1, 2, 3}}, {Kind: "prune", Height: 9}, {Kind: "prune", Height: 9}}},
		// re-submission of pruned best-chain blocks, then a deep fork
		{Seed: 13, Regime: 1, Opts: chaingen.GenOpts{Shape: []int{0, 1, 2, 3, 1, 5, 6, 7, 8}}, Plan: []mgrsim.Op{
			{Kind: "add", Nodes: []int{1, 2, 3, 4}}, {Kind: "prune", Height: 3}, {Kind: "add", Nodes: []int{2}}, {Kind: "add", Nodes: []int{1, 2, 3}}, {Kind: "add", Nodes: []int{5, 6, 7, 8, 9}}}},
	} {
		doCase(cs)
	}
	n := c.Scale(200, 5000)
	for i := 0; i < n; i++ {
		r := c.R.Fork()
		cs := mgrsim.Case{Seed: r.U64(), Regime: i % 6, Opts: chaingen.GenOpts{Blocks: 6 + r.Intn(16), Branchiness: 2 + r.Intn(5), TxPerBlock: r.Intn(3), Corruptions: r.Intn(3), Jitter: r.Intn(3), OnInvalid: r.Intn(2), Twins: r.Intn(8) / 7}}
		if cs.Regime >= 3 && r.Bool() {
			cs.Opts.Jitter = 4000 // fast and slow blocks: branches diverge in work (near-ties for the 20% rule)
		}
		t, gerr := safeTree(cs)
		if t == nil {
			res.Eval(fmt.Sprint("generator ", cs.Seed), true)
			res.Fail("c19-linear-node-rejects-valid-block", "while building a fork tree a linear node (real chain.Manager fed only valid blocks in order) failed: "+gerr, map[string]any{"case": cs})
			continue
		}
		pr := rng.New(cs.Seed ^ 0x9747b28c)
		plan := mgrsim.GenPlan(pr, t, true)
		// make sure prunes happen after something was adopted: interleave extra prunes
		var p2 []mgrsim.Op
		for j, op := range plan {
			p2 = append(p2, op)
			if j > 1 && pr.Chance(1, 4) {
				p2 = append(p2, mgrsim.Op{Kind: "prune", Height: uint64(pr.Intn(len(t.Nodes)/2 + 3))})
				if pr.Chance(1, 3) {
					p2 = append(p2, p2[len(p2)-1]) // repeated prune
				}
			}
		}
		cs.Plan = p2
		doCase(cs)
	}
	res.WriteCases("Run.Run_C01", cases)
}
