package main

// The catalogue of Byzantine behaviours. Each attack configures the lying
// manager (sync-answer attacks) or produces announcements (relay attacks); all
// are deterministic in the scenario.

import (
	"time"

	"go.sia.tech/core/consensus"
	"go.sia.tech/core/gateway"
	"go.sia.tech/core/types"
	"verif/harness/internal/chaingen"
	"verif/harness/internal/mgrsim"
	"verif/harness/internal/netsim"
)

// sync-answer attacks: name -> fields
var hdrFields = []string{"parent", "nonce", "timestamp", "commitment"}
var hdrShapes = []string{"drop", "swap", "dup", "extra", "empty-rem", "empty-zero", "rem-huge"}
var blkFields = []string{"parent", "nonce", "timestamp", "commitment", "payout-value", "payout-addr", "extra-payout", "no-payouts", "txn-tamper", "v2txn-drop", "v2-height", "drop-v2"}
var blkShapes = []string{"drop-last", "truncate", "extend", "extend-dup", "drop", "swap", "sibling", "error"}

// checkpoint answers. The id of a v2 block covers parent id, nonce, timestamp and the commitment field only; the
// id-preserving family alters what it does not cover: the miner payouts (none, two, value, address), the v1 and v2
// transactions (commitment field kept) and the v2 height.
var cpFields = []string{"no-v2", "sibling", "no-payouts", "extra-payout", "payout-value", "payout-addr", "txn-tamper", "v2txn-drop", "v2-height", "state-other", "state-tamper", "missing"}
var relayHeaderKinds = []string{"unknown-parent", "low-work", "low-work-known-parent", "side", "attach"}
var relayOutlineKinds = []string{"unknown-parent", "low-work", "side", "side-known", "attach-valid", "attach-bad-height", "attach-bad-time", "missing-right", "missing-wrong", "missing-fail"}
var relayTxnKinds = []string{"unknown-basis", "empty", "invalid"}

type attack struct {
	l *liar
	// relay, if set, is performed by B once V has marked it synced
	relay func(b, v *netsim.Node)
	// what the property demands of the peer store
	mustBan bool // a listed, provable misbehaviour reaches its handler: a Ban call must follow
	noBan   bool // the peer sent only data of valid chains (or nothing judgeable): no Ban call may follow
	// whether the scenario is meaningful (the attack could be set up)
	ok   bool
	note string
	// outline announced (for the projection)
	outlineBlock *types.Block
	header       *types.BlockHeader
	txnBasis     *types.ChainIndex
	txnEmpty     bool
	completion   string
	relayAt      []int // length of the liar's log when the announcement was sent (per offence)
	tipMoved     bool  // the victim's tip was no longer v0 when the announcement was sent
}

func chainTo(t *chaingen.Tree, n *chaingen.Node) []*chaingen.Node {
	return append([]*chaingen.Node{t.Nodes[0]}, t.Path(n)...)
}

func corruptHeader(t *chaingen.Tree, h *types.BlockHeader, parentState consensus.State, field string) {
	switch field {
	case "parent":
		h.ParentID[5] ^= 0x40
	case "nonce":
		h.Nonce += parentState.NonceFactor()
	case "timestamp":
		h.Timestamp = t.Env.Genesis.Timestamp.Add(-time.Hour)
	case "commitment":
		h.Commitment[3] ^= 0x10
	}
}

func corruptBlock(t *chaingen.Tree, b *types.Block, parentState consensus.State, field string) bool {
	switch field {
	case "parent":
		b.ParentID[5] ^= 0x40
	case "nonce":
		b.Nonce += parentState.NonceFactor()
	case "timestamp":
		b.Timestamp = t.Env.Genesis.Timestamp.Add(-time.Hour)
	case "commitment":
		if b.V2 == nil {
			return false
		}
		b.V2.Commitment[3] ^= 0x10
	case "payout-value":
		b.MinerPayouts = append([]types.SiacoinOutput(nil), b.MinerPayouts...)
		b.MinerPayouts[0].Value = b.MinerPayouts[0].Value.Add(types.Siacoins(7))
	case "payout-addr":
		b.MinerPayouts = append([]types.SiacoinOutput(nil), b.MinerPayouts...)
		b.MinerPayouts[0].Address[2] ^= 0x08
	case "extra-payout":
		b.MinerPayouts = append(append([]types.SiacoinOutput(nil), b.MinerPayouts...), types.SiacoinOutput{Address: t.Env.Addr, Value: types.Siacoins(1)})
	case "no-payouts":
		b.MinerPayouts = nil
	case "v2txn-drop":
		if b.V2 == nil {
			return false
		}
		v := *b.V2
		if len(v.Transactions) > 0 {
			v.Transactions = append([]types.V2Transaction(nil), v.Transactions[1:]...)
		} else {
			v.Transactions = []types.V2Transaction{{ArbitraryData: []byte("added")}}
		}
		b.V2 = &v
	case "txn-tamper":
		b.Transactions = append(append([]types.Transaction(nil), b.Transactions...), types.Transaction{ArbitraryData: [][]byte{[]byte("oops")}})
	case "v2-height":
		if b.V2 == nil {
			return false
		}
		v := *b.V2
		v.Height++
		b.V2 = &v
	case "drop-v2":
		if b.V2 == nil {
			return false
		}
		b.V2 = nil
	}
	return true
}

// stateOf: the state against which the block/header at position p of the chain is validated.
func stateBefore(chain []*chaingen.Node, id types.BlockID) (consensus.State, bool) {
	for _, n := range chain {
		if n.ID == id {
			if n.Parent == nil {
				return consensus.State{}, false
			}
			return n.Parent.State, true
		}
	}
	return consensus.State{}, false
}

// buildAttack configures the Byzantine peer for scenario s. v0 is the victim's
// tip, h the honest peer's tip (sufficiently heavier than v0).
func buildAttack(s Scen, t *chaingen.Tree, ts *terms, v0, h *chaingen.Node) *attack {
	a := &attack{l: &liar{chain: chainTo(t, h)}, ok: true}
	l := a.l
	pick := func(n int) int {
		if n <= 0 {
			return 0
		}
		k := s.K % n
		if k < 0 {
			k += n
		}
		return k
	}
	switch s.Attack {
	case "honest", "cut-conn":
		a.noBan = true
	case "honest-fork":
		// a valid chain that is not the honest peer's: B serves its own valid fork
		if s.Aux > 0 && s.Aux < len(t.Nodes) && t.Nodes[s.Aux].ChainValid() {
			l.chain = chainTo(t, t.Nodes[s.Aux])
		}
		a.noBan = true
	case "stall":
		// accepts every request and never answers (the victim's timeouts decide)
		l.mutHeaders = func(index types.ChainIndex, hs []types.BlockHeader, rem uint64) ([]types.BlockHeader, uint64, error) {
			time.Sleep(40 * time.Second)
			return nil, 0, errStall
		}
	case "hdr-field":
		l.mutHeaders = func(index types.ChainIndex, hs []types.BlockHeader, rem uint64) ([]types.BlockHeader, uint64, error) {
			if len(hs) == 0 {
				return hs, rem, nil
			}
			k := pick(len(hs))
			ps, ok := stateBefore(l.chain, hs[k].ID())
			if !ok {
				return hs, rem, nil
			}
			corruptHeader(t, &hs[k], ps, s.Field)
			return hs, rem, nil
		}
		a.noBan = false // an invalid header only disconnects the peer (observation, DESIGN C11)
	case "hdr-shape":
		l.mutHeaders = func(index types.ChainIndex, hs []types.BlockHeader, rem uint64) ([]types.BlockHeader, uint64, error) {
			switch s.Field {
			case "empty-rem":
				return nil, 7, nil // no headers, yet "7 remaining"
			case "empty-zero":
				return nil, 0, nil // no headers although the peer's chain goes on
			case "rem-huge":
				return hs, ^uint64(0) - 3, nil
			}
			if len(hs) < 2 {
				return hs, rem, nil
			}
			k := pick(len(hs) - 1)
			switch s.Field {
			case "drop":
				hs = append(hs[:k:k], hs[k+1:]...)
			case "swap":
				hs[k], hs[k+1] = hs[k+1], hs[k]
			case "dup":
				hs = append(hs[:k+1:k+1], hs[k:]...)
			case "extra":
				x := hs[len(hs)-1]
				x.ParentID[1] ^= 1
				hs = append(hs, x)
			}
			return hs, rem, nil
		}
	case "blk-field":
		l.mutBlocks = func(hist []types.BlockID, bs []types.Block, rem uint64) ([]types.Block, uint64, error) {
			if len(bs) == 0 {
				return bs, rem, nil
			}
			k := pick(len(bs))
			ps, ok := stateBefore(l.chain, bs[k].ID())
			if !ok {
				return bs, rem, nil
			}
			corruptBlock(t, &bs[k], ps, s.Field)
			return bs, rem, nil
		}
	case "blk-shape":
		if s.Field == "extend" {
			// the header answer stops short of the tip (honestly reporting what remains), so that valid next
			// blocks exist to pad the block answer with
			l.mutHeaders = func(index types.ChainIndex, hs []types.BlockHeader, rem uint64) ([]types.BlockHeader, uint64, error) {
				if cut := 1 + s.K%2; len(hs) > cut+1 {
					return hs[:len(hs)-cut], rem + uint64(cut), nil
				}
				return hs, rem, nil
			}
		}
		l.mutBlocks = func(hist []types.BlockID, bs []types.Block, rem uint64) ([]types.Block, uint64, error) {
			if s.Field == "error" {
				return nil, 0, errStall
			}
			if len(bs) == 0 {
				return bs, rem, nil
			}
			switch s.Field {
			case "extend":
				// more blocks than requested: the requested ones, exactly, followed by the valid next ones
				if p := l.pos(bs[len(bs)-1].ID()); p >= 0 {
					asked := len(bs)
					for _, n := range l.chain[p+1:] {
						if len(bs) >= asked+1+s.K%2 {
							break
						}
						bs = append(bs, chaingen.DeepCopyBlock(n.Block))
					}
				}
			case "extend-dup":
				// more blocks than requested: the requested ones followed by a repetition of the last
				bs = append(bs, chaingen.DeepCopyBlock(bs[len(bs)-1]))
			case "truncate":
				if len(bs) > 2 {
					bs = bs[:len(bs)-2]
				} else {
					bs = bs[:len(bs)-1]
				}
			case "drop-last":
				bs = bs[:len(bs)-1]
			case "drop":
				k := pick(len(bs))
				bs = append(bs[:k:k], bs[k+1:]...)
			case "swap":
				if len(bs) >= 2 {
					k := pick(len(bs) - 1)
					bs[k], bs[k+1] = bs[k+1], bs[k]
				}
			case "sibling":
				k := pick(len(bs))
				if n, ok := t.ByID[bs[k].ID()]; ok && n.Parent != nil {
					for _, c := range n.Parent.Children {
						if c != n {
							bs[k] = chaingen.DeepCopyBlock(c.Block)
							break
						}
					}
				}
			}
			return bs, rem, nil
		}
	case "invalid-branch":
		// serve, honestly, a chain through a block whose header is valid and whose body is not
		var cands []*chaingen.Node
		for _, n := range t.Nodes {
			if n.Parent != nil && !n.ChainValid() && chaingen.HdrChainOK(n) {
				leaf := true
				for _, c := range n.Children {
					if chaingen.HdrChainOK(c) {
						leaf = false
					}
				}
				if leaf {
					cands = append(cands, n)
				}
			}
		}
		if len(cands) == 0 {
			a.ok = false
			return a
		}
		l.chain = chainTo(t, cands[pick(len(cands))])
		a.mustBan = true // if the victim tries it (it does whenever the branch looks sufficiently heavier)
	case "cp-field":
		switch s.Field {
		case "no-v2", "txn-tamper", "payout-value", "v2-height", "no-payouts", "extra-payout", "payout-addr", "v2txn-drop":
			l.mutBlock = func(id types.BlockID, b types.Block, ok bool) (types.Block, bool) {
				if !ok {
					return b, ok
				}
				switch s.Field {
				case "no-v2":
					b.V2 = nil
				default:
					corruptBlock(t, &b, consensus.State{}, s.Field)
				}
				return b, ok
			}
		case "sibling":
			l.mutBlock = func(id types.BlockID, b types.Block, ok bool) (types.Block, bool) {
				if n, k := t.ByID[id]; k && n.Parent != nil {
					for _, c := range n.Parent.Children {
						if c != n {
							return chaingen.DeepCopyBlock(c.Block), true
						}
					}
				}
				return b, ok
			}
		case "missing":
			l.mutBlock = func(id types.BlockID, b types.Block, ok bool) (types.Block, bool) { return types.Block{}, false }
		case "state-other":
			l.mutState = func(id types.BlockID, cs consensus.State, ok bool) (consensus.State, bool) {
				if n, k := t.ByID[id]; k && n.Parent != nil && n.Parent.ChainValid() {
					return n.Parent.FullState, true
				}
				return cs, ok
			}
		case "state-tamper":
			l.mutState = func(id types.BlockID, cs consensus.State, ok bool) (consensus.State, bool) {
				cs.SiafundTaxRevenue = cs.SiafundTaxRevenue.Add(types.Siacoins(5))
				return cs, ok
			}
		}
	case "cp-forge":
		// the checkpoint block with a tampered miner payout value (not covered by its id nor by
		// the commitment) makes the victim derive a bogus state; on that state the attacker mines
		// its own fork, heavier than the victim's chain
		if v0.Parent == nil || v0.Block.V2 == nil || v0.Height < t.Env.Net.HardforkV2.RequireHeight || !v0.ChainValid() {
			a.ok = false
			return a
		}
		cb := chaingen.DeepCopyBlock(v0.Block)
		cb.MinerPayouts[0].Value = cb.MinerPayouts[0].Value.Add(types.Siacoins(1000000))
		cs, _ := consensus.ApplyBlock(v0.Parent.FullState, cb, consensus.V1BlockSupplement{}, time.Time{})
		chain := chainTo(t, v0)
		for i := 0; i < 2+s.K%2; i++ {
			var miner types.Address
			miner[0] = byte(i + 1)
			b := types.Block{ParentID: cs.Index.ID, Timestamp: cs.PrevTimestamps[0].Add(time.Second), MinerPayouts: []types.SiacoinOutput{{Value: cs.BlockReward(), Address: miner}}}
			b.V2 = &types.V2BlockData{Height: cs.Index.Height + 1, Commitment: cs.Commitment(miner, nil, nil)}
			chaingen.FindNonce(cs, &b)
			n := t.AddBlock(b, "forged-on-bogus-state")
			if n == nil {
				a.ok = false
				return a
			}
			chain = append(chain, n)
			cs, _ = consensus.ApplyBlock(cs, b, consensus.V1BlockSupplement{}, time.Time{})
		}
		l.chain = chain
		l.mutBlock = func(id types.BlockID, b types.Block, ok bool) (types.Block, bool) {
			if id == v0.ID {
				return chaingen.DeepCopyBlock(cb), true
			}
			return b, ok
		}
		// the states the liar reports for its forged blocks are never asked for by the victim
	case "relay-header", "relay-outline", "relay-txns":
		l.chain = chainTo(t, v0) // B looks like a peer on the victim's own chain
		buildRelay(s, t, ts, v0, h, a)
	}
	return a
}

// lowWork grinds a nonce whose id does NOT meet the target; false if the target is so easy
// (the difficulty floor of the test networks) that no such nonce turns up.
func lowWork(cs consensus.State, bh *types.BlockHeader) bool {
	f := cs.NonceFactor()
	bh.Nonce = (bh.Nonce / f) * f
	for i := 0; i < 200000; i++ {
		if bh.ID().CmpWork(cs.PoWTarget()) < 0 {
			return true
		}
		bh.Nonce += f
	}
	return false
}

func validChild(n *chaingen.Node) *chaingen.Node {
	for _, c := range n.Children {
		if c.ChainValid() {
			return c
		}
	}
	return nil
}

func buildRelay(s Scen, t *chaingen.Tree, ts *terms, v0, h *chaingen.Node, a *attack) {
	child := validChild(v0)
	// a valid block that does not attach to the victim's tip and that the victim does not know
	var side *chaingen.Node
	for _, n := range t.Path(h) {
		if n.Parent != v0 && n != v0 && n.Height > v0.Height {
			side = n
		}
	}
	cs := v0.FullState
	switch s.Attack {
	case "relay-header":
		var bh types.BlockHeader
		switch s.Field {
		case "unknown-parent":
			bh = types.BlockHeader{ParentID: types.BlockID{1, 2, 3}, Timestamp: v0.Block.Timestamp.Add(time.Second)}
		case "low-work":
			bh = types.BlockHeader{ParentID: v0.ID, Timestamp: cs.PrevTimestamps[0].Add(time.Second), Commitment: types.Hash256{9}}
			if !lowWork(cs, &bh) {
				a.ok = false
				return
			}
			a.mustBan = true
		case "low-work-known-parent":
			// insufficient work on a block the victim knows but which is not its tip
			if v0.Parent == nil {
				a.ok = false
				return
			}
			ps := v0.Parent.State
			bh = types.BlockHeader{ParentID: v0.Parent.ID, Timestamp: ps.PrevTimestamps[0].Add(time.Second), Commitment: types.Hash256{8}}
			if !lowWork(ps, &bh) {
				a.ok = false
				return
			}
			a.mustBan = true
		case "side":
			if side == nil {
				a.ok = false
				return
			}
			bh = side.Block.Header()
			a.noBan = true
		case "attach":
			if child == nil {
				a.ok = false
				return
			}
			bh = child.Block.Header()
			a.noBan = true
		}
		a.header = &bh
		a.relay = func(b, v *netsim.Node) { b.S.BroadcastV2Header(bh) }
	case "relay-outline":
		var blk types.Block
		var pool []types.Transaction
		var pool2 []types.V2Transaction
		mk := func() *types.Block {
			if child == nil || child.Block.V2 == nil {
				return nil
			}
			c := chaingen.DeepCopyBlock(child.Block)
			return &c
		}
		switch s.Field {
		case "unknown-parent":
			b := mk()
			if b == nil {
				a.ok = false
				return
			}
			b.ParentID = types.BlockID{4, 5, 6}
			blk = *b
		case "low-work":
			b := mk()
			if b == nil {
				a.ok = false
				return
			}
			bh := b.Header()
			if !lowWork(cs, &bh) {
				a.ok = false
				return
			}
			b.Nonce = bh.Nonce
			blk = *b
			a.mustBan = true
		case "side":
			if side == nil || side.Block.V2 == nil {
				a.ok = false
				return
			}
			blk = chaingen.DeepCopyBlock(side.Block)
			a.noBan = true
		case "side-known":
			// an honest peer on a valid fork that is not heavier than the victim's chain: the victim downloads
			// the fork (stored by AddBlocks with header-derived states only), then the peer announces its tip
			var sk *chaingen.Node
			for _, n := range t.Nodes {
				if n.ChainValid() && n.Block.V2 != nil && n.Parent != nil && n.Parent.Parent != nil && !mgrsim.Heavier(n, v0) && n != v0 && n.Height < t.Env.Net.HardforkV2.RequireHeight {
					on := false
					for x := v0; x != nil; x = x.Parent {
						if x == n || x == n.Parent {
							on = true
						}
					}
					if !on {
						sk = n
					}
				}
			}
			if sk == nil {
				a.ok = false
				return
			}
			a.l.chain = chainTo(t, sk)
			blk = chaingen.DeepCopyBlock(sk.Block)
			a.noBan = true
		case "attach-valid", "missing-right", "missing-wrong", "missing-fail":
			b := mk()
			if b == nil {
				a.ok = false
				return
			}
			blk = *b
			if s.Field != "attach-valid" {
				if len(blk.Transactions)+len(blk.V2Transactions()) == 0 {
					a.ok = false
					return
				}
				pool, pool2 = blk.Transactions, blk.V2Transactions()
			}
			switch s.Field {
			case "attach-valid", "missing-right":
				a.noBan = true
				a.completion = "Complete"
				if s.Field == "missing-right" {
					a.completion = "FetchedOk"
					a.l.chain = append(chainTo(t, v0), child) // B has the block, so its handler finds the transactions
				}
			case "missing-wrong":
				a.mustBan = true
				a.completion = "FetchedWrong"
			case "missing-fail":
				a.completion = "FetchFailed"
				a.l.mutTxns = func([]types.Hash256, []types.Transaction, []types.V2Transaction) ([]types.Transaction, []types.V2Transaction) {
					panic("byzantine peer drops the SendTransactions request")
				}
			}
		case "attach-bad-height", "attach-bad-time":
			b := mk()
			if b == nil {
				a.ok = false
				return
			}
			if s.Field == "attach-bad-height" {
				v := *b.V2
				v.Height += 3
				b.V2 = &v
			} else {
				b.Timestamp = t.Env.Genesis.Timestamp.Add(-time.Hour)
			}
			// re-grind so that the work check passes and the block itself is judged
			b.V2.Commitment = cs.Commitment(b.MinerPayouts[0].Address, b.Transactions, b.V2Transactions())
			chaingen.FindNonce(cs, b)
			blk = *b
			a.mustBan = true
			a.completion = "Complete"
		}
		o := gateway.OutlineBlock(blk, pool, pool2)
		// the block the victim reconstructs (payout recomputed, commitment from its own parent state)
		if p, ok := t.ByID[blk.ParentID]; ok && p.ChainValid() {
			oc := o
			oc.Transactions = append([]gateway.OutlineTransaction(nil), o.Transactions...)
			full, _ := oc.Complete(p.FullState, blk.Transactions, blk.V2Transactions())
			a.outlineBlock = &full
		} else {
			a.outlineBlock = &blk
		}
		if a.completion == "" {
			a.completion = "Complete"
		}
		a.relay = func(b, v *netsim.Node) { b.S.BroadcastV2BlockOutline(o) }
	case "relay-txns":
		idx := types.ChainIndex{Height: v0.Height, ID: v0.ID}
		var txns []types.V2Transaction
		switch s.Field {
		case "unknown-basis":
			idx = types.ChainIndex{Height: 3, ID: types.BlockID{7, 7}}
			txns = []types.V2Transaction{{ArbitraryData: []byte("x")}}
		case "empty":
			a.mustBan = true
			a.txnEmpty = true
		case "invalid":
			txns = []types.V2Transaction{{ArbitraryData: []byte("not funded"), MinerFee: types.Siacoins(1)}}
		}
		a.txnBasis = &idx
		a.relay = func(b, v *netsim.Node) {
			if len(txns) == 0 {
				// Broadcast refuses an empty set (syncer.go:563): speak the RPC directly
				for _, p := range b.S.Peers() {
					p.RelayV2TransactionSet(idx, nil, 2*time.Second)
				}
				return
			}
			b.S.BroadcastV2TransactionSet(idx, txns)
		}
	}
}
