package main

// The extended block universe of a scenario: the generated tree plus every
// object a Byzantine peer made up, each labelled independently of the node under
// test (go.sia.tech/core and a fresh linear node), and its rendering as the
// universes of the Coq model (Chain/Manager.v blk, Net/Sync.v xblk).

import (
	"bytes"
	"fmt"
	"sort"
	"strings"

	"go.sia.tech/core/consensus"
	"go.sia.tech/core/types"
	"verif/harness/internal/chaingen"
	"verif/harness/internal/mgrsim"
)

// A variant is a block that carries the id of a tree node but a different body
// (the id of a v2 block covers the commitment field only).
type variant struct {
	idx   int
	of    *chaingen.Node
	blk   types.Block
	hdrOK bool
}

type terms struct {
	t        *chaingen.Tree
	variants []*variant
	junk     [][]byte // encoded states outside the tree
	garbage  int      // ids handed out for objects that cannot be placed (unknown parent)

	variantStored bool // a same-id body variant was handed to AddBlocks (projection not possible)
}

const (
	variantBase = 500000
	garbageBase = 900000
)

func newTerms(t *chaingen.Tree) *terms { return &terms{t: t} }

func encBlock(b types.Block) []byte {
	var buf bytes.Buffer
	e := types.NewEncoder(&buf)
	types.V2Block(b).EncodeTo(e)
	e.Flush()
	return buf.Bytes()
}

// ofBlock returns the term of a block as received.
func (ts *terms) ofBlock(b types.Block) int {
	id := b.ID()
	if n, ok := ts.t.ByID[id]; ok {
		if bytes.Equal(encBlock(b), encBlock(n.Block)) {
			return n.Idx
		}
		for _, v := range ts.variants {
			if v.of == n && bytes.Equal(encBlock(v.blk), encBlock(b)) {
				return v.idx
			}
		}
		v := &variant{idx: variantBase + len(ts.variants), of: n, blk: b}
		if n.Parent != nil && chaingen.HdrChainOK(n.Parent) {
			v.hdrOK = consensus.ValidateOrphan(n.Parent.State, b) == nil
		}
		ts.variants = append(ts.variants, v)
		return v.idx
	}
	if n := ts.t.AddBlock(b, "byzantine"); n != nil {
		return n.Idx
	}
	ts.garbage++
	return garbageBase + ts.garbage
}

// ofHeader returns the term of a bare header: a header is the v2 block with
// that commitment field and an empty body (same id).
func (ts *terms) ofHeader(h types.BlockHeader) int {
	if n, ok := ts.t.ByID[h.ID()]; ok {
		return n.Idx
	}
	p, ok := ts.t.ByID[h.ParentID]
	if !ok {
		ts.garbage++
		return garbageBase + ts.garbage
	}
	b := types.Block{ParentID: h.ParentID, Nonce: h.Nonce, Timestamp: h.Timestamp,
		MinerPayouts: []types.SiacoinOutput{{Address: types.VoidAddress, Value: p.State.BlockReward()}},
		V2:           &types.V2BlockData{Height: p.Height + 1, Commitment: h.Commitment}}
	if b.ID() != h.ID() {
		panic("header term: id mismatch")
	}
	return ts.ofBlock(b)
}

// ofID returns the term of a known id, or a garbage id.
func (ts *terms) ofID(id types.BlockID) int {
	if n, ok := ts.t.ByID[id]; ok {
		return n.Idx
	}
	ts.garbage++
	return garbageBase + ts.garbage
}

// ofState names a state: the full state after a tree node, or junk.
func (ts *terms) ofState(cs consensus.State) string {
	enc := mgrsim.EncState(cs)
	if n, ok := ts.t.ByID[cs.Index.ID]; ok && n.ChainValid() && bytes.Equal(enc, mgrsim.EncState(n.FullState)) {
		return fmt.Sprintf("(StOf %d)", n.Idx)
	}
	for k, j := range ts.junk {
		if bytes.Equal(j, enc) {
			return fmt.Sprintf("(StJunk %d)", k)
		}
	}
	ts.junk = append(ts.junk, enc)
	return fmt.Sprintf("(StJunk %d)", len(ts.junk)-1)
}

func isV2(b types.Block) bool { return b.V2 != nil && len(b.MinerPayouts) == 1 }

// cstate: the state the block's commitment check succeeds with.
func (ts *terms) cstate(parent *chaingen.Node, b types.Block) string {
	if b.V2 == nil || len(b.MinerPayouts) == 0 || parent == nil {
		return "None"
	}
	if parent.ChainValid() && b.V2.Commitment == parent.FullState.Commitment(b.MinerPayouts[0].Address, b.Transactions, b.V2Transactions()) {
		return fmt.Sprintf("(Some (StOf %d))", parent.Idx)
	}
	return "None"
}

func (ts *terms) xOf(n *chaingen.Node, b types.Block, hid int) string {
	pow, hv := false, false
	if n.Parent != nil && chaingen.HdrChainOK(n.Parent) {
		pow = n.ID.CmpWork(n.Parent.State.PoWTarget()) >= 0
		hv = consensus.ValidateHeader(n.Parent.State, b.Header()) == nil
	}
	return fmt.Sprintf("XB %v %v %v %d %s", pow, hv, isV2(b), hid, ts.cstate(n.Parent, b))
}

// coqUniverses renders U (manager labels) and X (syncer labels).
func (ts *terms) coqUniverses() (string, string) {
	var us, xs []string
	for _, n := range ts.t.Nodes {
		p := 0
		if n.Parent != nil {
			p = n.Parent.Idx
		}
		tw, d := n.Work()
		us = append(us, fmt.Sprintf("(%d, Blk %d %d %v %v %v (%s)%%Z (%s)%%Z)", n.Idx, p, n.Height, n.HdrOK, n.Future, n.HdrOK && n.BodyOK, tw, d))
		if n.Parent == nil {
			xs = append(xs, fmt.Sprintf("(%d, XB true true false %d None)", n.Idx, n.Idx))
		} else {
			xs = append(xs, fmt.Sprintf("(%d, %s)", n.Idx, ts.xOf(n, n.Block, n.Idx)))
		}
	}
	for _, v := range ts.variants {
		n := v.of
		p := 0
		if n.Parent != nil {
			p = n.Parent.Idx
		}
		tw, d := n.Work()
		us = append(us, fmt.Sprintf("(%d, Blk %d %d %v %v false (%s)%%Z (%s)%%Z)", v.idx, p, n.Height, v.hdrOK, n.Future, tw, d))
		xs = append(xs, fmt.Sprintf("(%d, %s)", v.idx, ts.xOf(n, v.blk, n.Idx)))
	}
	return "[" + strings.Join(us, "; ") + "]", "[" + strings.Join(xs, "; ") + "]"
}

func nl(xs []int) string {
	s := make([]string, len(xs))
	for i, x := range xs {
		s[i] = fmt.Sprint(x)
	}
	return "[" + strings.Join(s, "; ") + "]"
}

func describe(ts *terms) []string {
	var out []string
	for _, n := range ts.t.Nodes {
		p := -1
		if n.Parent != nil {
			p = n.Parent.Idx
		}
		tw, d := n.Work()
		out = append(out, fmt.Sprintf("block %d parent %d height %d v2=%v hdr_ok=%v body_ok=%v corrupt=%q tw=%s diff=%s", n.Idx, p, n.Height, n.Block.V2 != nil, n.HdrOK, n.BodyOK, n.Corrupt, tw, d))
	}
	vs := append([]*variant(nil), ts.variants...)
	sort.Slice(vs, func(i, j int) bool { return vs[i].idx < vs[j].idx })
	for _, v := range vs {
		out = append(out, fmt.Sprintf("term %d: body variant of block %d (same id) hdr_ok=%v", v.idx, v.of.Idx, v.hdrOK))
	}
	return out
}
