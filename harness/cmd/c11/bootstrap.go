package main

// Instant-sync bootstrap: syncer.RetrieveCheckpoint asks a list of peers for a
// checkpoint (block + parent state). The list mixes Byzantine peers, which
// answer at once with a bogus checkpoint of every kind the checkpoint checks
// know (and of the id-preserving family), with one or two honest peers that
// answer a little later, in every order. With at least one honest reachable
// peer the call must return the true checkpoint, never a bogus one, and it must
// not take the process down.

import (
	"bytes"
	"context"
	"fmt"
	"time"

	"go.sia.tech/core/types"
	"go.sia.tech/coreutils/chain"
	"go.sia.tech/coreutils/syncer"
	"verif/harness/internal/chaingen"
	"verif/harness/internal/mgrsim"
	"verif/harness/internal/netsim"
)

// slowBlocks delays Block look-ups (what the SendCheckpoint handler does first).
type slowBlocks struct {
	*chain.Manager
	delay time.Duration
}

func (s *slowBlocks) Block(id types.BlockID) (types.Block, bool) {
	time.Sleep(s.delay)
	return s.Manager.Block(id)
}

func perm(n, k int) []int {
	p := make([]int, n)
	for i := range p {
		p[i] = i
	}
	for i := n - 1; i > 0; i-- {
		j := k % (i + 1)
		k /= i + 1
		p[i], p[j] = p[j], p[i]
	}
	return p
}

func runBootstrap(s Scen) (res result) {
	res.obs = map[string]any{}
	t := s.tree()
	ts := newTerms(t)
	if s.HTip >= len(t.Nodes) || !t.Nodes[s.HTip].ChainValid() {
		res.skipped = "tip unsuitable"
		return
	}
	h := t.Nodes[s.HTip]
	req := t.Env.Net.HardforkV2.RequireHeight
	var cpn *chaingen.Node
	for _, n := range t.Path(h) {
		if n.Block.V2 != nil && n.Height >= req && n.Height >= 2 && (cpn == nil || s.K%3 != 0) {
			cpn = n
			if s.K%3 == 0 {
				break
			}
		}
	}
	if cpn == nil {
		res.skipped = "no v2 block at or above the require height on the chain"
		return
	}
	nByz, nHon := 1+s.K%2, 1+(s.K/2)%2
	var peers []string
	var closers []func()
	defer func() {
		for _, c := range closers {
			c()
		}
	}()
	kinds := []string{}
	for i := 0; i < nByz; i++ {
		field := s.Field
		if i > 0 {
			field = cpFields[(s.K/4+i)%len(cpFields)]
		}
		kinds = append(kinds, field)
		bs := s
		bs.Attack, bs.Field = "cp-field", field
		atk := buildAttack(bs, t, ts, t.Nodes[0], h)
		st, cm := t.Env.NewManager()
		atk.l.Manager = cm
		nb, err := netsim.Start(fmt.Sprintf("byz%d", i), netsim.IPFor(s.Slot, 1+i), t.Env, st, cm, netsim.Options{
			Wrap: func(*chain.Manager) syncer.ChainManager { return atk.l },
			Opts: []syncer.Option{syncer.WithSyncInterval(time.Hour)}, UID: uidFor(s.Seed, 1+i)})
		if err != nil {
			res.skipped = err.Error()
			return
		}
		closers = append(closers, nb.Close)
		peers = append(peers, nb.Addr())
	}
	for i := 0; i < nHon; i++ {
		st, cm := netsim.NewChain(t.Env, t, h)
		slow := &slowBlocks{Manager: cm, delay: time.Duration(350+150*i) * time.Millisecond}
		nh, err := netsim.Start(fmt.Sprintf("honest%d", i), netsim.IPFor(s.Slot, 4+i), t.Env, st, cm, netsim.Options{
			Wrap: func(*chain.Manager) syncer.ChainManager { return slow },
			Opts: []syncer.Option{syncer.WithSyncInterval(time.Hour)}, UID: uidFor(s.Seed, 4+i)})
		if err != nil {
			res.skipped = err.Error()
			return
		}
		closers = append(closers, nh.Close)
		peers = append(peers, nh.Addr())
	}
	// the order of the list
	p := perm(len(peers), s.K/4)
	ordered := make([]string, len(peers))
	for i, j := range p {
		ordered[i] = peers[j]
	}
	res.obs["byzantine-kinds"], res.obs["honest-peers"], res.obs["order"] = kinds, nHon, p
	ctx, cancel := context.WithTimeout(context.Background(), 20*time.Second)
	defer cancel()
	idx := types.ChainIndex{Height: cpn.Height, ID: cpn.ID}
	start := time.Now()
	cs, b, err := syncer.RetrieveCheckpoint(ctx, ordered, idx, t.Env.Net, t.Env.Genesis.ID())
	res.obs["elapsed-ms"] = time.Since(start).Milliseconds()
	what := fmt.Sprintf("RetrieveCheckpoint(%d peers: %d Byzantine answering at once with %v, %d honest answering after 350+ ms, order %v) for block %d", len(peers), nByz, kinds, nHon, p, cpn.Idx)
	if err != nil {
		res.obs["error"] = err.Error()
		res.fail = &failure{"c11-bootstrap-failed-despite-honest-peer", fmt.Sprintf("%s returned %q although an honest peer holding the checkpoint was reachable", what, err.Error())}
		return
	}
	if !bytes.Equal(encBlock(b), encBlock(cpn.Block)) || !bytes.Equal(mgrsim.EncState(cs), mgrsim.EncState(cpn.Parent.FullState)) {
		res.fail = &failure{"c11-bootstrap-bogus-checkpoint", fmt.Sprintf("%s returned a checkpoint that is not the block with its true parent state (block equal: %v, state equal: %v)", what, bytes.Equal(encBlock(b), encBlock(cpn.Block)), bytes.Equal(mgrsim.EncState(cs), mgrsim.EncState(cpn.Parent.FullState)))}
		return
	}
	// and a node can be started from it
	if _, _, err := chain.NewDBStoreAtCheckpoint(chain.NewMemDB(), cs, b, nil); err != nil {
		res.fail = &failure{"c11-bootstrap-bogus-checkpoint", fmt.Sprintf("%s: the returned checkpoint does not initialise a store: %v", what, err)}
	}
	return
}
