package main

// Scenarios with two cooperating Byzantine peers.
//
// preseed-instant: E1 relays an outline of a block X on the victim's tip with valid work,
// payout and height but an invalid body (it mints coins). AddBlocks stores X with its
// header-derived state, the reorg fails, E1 is banned, X stays in the store. Then E2
// serves the chain X,Y1,Y2,Y3 through SendHeaders / SendCheckpoint / SendV2Blocks above
// the require height: every block of the answer must be validated whatever the store
// already holds ("known" is not "validated").
//
// two-mismatch-then-honest: a short sync (one SendV2Blocks request). Two Byzantine peers
// announce the right headers, each takes one copy of the request and answers with blocks
// that do not match the headers (not ban-worthy: they stay connected). An honest peer
// joins the same parallelSync before its next tick; the failed request must still be
// available to it.

import (
	"fmt"
	"time"

	"go.sia.tech/core/consensus"
	"go.sia.tech/core/gateway"
	"go.sia.tech/core/types"
	"go.sia.tech/coreutils/chain"
	"go.sia.tech/coreutils/syncer"
	"verif/harness/internal/chaingen"
	"verif/harness/internal/mgrsim"
	"verif/harness/internal/netsim"
)

type twoCtx struct {
	s      Scen
	t      *chaingen.Tree
	ts     *terms
	v0, h  *chaingen.Node
	V, H   *netsim.Node
	res    *result
	ipOf   func(i int) string
	closer []func()
}

func (c *twoCtx) close() {
	for i := len(c.closer) - 1; i >= 0; i-- {
		c.closer[i]()
	}
}

func (c *twoCtx) startVictim() bool {
	vs, vcm := netsim.NewChain(c.t.Env, c.t, c.v0)
	var opts []syncer.Option
	if c.s.Batch > 0 {
		opts = append(opts, syncer.WithMaxSendBlocks(c.s.Batch))
	}
	V, err := netsim.Start("victim", c.ipOf(0), c.t.Env, vs, vcm, netsim.Options{Opts: opts, UID: uidFor(c.s.Seed, 0)})
	if err != nil {
		c.res.skipped = err.Error()
		return false
	}
	c.V = V
	c.closer = append(c.closer, V.Close)
	V.PS.Trusted[c.ipOf(2)] = true
	return true
}

func (c *twoCtx) startLiar(i int, l *liar) *netsim.Node {
	bs, bcm := c.t.Env.NewManager()
	l.Manager = bcm
	nb, err := netsim.Start(fmt.Sprintf("byzantine%d", i), c.ipOf(i), c.t.Env, bs, bcm, netsim.Options{
		Wrap: func(*chain.Manager) syncer.ChainManager { return l },
		Opts: []syncer.Option{syncer.WithSyncInterval(time.Hour)}, UID: uidFor(c.s.Seed, i)})
	if err != nil {
		c.res.skipped = err.Error()
		return nil
	}
	nb.PS.Trusted[c.V.IP] = true
	if err := nb.Connect(c.V); err != nil {
		c.res.obs[fmt.Sprintf("connect-error-%d", i)] = err.Error()
	}
	c.waitPeer(c.ipOf(i))
	return nb
}

func (c *twoCtx) waitPeer(ip string) {
	netsim.WaitUntil(3*time.Second, func() bool { return c.peerOf(ip) != nil })
}

func (c *twoCtx) peerOf(ip string) *syncer.Peer {
	for _, p := range c.V.S.Peers() {
		if h, _, _ := splitHostPort(p.ConnAddr); h == ip {
			return p
		}
	}
	return nil
}

func (c *twoCtx) startHonest() bool {
	hs, hcm := netsim.NewChain(c.t.Env, c.t, c.h)
	nh, err := netsim.Start("honest", c.ipOf(2), c.t.Env, hs, hcm, netsim.Options{UID: uidFor(c.s.Seed, 2)})
	if err != nil {
		c.res.skipped = err.Error()
		return false
	}
	c.H = nh
	c.closer = append(c.closer, nh.Close)
	nh.PS.Trusted[c.V.IP] = true
	if err := nh.Connect(c.V); err != nil {
		c.res.obs["honest-connect-error"] = err.Error()
	}
	return true
}

func (c *twoCtx) tipIdx() int {
	if n, ok := c.t.ByID[c.V.CM.Tip().ID]; ok {
		return n.Idx
	}
	return -1
}

// judge runs the common monitors; liveness: the victim reaches a tip the honest chain is not sufficiently heavier than.
func (c *twoCtx) judge(what string, liars ...*liar) {
	res := c.res
	reached := func() bool {
		tn, ok := c.t.ByID[c.V.CM.Tip().ID]
		return ok && !mgrsim.Heavier(c.h, tn)
	}
	okLive := netsim.WaitUntil(8*time.Second, reached)
	if !okLive {
		deadline := time.Now().Add(22 * time.Second)
		for time.Now().Before(deadline) && !reached() {
			c.H.AnnounceTip()
			time.Sleep(250 * time.Millisecond)
		}
		okLive = reached()
	}
	for _, l := range liars {
		for _, e := range l.Log() {
			for _, b := range e.blocks {
				c.ts.ofBlock(b)
			}
			for _, h := range e.headers {
				c.ts.ofHeader(h)
			}
		}
	}
	fin := c.tipIdx()
	res.obs["final-tip"] = fin
	res.obs["bans"] = c.V.PS.Bans()
	fail := func(kind, format string, a ...any) {
		if res.fail == nil {
			res.fail = &failure{kind, fmt.Sprintf(format, a...)}
		}
	}
	if ps := c.V.Panics(); len(ps) > 0 {
		fail("c11-handler-panic", "the victim recovered a panic in an RPC handler: %s", ps[0])
	}
	if k, d := netsim.AuditNode("c11", c.t, c.v0, c.V); k != "" {
		fail(k, "%s (%s)", d, what)
	}
	if k, d := netsim.AuditTips("c11", c.t, c.v0, c.V.Tips()); k != "" {
		fail(k, "%s (%s)", d, what)
	}
	if !okLive {
		fail("c11-stalled-below-honest-chain", "%s: the victim is on tip %d although the connected honest peer offers tip %d, which is sufficiently heavier (waited 30 s, tips announced)", what, fin, c.h.Idx)
	}
	if n := len(c.V.PS.BansOf(c.ipOf(2))); n > 0 {
		fail("c11-honest-peer-banned", "the victim banned the honest peer: %s", c.V.PS.BansOf(c.ipOf(2))[0].Reason)
	}
}

func newTwoCtx(s Scen, res *result) *twoCtx {
	res.obs = map[string]any{}
	t := s.tree()
	c := &twoCtx{s: s, t: t, ts: newTerms(t), res: res}
	c.ipOf = func(i int) string { return netsim.IPFor(s.Slot, i) }
	if s.VTip >= len(t.Nodes) || s.HTip >= len(t.Nodes) {
		res.skipped = "tips out of range"
		return nil
	}
	c.v0, c.h = t.Nodes[s.VTip], t.Nodes[s.HTip]
	if !c.h.ChainValid() || !c.v0.ChainValid() || !mgrsim.Heavier(c.h, c.v0) {
		res.skipped = "tips unsuitable"
		return nil
	}
	return c
}

// ---------------------------------------------------------------- preseed-instant

func runPreseed(s Scen) (res result) {
	c := newTwoCtx(s, &res)
	if c == nil {
		return
	}
	defer c.close()
	t, v0 := c.t, c.v0
	req := t.Env.Net.HardforkV2.RequireHeight
	if v0.Parent == nil || v0.Block.V2 == nil || v0.Height < req {
		res.skipped = "the victim's tip is not above the require height"
		return
	}
	// X: valid header, payout and height; the body mints coins
	cs := v0.FullState
	var miner types.Address
	miner[0] = 0xE1
	mint := types.V2Transaction{SiacoinOutputs: []types.SiacoinOutput{{Address: t.Env.Addr, Value: types.Siacoins(1000000)}}}
	X := types.Block{ParentID: v0.ID, Timestamp: cs.PrevTimestamps[0].Add(time.Second),
		MinerPayouts: []types.SiacoinOutput{{Value: cs.BlockReward(), Address: miner}},
		V2:           &types.V2BlockData{Height: v0.Height + 1, Transactions: []types.V2Transaction{mint}}}
	X.V2.Commitment = cs.Commitment(miner, nil, X.V2Transactions())
	chaingen.FindNonce(cs, &X)
	xn := t.AddBlock(X, "mints-coins")
	if xn == nil || !xn.HdrOK || xn.BodyOK {
		res.skipped = fmt.Sprintf("could not build the pre-seeded block (node %v)", xn)
		return
	}
	chainNodes := append(chainTo(t, v0), xn)
	st, _ := consensus.ApplyBlock(cs, X, consensus.V1BlockSupplement{}, time.Time{})
	for i := 0; i < 3; i++ {
		var m types.Address
		m[0], m[1] = 0xE2, byte(i)
		b := types.Block{ParentID: st.Index.ID, Timestamp: st.PrevTimestamps[0].Add(time.Second),
			MinerPayouts: []types.SiacoinOutput{{Value: st.BlockReward(), Address: m}},
			V2:           &types.V2BlockData{Height: st.Index.Height + 1}}
		b.V2.Commitment = st.Commitment(m, nil, nil)
		chaingen.FindNonce(st, &b)
		n := t.AddBlock(b, "on-pre-seeded-invalid-block")
		if n == nil {
			res.skipped = "could not build the chain on the pre-seeded block"
			return
		}
		chainNodes = append(chainNodes, n)
		st, _ = consensus.ApplyBlock(st, b, consensus.V1BlockSupplement{}, time.Time{})
	}
	if !c.startVictim() {
		return
	}
	V := c.V
	// step 1: E1 looks like a peer on the victim's chain, then relays the outline of X
	l1 := &liar{chain: chainTo(t, v0)}
	E1 := c.startLiar(1, l1)
	if E1 == nil {
		return
	}
	netsim.WaitUntil(6*time.Second, func() bool { p := c.peerOf(c.ipOf(1)); return p != nil && p.Synced() })
	E1.S.BroadcastV2BlockOutline(gateway.OutlineBlock(X, nil, nil))
	netsim.WaitUntil(4*time.Second, func() bool { return len(V.PS.BansOf(c.ipOf(1))) > 0 })
	_, stored := V.CM.State(X.ID())
	res.obs["pre-seeded-block-stored"] = stored
	res.obs["e1-banned"] = len(V.PS.BansOf(c.ipOf(1))) > 0
	E1.Close()
	if c.tipIdx() != v0.Idx {
		c.judge("pre-seeding an invalid block by relay")
		return
	}
	// step 2: E2 (another address) serves the chain through X by instant sync
	l2 := &liar{chain: chainNodes, maxRounds: 1}
	E2 := c.startLiar(3, l2)
	if E2 == nil {
		return
	}
	netsim.WaitUntil(7*time.Second, func() bool {
		p := c.peerOf(c.ipOf(3))
		return len(V.PS.BansOf(c.ipOf(3))) > 0 || p == nil || p.Err() != nil || p.Synced()
	})
	res.obs["tip-after-byzantine"] = c.tipIdx()
	res.obs["e2-banned"] = len(V.PS.BansOf(c.ipOf(3))) > 0
	res.banned = len(V.PS.BansOf(c.ipOf(3))) > 0
	servedX := false
	for _, e := range l2.Log() {
		if e.kind == "bfh" {
			for _, b := range e.blocks {
				if b.ID() == X.ID() {
					servedX = true
				}
			}
		}
	}
	if k, d := netsim.AuditNode("c11", t, v0, V); k != "" {
		res.fail = &failure{k, fmt.Sprintf("after a block pre-seeded by a relayed outline (stored: %v) was served again inside an instant-sync answer: %s", stored, d)}
	}
	waitRoundEnd(V) // let the failed round end before the honest peer appears
	E2.Close()
	if !c.startHonest() {
		return
	}
	c.judge("pre-seed by relay, then instant sync through the pre-seeded block", l1, l2)
	if res.fail == nil && stored && servedX && !res.banned {
		res.fail = &failure{"c11-misbehaviour-not-banned", "a peer served an invalid block (already stored by the victim with a header-derived state) inside an instant-sync answer and was not banned"}
	}
	if !stored || !servedX {
		res.note = "preseed-not-reached"
	}
	return
}

// ---------------------------------------------------------------- two-mismatch-then-honest

func runTwoMismatch(s Scen) (res result) {
	c := newTwoCtx(s, &res)
	if c == nil {
		return
	}
	defer c.close()
	t := c.t
	if !c.startVictim() {
		return
	}
	mk := func() *liar {
		l := &liar{chain: chainTo(t, c.h)}
		l.mutBlocks = func(hist []types.BlockID, bs []types.Block, rem uint64) ([]types.Block, uint64, error) {
			// right count, wrong blocks: ids differ from the announced headers (not ban-worthy)
			if len(bs) > 0 {
				if ps, ok := stateBefore(l.chain, bs[0].ID()); ok {
					bs[0].Nonce += ps.NonceFactor()
				}
			}
			return bs, rem, nil
		}
		return l
	}
	l1, l2 := mk(), mk()
	B1 := c.startLiar(1, l1)
	if B1 == nil {
		return
	}
	c.closer = append(c.closer, B1.Close)
	B2 := c.startLiar(3, l2)
	if B2 == nil {
		return
	}
	c.closer = append(c.closer, B2.Close)
	served := func(l *liar) int {
		n := 0
		for _, e := range l.Log() {
			if e.kind == "bfh" {
				n++
			}
		}
		return n
	}
	// the honest peer joins as soon as both Byzantine peers have answered a block request
	both := netsim.WaitUntil(8*time.Second, func() bool { return served(l1) > 0 && served(l2) > 0 })
	res.obs["both-byzantine-peers-answered"] = both
	if !c.startHonest() {
		return
	}
	c.judge("two peers answering with blocks that do not match their headers, then an honest peer joining the round", l1, l2)
	res.obs["requests-served"] = []int{served(l1), served(l2)}
	for _, i := range []int{1, 3} {
		if n := len(c.V.PS.BansOf(c.ipOf(i))); n > 0 && res.fail == nil {
			res.obs["observation"] = "a peer whose blocks did not match its headers was banned"
		}
	}
	if !both {
		res.note = "two-mismatch-not-reached"
	}
	return
}
