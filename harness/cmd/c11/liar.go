package main

// The Byzantine peer is a real syncer.Syncer whose ChainManager lies: the read
// side (Headers, BlocksForHistory, Block, State, TransactionsForPartialBlock)
// answers from a scripted chain of tree nodes — which need not be valid —
// after passing each answer through the attack's mutators. The write side is
// an honest manager that stays at genesis (the liar's own syncer is passive).

import (
	"errors"
	"fmt"
	"sync"

	"go.sia.tech/core/consensus"
	"go.sia.tech/core/types"
	"go.sia.tech/coreutils/chain"
	"verif/harness/internal/chaingen"
)

type served struct {
	kind    string // headers | bfh | block | state | txpb
	index   types.ChainIndex
	hist    []types.BlockID
	id      types.BlockID
	headers []types.BlockHeader
	blocks  []types.Block
	block   types.Block
	state   consensus.State
	rem     uint64
	max     uint64 // the requester's Max (block requests)
	ok      bool
	err     bool
}

type liar struct {
	*chain.Manager
	chain []*chaingen.Node // genesis first

	// mutators (nil = honest)
	mutHeaders func(index types.ChainIndex, hs []types.BlockHeader, rem uint64) ([]types.BlockHeader, uint64, error)
	mutBlocks  func(hist []types.BlockID, bs []types.Block, rem uint64) ([]types.Block, uint64, error)
	mutBlock   func(id types.BlockID, b types.Block, ok bool) (types.Block, bool)
	mutState   func(id types.BlockID, cs consensus.State, ok bool) (consensus.State, bool)
	mutTxns    func(missing []types.Hash256, txns []types.Transaction, v2 []types.V2Transaction) ([]types.Transaction, []types.V2Transaction)

	// after maxRounds answered SendHeaders requests every further one is refused, so that the
	// number of sync rounds the victim gets is determined (0 = no limit)
	maxRounds int
	rounds    int

	mu  sync.Mutex
	log []served
}

func (l *liar) rec(s served) {
	l.mu.Lock()
	l.log = append(l.log, s)
	l.mu.Unlock()
}

func (l *liar) Log() []served {
	l.mu.Lock()
	defer l.mu.Unlock()
	return append([]served(nil), l.log...)
}

func (l *liar) pos(id types.BlockID) int {
	for i, n := range l.chain {
		if n.ID == id {
			return i
		}
	}
	return -1
}

func (l *liar) Headers(index types.ChainIndex, max uint64) ([]types.BlockHeader, uint64, error) {
	p := l.pos(index.ID)
	l.mu.Lock()
	refuse := l.maxRounds > 0 && l.rounds >= l.maxRounds
	l.mu.Unlock()
	if refuse || p < 0 || l.chain[p].Height != index.Height {
		l.rec(served{kind: "headers", index: index, err: true})
		return nil, 0, fmt.Errorf("index %v is not on our best chain", index)
	}
	var hs []types.BlockHeader
	for _, n := range l.chain[p+1:] {
		if uint64(len(hs)) >= max {
			break
		}
		hs = append(hs, n.Block.Header())
	}
	rem := uint64(len(l.chain)-1-p) - uint64(len(hs))
	var err error
	if l.mutHeaders != nil {
		hs, rem, err = l.mutHeaders(index, hs, rem)
	}
	if err == nil {
		l.mu.Lock()
		l.rounds++
		l.mu.Unlock()
	}
	l.rec(served{kind: "headers", index: index, headers: append([]types.BlockHeader(nil), hs...), rem: rem, err: err != nil})
	return hs, rem, err
}

func (l *liar) BlocksForHistory(history []types.BlockID, max uint64) ([]types.Block, uint64, error) {
	p := 0
	for _, id := range history {
		if q := l.pos(id); q >= 0 {
			p = q
			break
		}
	}
	var bs []types.Block
	for _, n := range l.chain[p+1:] {
		if uint64(len(bs)) >= max {
			break
		}
		bs = append(bs, chaingen.DeepCopyBlock(n.Block))
	}
	rem := uint64(len(l.chain)-1-p) - uint64(len(bs))
	var err error
	if l.mutBlocks != nil {
		bs, rem, err = l.mutBlocks(history, bs, rem)
	}
	l.rec(served{kind: "bfh", max: max, hist: append([]types.BlockID(nil), history...), blocks: append([]types.Block(nil), bs...), rem: rem, err: err != nil})
	return bs, rem, err
}

func (l *liar) Block(id types.BlockID) (types.Block, bool) {
	var b types.Block
	ok := false
	if p := l.pos(id); p >= 0 {
		b, ok = chaingen.DeepCopyBlock(l.chain[p].Block), true
	}
	if l.mutBlock != nil {
		b, ok = l.mutBlock(id, b, ok)
	}
	l.rec(served{kind: "block", id: id, block: b, ok: ok})
	return b, ok
}

// State answers with the full state of a valid node and with the
// header-derived state otherwise (what an honest store would hold).
func (l *liar) State(id types.BlockID) (consensus.State, bool) {
	var cs consensus.State
	ok := false
	if p := l.pos(id); p >= 0 {
		n := l.chain[p]
		if n.ChainValid() {
			cs, ok = n.FullState, true
		} else {
			cs, ok = n.State, true
		}
	}
	if l.mutState != nil {
		cs, ok = l.mutState(id, cs, ok)
	}
	l.rec(served{kind: "state", id: id, state: cs, ok: ok})
	return cs, ok
}

func (l *liar) TransactionsForPartialBlock(missing []types.Hash256) ([]types.Transaction, []types.V2Transaction) {
	var txns []types.Transaction
	var v2 []types.V2Transaction
	if l.mutTxns != nil {
		txns, v2 = l.mutTxns(missing, txns, v2)
	}
	l.rec(served{kind: "txpb"})
	return txns, v2
}

var errStall = errors.New("stall")
