// Command c11 checks C11 (a Byzantine peer cannot corrupt, crash or stall an
// honest syncer's chain) on real syncer.Syncer instances over loopback: a
// victim, a Byzantine peer (a real syncer over a lying chain manager, or a raw
// gateway dialer) and an honest peer, each on its own 127.x.y.z address.
package main

import (
	"encoding/json"
	"fmt"
	"net"
	"os"
	"sort"
	"strings"
	"sync"
	"time"

	"go.sia.tech/core/gateway"
	"go.sia.tech/coreutils/chain"
	"go.sia.tech/coreutils/syncer"
	"verif/harness/internal/chaingen"
	"verif/harness/internal/hx"
	"verif/harness/internal/mgrsim"
	"verif/harness/internal/netsim"
	"verif/harness/internal/rng"
)

func main() { hx.Main("C11", func(c *hx.Ctx) { netsim.Supervised(c, "c11-process-crashed", run) }) }

// A Scen is one scenario; everything else is regenerated from it.
type Scen struct {
	Seed   uint64           `json:"seed"`
	Regime int              `json:"regime"`
	Opts   chaingen.GenOpts `json:"opts"`
	Attack string           `json:"attack"`
	Field  string           `json:"field,omitempty"`
	K      int              `json:"k"`
	Aux    int              `json:"aux,omitempty"`
	VTip   int              `json:"vtip"`
	HTip   int              `json:"htip"`
	Batch  uint64           `json:"batch,omitempty"`  // victim's WithMaxSendBlocks (request size)
	Mixed  bool             `json:"mixed,omitempty"`  // Byzantine and honest peer connected at the same time
	Repeat bool             `json:"repeat,omitempty"` // the ban is not enforced: the peer reconnects and offends again
	BDials bool             `json:"bdials"`           // the Byzantine peer dials the victim (else the victim dials it)
	Slot   int              `json:"-"`
}

func (s Scen) tree() *chaingen.Tree {
	r := rng.New(s.Seed)
	env := chaingen.NewEnv(r, s.Regime)
	return chaingen.Gen(r, env, s.Opts)
}

// safeTree is tree() for a seed that has not been tried yet: the generator gives up (panics) on the
// rare seed that makes two sibling blocks identical; such a seed is simply not used.
func (s Scen) safeTree() (t *chaingen.Tree) {
	defer func() {
		if recover() != nil {
			t = nil
		}
	}()
	return s.tree()
}

type failure struct{ kind, detail string }

type result struct {
	fail    *failure
	skipped string
	coq     string
	obs     map[string]any
	banned  bool
	dropped bool
	rounds  int
	note    string

	downstream bool
}

func uidFor(seed uint64, i int) gateway.UniqueID {
	var id gateway.UniqueID
	rng.New(seed ^ uint64(0x51ed+i*104729)).Bytes(id[:])
	id[0] |= 1
	return id
}

const (
	peerB = 1
	peerH = 2
)

// subnetIDs gives the four subnets of 127.a.b.1 small integer names.
func subnetIDs(slot, node int) []int {
	return []int{1000 + node, 2000 + node, 3000 + slot%240, 4000}
}

func runScen(s Scen) (res result) {
	switch s.Attack {
	case "hit-and-run":
		return runHitAndRun(s)
	case "preseed-instant":
		return runPreseed(s)
	case "bootstrap":
		return runBootstrap(s)
	case "two-mismatch-then-honest":
		return runTwoMismatch(s)
	}
	res.obs = map[string]any{}
	t := s.tree()
	ts := newTerms(t)
	if s.VTip >= len(t.Nodes) || s.HTip >= len(t.Nodes) {
		res.skipped = "tips out of range"
		return
	}
	v0, h := t.Nodes[s.VTip], t.Nodes[s.HTip]
	atk := buildAttack(s, t, ts, v0, h)
	if !atk.ok {
		res.skipped = "attack not applicable to this tree"
		return
	}
	var vopts []syncer.Option
	if s.Batch > 0 {
		vopts = append(vopts, syncer.WithMaxSendBlocks(s.Batch))
	}
	vs, vcm := netsim.NewChain(t.Env, t, v0)
	V, err := netsim.Start("victim", netsim.IPFor(s.Slot, 0), t.Env, vs, vcm, netsim.Options{Opts: vopts, UID: uidFor(s.Seed, 0)})
	if err != nil {
		res.skipped = "cannot start victim: " + err.Error()
		return
	}
	defer V.Close()
	ipB, ipH := netsim.IPFor(s.Slot, 1), netsim.IPFor(s.Slot, 2)
	V.PS.Trusted[ipH] = true
	if s.Repeat {
		V.PS.Trusted[ipB] = true // bans are recorded but not enforced
	}

	var B *netsim.Node
	var raw *rawPeer
	var cut *netsim.CutDialer
	startB := func() bool {
		if s.Attack == "malformed" {
			r, err := rawDial(ipB, V.Addr(), t.Env.Genesis.ID(), uidFor(s.Seed, 1))
			if err != nil {
				res.skipped = "raw dial: " + err.Error()
				return false
			}
			raw = r
			return true
		}
		bs, bcm := t.Env.NewManager()
		atk.l.Manager = bcm
		bopts := []syncer.Option{syncer.WithSyncInterval(time.Hour)}
		if s.Attack == "cut-conn" {
			// the peer serves honest data, but its connection dies once it has written a given number of bytes:
			// after the handshake, between two answers, or in the middle of one
			budgets := []int64{200, 420, 700, 1100, 1800, 3000, 5000, 9000, 16000, 30000}
			cut = &netsim.CutDialer{Inner: &net.Dialer{LocalAddr: &net.TCPAddr{IP: net.ParseIP(ipB)}}, Budget: budgets[s.K%len(budgets)], Times: 1}
			bopts = append(bopts, syncer.WithDialer(cut))
		}
		atk.l.mu.Lock()
		atk.l.rounds = 0
		if atk.relay == nil {
			atk.l.maxRounds = 1
		}
		atk.l.mu.Unlock()
		nb, err := netsim.Start("byzantine", ipB, t.Env, bs, bcm, netsim.Options{
			Wrap: func(*chain.Manager) syncer.ChainManager { return atk.l },
			Opts: bopts, UID: uidFor(s.Seed, 1)})
		if err != nil {
			res.skipped = "cannot start byzantine peer: " + err.Error()
			return false
		}
		B = nb
		B.PS.Trusted[V.IP] = true
		if s.BDials || s.Attack == "cut-conn" {
			err = B.Connect(V)
		} else {
			err = V.Connect(B)
		}
		if err != nil {
			res.obs["connect-error"] = err.Error()
		}
		// the accepting side registers the peer asynchronously
		netsim.WaitUntil(3*time.Second, func() bool {
			for _, p := range V.S.Peers() {
				if strings.HasPrefix(p.ConnAddr, ipB+":") {
					return true
				}
			}
			return false
		})
		return true
	}
	closeB := func() {
		if B != nil && os.Getenv("VERIF_DEBUG") == "2" {
			fmt.Fprintf(os.Stderr, "  B panics=%v peers=%d Vpeers=%d\n", B.Panics(), len(B.S.Peers()), len(V.S.Peers()))
			for _, e := range B.Logs.All() {
				fmt.Fprintf(os.Stderr, "  Blog %s %v\n", e.Message, e.ContextMap())
			}
		}
		if B != nil {
			B.Close()
			B = nil
		}
		if raw != nil {
			raw.Close()
			raw = nil
		}
	}
	defer closeB()

	bansOfB := func() int { return len(V.PS.BansOf(ipB)) }
	peerOf := func(ip string) *syncer.Peer {
		for _, p := range V.S.Peers() {
			if h, _, _ := splitHostPort(p.ConnAddr); h == ip {
				return p
			}
		}
		return nil
	}
	tipIdx := func() int {
		if n, ok := t.ByID[V.CM.Tip().ID]; ok {
			return n.Idx
		}
		return -1
	}

	var H *netsim.Node
	startH := func() bool {
		hs, hcm := netsim.NewChain(t.Env, t, h)
		nh, err := netsim.Start("honest", ipH, t.Env, hs, hcm, netsim.Options{UID: uidFor(s.Seed, 2)})
		if err != nil {
			res.skipped = "cannot start honest peer: " + err.Error()
			return false
		}
		H = nh
		H.PS.Trusted[V.IP] = true
		if err := H.Connect(V); err != nil {
			res.obs["honest-connect-error"] = err.Error()
		}
		return true
	}
	defer func() {
		if H != nil {
			H.Close()
		}
	}()

	// ---- phase 1: the Byzantine peer
	// in the mixed scenarios and in every announcement attack an honest node W sits behind the victim (its only peer): whatever the victim relays
	// while under attack, W must not be harmed, must not ban the victim, and must end on the honest chain too
	var W *netsim.Node
	ipW := netsim.IPFor(s.Slot, 5)
	if (s.Mixed || strings.HasPrefix(s.Attack, "relay-")) && s.Attack != "malformed" {
		ws, wcm := netsim.NewChain(t.Env, t, v0)
		// (same request-size option as the victim: a node that asks for more blocks per request than its peer is
		// willing to serve cannot sync from it — the homogeneous-configuration assumption of checks/C12.json)
		nw, err := netsim.Start("downstream", ipW, t.Env, ws, wcm, netsim.Options{Opts: vopts, UID: uidFor(s.Seed, 5)})
		if err == nil {
			W = nw
			defer W.Close()
			V.PS.Trusted[ipW] = true
			if err := W.Connect(V); err != nil {
				res.obs["downstream-connect-error"] = err.Error()
			}
		}
	}
	if s.Mixed {
		if !startH() {
			return
		}
	}
	offences := 1
	if s.Repeat {
		offences = 2
	}
	var phases []phase
	for off := 0; off < offences; off++ {
		if !startB() {
			return
		}
		before := bansOfB()
		quiet := func(d time.Duration) {
			// wait until a verdict on B is visible, or d elapsed
			netsim.WaitUntil(d, func() bool {
				if bansOfB() > before {
					return true
				}
				if B == nil {
					return false
				}
				p := peerOf(ipB)
				return p == nil || p.Err() != nil
			})
		}
		if s.Attack == "malformed" {
			raw.malform(s.Field, t, v0)
			time.Sleep(300 * time.Millisecond)
		} else if atk.relay != nil {
			// first the victim's own sync round with B (B serves the victim's chain: nothing to fetch)
			ok := netsim.WaitUntil(6*time.Second, func() bool { p := peerOf(ipB); return p != nil && p.Synced() })
			if !ok {
				res.obs["relay-setup"] = "victim never marked the byzantine peer synced"
			}
			atk.relayAt = append(atk.relayAt, len(atk.l.Log()))
			if tipIdx() != v0.Idx {
				atk.tipMoved = true // (mixed scenarios) the announcement no longer attaches to the victim's tip
			}
			atk.relay(B, V)
			netsim.WaitUntil(2500*time.Millisecond, func() bool {
				if bansOfB() > before {
					return true
				}
				p := peerOf(ipB)
				return p == nil || !p.Synced() || (atk.noBan && tipIdx() != v0.Idx)
			})
			time.Sleep(150 * time.Millisecond)
			if s.Field == "missing-fail" {
				time.Sleep(500 * time.Millisecond)
			}
			// a resync triggered by the announcement starts another round with B: let it finish
			netsim.WaitUntil(5*time.Second, func() bool {
				p := peerOf(ipB)
				return p == nil || p.Err() != nil || p.Synced()
			})
			time.Sleep(100 * time.Millisecond)
		} else {
			// sync-answer attack: wait for a verdict (ban, drop, synced) or for a failed round
			netsim.WaitUntil(7*time.Second, func() bool {
				if bansOfB() > before {
					return true
				}
				p := peerOf(ipB)
				if p == nil || p.Err() != nil || p.Synced() {
					return true
				}
				// a round that ended without verdict: at least one successful headers answer and 2.6 s of silence
				log := atk.l.Log()
				n := 0
				for _, e := range log {
					if e.kind == "headers" && !e.err {
						n++
					}
				}
				return n >= 2
			})
			_ = quiet
			// a sync round that failed keeps waiting (1 s ticker) for new peers to take over its
			// requests; let it end before the honest peer appears, so that every round has one peer
			// (the take-over itself is exercised by the mixed scenarios)
			if !s.Mixed {
				for _, e := range atk.l.Log() {
					if e.kind == "bfh" || e.kind == "block" {
						waitRoundEnd(V)
						break
					}
				}
			}
		}
		if B != nil {
			if p := peerOf(ipB); (p == nil || p.Err() != nil) && bansOfB() == before {
				res.dropped = true
			}
		}
		closeB()
		time.Sleep(120 * time.Millisecond)
		nl := 0
		if atk.l != nil {
			nl = len(atk.l.Log())
		}
		phases = append(phases, phase{tip: tipIdx(), bans: V.PS.Bans(), nlog: nl, nvlog: len(V.Rec.Log())})
	}
	res.banned = bansOfB() > 0
	// everything the Byzantine peer served becomes a labelled object of the universe (so that an
	// adopted object is judged by its independent labels)
	if atk.l != nil {
		for _, e := range atk.l.Log() {
			for _, b := range e.blocks {
				ts.ofBlock(b)
			}
			for _, h := range e.headers {
				ts.ofHeader(h)
			}
		}
	}
	if k, d := netsim.AuditNode("c11", t, v0, V); k != "" && res.fail == nil {
		res.fail = &failure{k, fmt.Sprintf("after the Byzantine peer's turn: %s (attack %s/%s)", d, s.Attack, s.Field)}
	}
	if os.Getenv("VERIF_DEBUG") == "2" {
		for _, c := range V.Rec.Log() {
			fmt.Fprintf(os.Stderr, "  V %s idx=%v ids=%d res=%d err=%q tip=%v\n", c.Kind, c.Index, len(c.IDs), len(c.Res), c.Err, c.TipAft)
		}
		if atk.l != nil {
			for _, e := range atk.l.Log() {
				fmt.Fprintf(os.Stderr, "  B %s idx=%v id=%v n=%d/%d ok=%v err=%v\n", e.kind, e.index, e.id, len(e.headers), len(e.blocks), e.ok, e.err)
			}
		}
	}
	res.obs["bans"] = V.PS.Bans()
	res.obs["tip-after-byzantine"] = tipIdx()

	// ---- phase 2: the honest peer
	if !s.Mixed {
		if !startH() {
			return
		}
	}
	reached := func() bool {
		tn, ok := t.ByID[V.CM.Tip().ID]
		return ok && !mgrsim.Heavier(h, tn)
	}
	announced := false
	okLive := netsim.WaitUntil(7*time.Second, reached)
	if !okLive {
		// the property speaks of announced tips: keep announcing
		announced = true
		deadline := time.Now().Add(25 * time.Second)
		for time.Now().Before(deadline) && !reached() {
			H.AnnounceTip()
			time.Sleep(250 * time.Millisecond)
		}
		okLive = reached()
	}
	time.Sleep(100 * time.Millisecond)
	finalTip := tipIdx()
	res.obs["final-tip"] = finalTip
	res.obs["expected-at-least"] = h.Idx
	phases = append(phases, phase{tip: finalTip, bans: V.PS.Bans(), nvlog: len(V.Rec.Log())})

	// ---- monitors
	fail := func(kind, format string, a ...any) {
		if res.fail == nil {
			res.fail = &failure{kind, fmt.Sprintf(format, a...)}
		}
	}
	if ps := V.Panics(); len(ps) > 0 {
		fail("c11-handler-panic", "the victim recovered a panic in an RPC handler: %s", ps[0])
	}
	if W != nil {
		wOK := netsim.WaitUntil(15*time.Second, func() bool {
			tn, ok := t.ByID[W.CM.Tip().ID]
			return ok && !mgrsim.Heavier(h, tn)
		})
		res.downstream = true
		if os.Getenv("VERIF_DEBUG") == "2" {
			for _, c := range W.Rec.Log() {
				if c.Kind != "history" {
					fmt.Fprintf(os.Stderr, "  W %s idx=%v ids=%d res=%d err=%q tip=%v\n", c.Kind, c.Index, len(c.IDs), len(c.Res), c.Err, c.TipAft)
				}
			}
			for _, p := range W.S.Peers() {
				fmt.Fprintf(os.Stderr, "  W peer %s synced=%v err=%v\n", p.ConnAddr, p.Synced(), p.Err())
			}
			for _, p := range V.S.Peers() {
				fmt.Fprintf(os.Stderr, "  V peer %s synced=%v err=%v\n", p.ConnAddr, p.Synced(), p.Err())
			}
		}
		if bs := W.PS.Bans(); len(bs) > 0 {
			fail("c11-honest-victim-banned-downstream", "the honest node behind the victim (its only peer) banned the victim while the victim was under attack %s/%s: %s", s.Attack, s.Field, bs[0].Reason)
		}
		if k, d := netsim.AuditNode("c11", t, v0, W); k != "" {
			fail(k, "downstream node: %s (attack %s/%s)", d, s.Attack, s.Field)
		}
		if ps := W.Panics(); len(ps) > 0 {
			fail("c11-handler-panic", "the node behind the victim recovered a panic in an RPC handler: %s", ps[0])
		}
		if !wOK && okLive {
			fail("c11-downstream-stalled", "the victim reached the honest tip but the honest node behind it (whose only peer is the victim) is still on tip %v after 15 s (attack %s/%s)", W.CM.Tip(), s.Attack, s.Field)
		}
	}
	if k, d := netsim.AuditNode("c11", t, v0, V); k != "" {
		fail(k, "%s (attack %s/%s)", d, s.Attack, s.Field)
	}
	if k, d := netsim.AuditTips("c11", t, v0, V.Tips()); k != "" {
		fail(k, "%s (attack %s/%s)", d, s.Attack, s.Field)
	}
	if !okLive {
		fail("c11-stalled-below-honest-chain", "after the attack %s/%s the victim is on tip %d although the connected honest peer offers tip %d, which is sufficiently heavier (waited 32 s, tips announced)", s.Attack, s.Field, finalTip, h.Idx)
	}
	if n := len(V.PS.BansOf(ipH)); n > 0 {
		fail("c11-honest-peer-banned", "the victim banned the honest peer: %s", V.PS.BansOf(ipH)[0].Reason)
	}
	if atk.noBan && res.banned {
		fail("c11-ban-without-misbehaviour", "the peer only sent data of valid chains (attack %s/%s) yet the victim banned it: %s", s.Attack, s.Field, V.PS.BansOf(ipB)[0].Reason)
	}
	if atk.mustBan && !res.banned {
		// only demanded when the misbehaviour reached its handler
		reachedHandler := true
		if s.Attack == "relay-outline" && (atk.tipMoved || res.obs["tip-after-byzantine"] != v0.Idx) {
			// an outline is judged (work, completeness, validity) only if it attaches to the tip
			reachedHandler = false
		}
		if s.Attack == "invalid-branch" {
			// the victim only tries the branch if it looks sufficiently heavier than its tip at that time
			reachedHandler = false
			for _, c := range V.Rec.Log() {
				if (c.Kind == "add" || c.Kind == "addv") && c.Err != "" {
					reachedHandler = true
				}
			}
		}
		if reachedHandler {
			fail("c11-misbehaviour-not-banned", "attack %s/%s is a provable misbehaviour that reached its handler, but no Ban call named the peer", s.Attack, s.Field)
		}
	}
	if s.Repeat && res.banned {
		// two offences from one address: the /32 subnet must have been banned too
		sub := false
		for _, b := range V.PS.Bans() {
			if strings.HasSuffix(b.Addr, "/32") { // a subnet ban is recognised by the shape of the address, not by the reason text
				sub = true
			}
		}
		if len(V.PS.BansOf(ipB)) >= 2 && !sub {
			fail("c11-strikes-not-counted", "two bans of %s but no /32 subnet ban", ipB)
		}
	}
	if os.Getenv("VERIF_DEBUG") == "2" && H != nil {
		for _, c := range H.Rec.Log() {
			fmt.Fprintf(os.Stderr, "  H %s idx=%v ids=%d res=%d err=%q tip=%v\n", c.Kind, c.Index, len(c.IDs), len(c.Res), c.Err, c.TipAft)
		}
		for _, c := range V.Rec.Log() {
			fmt.Fprintf(os.Stderr, "  V2 %s idx=%v ids=%d res=%d err=%q tip=%v\n", c.Kind, c.Index, len(c.IDs), len(c.Res), c.Err, c.TipAft)
		}
	}
	if res.fail != nil {
		return
	}
	if cut != nil {
		res.obs["cut-after-bytes"], res.obs["connections-cut"] = cut.Budget, cut.Cuts.Load()
		if cut.Cuts.Load() > 0 {
			res.note = "connection-cut-mid-exchange"
		}
	}
	if s.Mixed || announced || s.Attack == "malformed" || s.Attack == "cut-conn" {
		return // the message order seen by the victim is not determined: monitors only
	}
	res.coq = project(s, t, ts, atk, v0, V, H, phases)
	res.note = atk.note
	return
}

// what was observed at the end of a phase
type phase struct {
	tip   int
	bans  []netsim.BanCall
	nlog  int // length of the liar's log
	nvlog int // length of the victim's call log
}

// waitRoundEnd waits until the victim's syncLoop has started another iteration (it calls History() at the top of
// each one and runs parallelSync synchronously), i.e. until the sync round in progress is over — under load the
// round's one-second ticker may take much longer than two ticks.
func waitRoundEnd(V *netsim.Node) {
	count := func() int {
		n := 0
		for _, c := range V.Rec.Log() {
			if c.Kind == "history" {
				n++
			}
		}
		return n
	}
	n0 := count()
	netsim.WaitUntil(12*time.Second, func() bool { return count() >= n0+2 })
}

func splitHostPort(a string) (string, string, error) {
	i := strings.LastIndex(a, ":")
	if i < 0 {
		return a, "", nil
	}
	return a[:i], a[i+1:], nil
}

func run(c *hx.Ctx) {
	res := c.Res
	res.Shard = 40
	res.Rule = "victim + Byzantine peer (real syncer over a lying ChainManager, or a raw gateway dialer) + honest peer, each on its own 127.x.y.z; every RPC answer (headers, blocks, checkpoint block/state, missing transactions) and announcement (header, outline, transaction set) corrupted per field and per position, before and after the require height; non-trivial := the Byzantine peer's data reached a handler of the victim (a Headers/BlocksForHistory/Block answer was served or an announcement sent)"
	var mu sync.Mutex
	var cases []string
	handle := func(s Scen, r result) {
		mu.Lock()
		defer mu.Unlock()
		js, _ := json.Marshal(s)
		if r.skipped != "" {
			res.Count("skipped:" + s.Attack)
			return
		}
		res.Eval(string(js), true)
		res.Count("attack:" + s.Attack)
		if s.Field != "" {
			res.Count("attack:" + s.Attack + "/" + s.Field)
		}
		res.Count("regime:" + chaingen.RegimeNames[s.Regime])
		if r.banned {
			res.Count("banned:" + s.Attack + "/" + s.Field)
		}
		if s.Mixed {
			res.Count("mixed")
		}
		if r.downstream {
			res.Count("dim:honest-node-behind-victim")
		}
		if s.Batch > 0 {
			res.Count(fmt.Sprintf("victim-batch:%d", s.Batch))
		} else {
			res.Count("victim-batch:default")
		}
		if r.note != "" {
			res.Count("observation:" + r.note)
		}
		if r.dropped {
			res.Count("disconnected-without-ban:" + s.Attack + "/" + s.Field)
		}
		if r.fail != nil {
			t := s.tree()
			res.Fail(r.fail.kind, r.fail.detail, map[string]any{"scenario": s, "observed": r.obs, "tree": describe(newTerms(t))})
		}
		if r.coq != "" {
			cases = append(cases, r.coq)
		}
		if os.Getenv("VERIF_DEBUG") != "" {
			fmt.Fprintf(os.Stderr, "SCEN %s/%s regime=%d v=%d h=%d batch=%d mixed=%v banned=%v coq=%v obs=%v\n", s.Attack, s.Field, s.Regime, s.VTip, s.HTip, s.Batch, s.Mixed, r.banned, r.coq != "", r.obs)
		}
		if len(res.Samples) < 4 {
			res.Sample(map[string]any{"scenario": s, "observed": r.obs})
		}
	}
	exec := func(s Scen) result {
		id := fmt.Sprintf("%s-%s-%x", s.Attack, s.Field, s.Seed)
		netsim.Begin(id, s)
		defer netsim.End(id)
		return runScen(s)
	}
	if c.Replay != "" {
		var rp struct {
			Replay struct {
				Scenario Scen `json:"scenario"`
			} `json:"replay"`
		}
		b, _ := os.ReadFile(c.Replay)
		json.Unmarshal(b, &rp)
		handle(rp.Replay.Scenario, exec(rp.Replay.Scenario))
		res.WriteCases("Run.Run_C11", cases)
		return
	}
	scens := genScens(c)
	par := 20
	var wg sync.WaitGroup
	ch := make(chan Scen)
	type sr struct {
		s Scen
		r result
	}
	var results []sr
	var rmu sync.Mutex
	for w := 0; w < par; w++ {
		wg.Add(1)
		go func(slot int) {
			defer wg.Done()
			for s := range ch {
				s.Slot = slot
				r := exec(s)
				rmu.Lock()
				results = append(results, sr{s, r})
				rmu.Unlock()
			}
		}(w)
	}
	for _, s := range scens {
		ch <- s
	}
	close(ch)
	wg.Wait()
	sort.Slice(results, func(a, b int) bool {
		if results[a].s.Seed != results[b].s.Seed {
			return results[a].s.Seed < results[b].s.Seed
		}
		return results[a].s.Attack+results[a].s.Field < results[b].s.Attack+results[b].s.Field
	})
	for _, x := range results {
		handle(x.s, x.r)
	}
	res.Notes = append(res.Notes, "observation (not judged): an invalid header in a SendHeaders answer and a bogus checkpoint only disconnect the peer or fail the request (no Ban call); see the disconnected-without-ban:* counters")
	res.WriteCases("Run.Run_C11", cases)
}
