package main

// Projection of what the victim's handlers received onto the messages of the
// Coq model (Net/Sync.v), and scenario generation.

import (
	"fmt"
	"strings"

	"go.sia.tech/core/types"
	"verif/harness/internal/chaingen"
	"verif/harness/internal/hx"
	"verif/harness/internal/mgrsim"
	"verif/harness/internal/netsim"
)

type group struct {
	s string // the cresp term
}

// roundsOf parses a stretch of the liar's log into sync rounds.
func roundsOf(ts *terms, log []served, bpr int) (msgs []string, refusedAfter bool) {
	i := 0
	for i < len(log) {
		e := log[i]
		if e.kind != "headers" {
			i++
			continue
		}
		if e.err {
			refusedAfter = true
			i++
			continue
		}
		refusedAfter = false
		a := ts.ofID(e.index.ID)
		var hs []int
		for _, h := range e.headers {
			hs = append(hs, ts.ofHeader(h))
		}
		nch := (len(hs) + bpr - 1) / bpr
		i++
		var groups []string
		for i < len(log) && log[i].kind != "headers" {
			g := log[i]
			switch g.kind {
			case "bfh":
				if g.err {
					groups = append(groups, "CFail")
				} else {
					var bs []int
					for _, b := range g.blocks {
						x := ts.ofBlock(b)
						if x >= variantBase && x < garbageBase {
							// a body variant under the id of another block would be stored by AddBlocks: the
							// id-keyed model does not represent that (Net/Sync.v, checks/C11.json): monitors only
							ts.variantStored = true
						}
						bs = append(bs, x)
					}
					groups = append(groups, "CBlocks "+nl(bs))
				}
				i++
			case "block":
				cp := g
				i++
				if i < len(log) && log[i].kind == "state" {
					st := log[i]
					i++
					var bs []int
					if i < len(log) && log[i].kind == "bfh" && !log[i].err {
						for _, b := range log[i].blocks {
							bs = append(bs, ts.ofBlock(b))
						}
						i++
					} else if i < len(log) && log[i].kind == "bfh" {
						i++
					}
					if !cp.ok || !st.ok {
						groups = append(groups, "CFail")
					} else {
						groups = append(groups, fmt.Sprintf("CInstant %d %s true %s", ts.ofBlock(cp.block), ts.ofState(st.state), nl(bs)))
					}
				} else {
					groups = append(groups, "CFail")
				}
			default:
				i++
			}
		}
		if len(groups) > nch {
			groups = groups[:nch]
		}
		msgs = append(msgs, fmt.Sprintf("MSync %d %d %s %v [%s]", peerB, a, nl(hs), e.rem == 0, strings.Join(groups, "; ")))
	}
	return
}

// honestRounds parses the honest peer's served calls into rounds.
func honestRounds(t *chaingen.Tree, ts *terms, log []netsim.Call, bpr int) []string {
	var msgs []string
	req := t.Env.Net.HardforkV2.RequireHeight
	i := 0
	for i < len(log) {
		e := log[i]
		if e.Kind != "headers" || e.Err != "" {
			i++
			continue
		}
		an, ok := t.ByID[e.Index.ID]
		if !ok {
			i++
			continue
		}
		var hs []int
		for _, id := range e.Res {
			hs = append(hs, ts.ofID(id))
		}
		nch := (len(hs) + bpr - 1) / bpr
		i++
		var groups []string
		for i < len(log) && log[i].Kind != "headers" {
			g := log[i]
			i++
			if g.Kind != "bfh" || len(groups) >= nch {
				continue
			}
			if g.Err != "" {
				groups = append(groups, "CFail")
				continue
			}
			var bs []int
			for _, id := range g.Res {
				bs = append(bs, ts.ofID(id))
			}
			j := len(groups)
			bh := an.Height + uint64(j*bpr)
			if bh >= req {
				base := an.Idx
				if j > 0 {
					base = hs[j*bpr-1]
				}
				bn := t.Nodes[base]
				st := "(StJunk 0)"
				if bn.Parent != nil {
					st = fmt.Sprintf("(StOf %d)", bn.Parent.Idx)
				}
				groups = append(groups, fmt.Sprintf("CInstant %d %s true %s", base, st, nl(bs)))
			} else {
				groups = append(groups, "CBlocks "+nl(bs))
			}
		}
		msgs = append(msgs, fmt.Sprintf("MSync %d %d %s %v [%s]", peerH, an.Idx, nl(hs), e.Rem == 0, strings.Join(groups, "; ")))
	}
	return msgs
}

func project(s Scen, t *chaingen.Tree, ts *terms, atk *attack, v0 *chaingen.Node, V, H *netsim.Node, phases []phase) string {
	// the number of blocks per request is the implementation's choice (a constant capped by MaxSendBlocks), not
	// something the property fixes: the model is parametric in it and the case carries what this run used — the
	// largest Max of any block request the victim sent (the first request of a round of several asks for exactly
	// that many; a round of one request asks for all its headers, which is at most that many)
	bpr := 0
	for _, e := range atk.l.Log() {
		if e.kind == "bfh" && int(e.max) > bpr {
			bpr = int(e.max)
		}
	}
	if H != nil {
		for _, c := range H.Rec.Log() {
			if c.Kind == "bfh" && int(c.Max) > bpr {
				bpr = int(c.Max)
			}
		}
	}
	if bpr == 0 {
		bpr = 100
		if s.Batch > 0 && s.Batch < 100 {
			bpr = int(s.Batch)
		}
	}
	ipB := netsim.IPFor(s.Slot, 1)
	ipH := netsim.IPFor(s.Slot, 2)
	peerOfIP := func(addr string) int {
		switch {
		case strings.HasPrefix(addr, ipB+":"):
			return peerB
		case strings.HasPrefix(addr, ipH+":"):
			return peerH
		}
		return 0
	}
	subB := subnetIDs(s.Slot, 1)
	// Ban calls so far, normalised: in a round of several requests the worker that validates a later request and
	// the goroutine that submits an earlier one run concurrently, and each may ban the peer for its own finding;
	// how many of these Ban calls happen before the round is cancelled is up to the scheduler. The model's round is
	// sequential (first finding ends it), so a second Ban of the same peer within one phase, and the subnet ban
	// its strike causes, are not compared (counted as an observation instead).
	var cumBans []int
	var cumSub []string
	seenCalls := 0
	dupBan := false
	obs := func(p phase) (string, bool) {
		if p.tip < 0 {
			return "", false
		}
		inPhase := map[int]bool{}
		dupHere := false
		for _, b := range p.bans[seenCalls:] {
			if strings.Contains(b.Addr, "/") {
				if dupHere {
					continue
				}
				lvl := map[string]int{"/32": 0, "/24": 1, "/16": 2, "/8": 3}[b.Addr[strings.Index(b.Addr, "/"):]]
				cumSub = append(cumSub, fmt.Sprintf("(%d, %d)", lvl, subB[lvl]))
				continue
			}
			q := peerOfIP(b.Addr)
			if inPhase[q] {
				dupHere, dupBan = true, true
				continue
			}
			inPhase[q] = true
			cumBans = append(cumBans, q)
		}
		seenCalls = len(p.bans)
		return fmt.Sprintf("(%d, %s, [%s])", p.tip, nl(cumBans), strings.Join(cumSub, "; ")), true
	}
	var phs []string
	llog := atk.l.Log()
	prev := 0
	for pi, p := range phases[:len(phases)-1] {
		msgs := []string{fmt.Sprintf("MConnect %d", peerB)}
		stretch := llog[prev:min(p.nlog, len(llog))]
		if atk.relay != nil {
			cut := atk.relayAt[pi] - prev
			if cut < 0 || cut > len(stretch) {
				return ""
			}
			before, _ := roundsOf(ts, stretch[:cut], bpr)
			after, _ := roundsOf(ts, stretch[cut:], bpr)
			msgs = append(msgs, before...)
			switch {
			case atk.header != nil:
				msgs = append(msgs, fmt.Sprintf("MHeader %d %d", peerB, ts.ofHeader(*atk.header)))
			case atk.outlineBlock != nil:
				msgs = append(msgs, fmt.Sprintf("MOutline %d %d %s", peerB, ts.ofBlock(*atk.outlineBlock), atk.completion))
			case atk.txnBasis != nil:
				msgs = append(msgs, fmt.Sprintf("MTxns %d %d %v", peerB, ts.ofID(atk.txnBasis.ID), atk.txnEmpty))
			}
			msgs = append(msgs, after...)
		} else {
			rs, refused := roundsOf(ts, stretch, bpr)
			msgs = append(msgs, rs...)
			if refused {
				msgs = append(msgs, fmt.Sprintf("MNoHistory %d", peerB))
			}
		}
		prev = p.nlog
		o, ok := obs(p)
		if !ok {
			return ""
		}
		phs = append(phs, fmt.Sprintf("([%s], %s)", strings.Join(msgs, "; "), o))
	}
	last := phases[len(phases)-1]
	hm := append([]string{fmt.Sprintf("MConnect %d", peerH)}, honestRounds(t, ts, H.Rec.Log(), bpr)...)
	o, ok := obs(last)
	if !ok {
		return ""
	}
	phs = append(phs, fmt.Sprintf("([%s], %s)", strings.Join(hm, "; "), o))

	var subs []string
	for _, c := range V.Rec.Log() {
		if c.Kind != "add" && c.Kind != "addv" {
			continue
		}
		var l []int
		for _, id := range c.IDs {
			l = append(l, ts.ofID(id))
		}
		subs = append(subs, fmt.Sprintf("(%v, %s, %v)", c.Kind == "addv", nl(l), c.Err != ""))
	}
	if ts.variantStored || (dupBan && s.Repeat) {
		return ""
	}
	if dupBan {
		atk.note = "double-ban-in-one-round"
	}
	var init []int
	for _, x := range t.Path(v0) {
		init = append(init, x.Idx)
	}
	u, x := ts.coqUniverses()
	subH := subnetIDs(s.Slot, 2)
	return fmt.Sprintf("(* %s/%s regime %d v %d h %d batch %d bdials %v seed %d *) mk_case %s\n %s\n (Params 10000 %d %d) [(%d, %s); (%d, %s)] %s\n [%s]\n [%s]",
		s.Attack, s.Field, s.Regime, s.VTip, s.HTip, s.Batch, s.BDials, s.Seed, u, x, bpr, t.Env.Net.HardforkV2.RequireHeight, peerB, nl(subB), peerH, nl(subH), nl(init),
		strings.Join(phs, ";\n  "), strings.Join(subs, "; "))
}

// ---------------------------------------------------------------- scenario generation

type variantSpec struct {
	attack, field string
	regimes       []int
	needInstant   int // 1 = the fork point must be at or above the require height, -1 = below, 0 = any
	corrupt       bool
}

func catalogue() []variantSpec {
	var vs []variantSpec
	any6 := []int{0, 1, 2, 3, 4, 5}
	vs = append(vs, variantSpec{"honest", "", any6, 0, false}, variantSpec{"honest-fork", "", any6, 0, false})
	// abort points: the connection of a peer serving honest data dies after a byte budget (K picks the budget)
	for k := 0; k < 5; k++ {
		vs = append(vs, variantSpec{"cut-conn", fmt.Sprint(k), any6, 0, false})
	}
	for _, f := range hdrFields {
		vs = append(vs, variantSpec{"hdr-field", f, any6, 0, false})
	}
	for _, f := range hdrShapes {
		vs = append(vs, variantSpec{"hdr-shape", f, any6, 0, false})
	}
	for _, f := range blkFields {
		vs = append(vs, variantSpec{"blk-field", f, []int{0, 1, 3, 4}, -1, false})
		vs = append(vs, variantSpec{"blk-field", f, []int{2, 5, 1}, 1, false})
	}
	for _, f := range blkShapes {
		vs = append(vs, variantSpec{"blk-shape", f, []int{0, 1, 3}, -1, false})
		vs = append(vs, variantSpec{"blk-shape", f, []int{2, 5}, 1, false})
	}
	vs = append(vs, variantSpec{"invalid-branch", "", []int{0, 1, 3}, -1, true}, variantSpec{"invalid-branch", "", []int{2, 5}, 1, true})
	for _, f := range cpFields {
		vs = append(vs, variantSpec{"cp-field", f, []int{2, 5, 1}, 1, false})
	}
	vs = append(vs, variantSpec{"cp-forge", "", []int{2, 5}, 1, false}, variantSpec{"cp-forge", "", []int{2}, 1, false})
	for _, f := range relayHeaderKinds {
		if strings.HasPrefix(f, "low-work") {
			// a header that misses its target needs a target that can be missed: hard-target regimes first
			vs = append(vs, variantSpec{"relay-header", f, []int{3, 4, 5, 2, 1, 0}, 0, false})
			continue
		}
		vs = append(vs, variantSpec{"relay-header", f, any6, 0, false})
	}
	for _, f := range relayOutlineKinds {
		if f == "side-known" {
			// the fork must have been stored by AddBlocks (header-derived states): below the require height
			vs = append(vs, variantSpec{"relay-outline", f, []int{4, 1}, -1, false}, variantSpec{"relay-outline", f, []int{1, 4}, -1, false})
			continue
		}
		vs = append(vs, variantSpec{"relay-outline", f, []int{2, 5, 1, 4}, 0, false})
	}
	for _, f := range relayTxnKinds {
		vs = append(vs, variantSpec{"relay-txns", f, []int{2, 1, 5}, 0, false})
	}
	// two cooperating Byzantine peers (twostep.go)
	vs = append(vs, variantSpec{"preseed-instant", "", []int{2, 5}, 1, false},
		variantSpec{"two-mismatch-then-honest", "", []int{0, 1, 3}, -1, false})
	// (the illegal request for the transactions of a stored v1 block needs a victim holding v1 blocks)
	vs = append(vs, variantSpec{"malformed", "req-txns-of-stored-block", []int{0, 3}, 0, false})
	for _, f := range malformedKinds {
		vs = append(vs, variantSpec{"malformed", f, any6, 0, false})
	}
	return vs
}

// forkPoint: the deepest common ancestor of a and b.
func forkPoint(a, b *chaingen.Node) *chaingen.Node {
	anc := map[*chaingen.Node]bool{}
	for x := a; x != nil; x = x.Parent {
		anc[x] = true
	}
	for y := b; y != nil; y = y.Parent {
		if anc[y] {
			return y
		}
	}
	return nil
}

func genOne(c *hx.Ctx, v variantSpec, i int) (Scen, bool) {
	r := c.R.Fork()
	for try := 0; try < 30; try++ {
		s := Scen{Seed: r.U64(), Attack: v.attack, Field: v.field, K: r.Intn(1000), BDials: r.Bool()}
		s.Regime = v.regimes[(i+try)%len(v.regimes)]
		s.Opts = chaingen.GenOpts{Blocks: 7 + r.Intn(9), Branchiness: 2 + r.Intn(3), TxPerBlock: 1 + r.Intn(2)}
		if v.corrupt {
			s.Opts.Corruptions, s.Opts.OnInvalid = 5, 4
		}
		if v.attack == "relay-outline" {
			s.Opts.TxPerBlock = 2
			s.Opts.Branchiness = 4
		}
		if s.Regime%3 != 2 && r.Chance(1, 3) && (strings.HasPrefix(v.attack, "honest") || strings.HasPrefix(v.attack, "blk-") || strings.HasPrefix(v.attack, "hdr-")) {
			// forks that move siafunds and contracts below the require height: the victim's reorg onto the honest chain
			// reverts and re-applies every kind of element
			s.Opts.Kinds = []string{"v1-siafund", "v1-siafund", "v1-transfer", "v1-form", "v1-revise", "v1-proof", "v1-revise-window"}
			s.Opts.TxPerBlock = 2 + r.Intn(2)
		}
		if v.attack != "two-mismatch-then-honest" {
			// the victim's request size (WithMaxSendBlocks): default, and small values down to 1
			s.Batch = []uint64{0, 0, 3, 1, 2, 7}[r.Intn(6)]
		}
		if v.attack == "cut-conn" {
			k := 0
			fmt.Sscan(v.field, &k)
			s.K = 2*k + r.Intn(2)
			s.Field = ""
		}
		t := s.safeTree()
		if t == nil {
			continue
		}
		req := t.Env.Net.HardforkV2.RequireHeight
		if v.attack == "invalid-branch" {
			found := false
			for _, n := range t.Nodes {
				if n.Parent != nil && !n.ChainValid() && chaingen.HdrChainOK(n) {
					found = true
				}
			}
			if !found {
				continue
			}
		}
		type pair struct{ v, h int }
		var cands []pair
		for _, hn := range t.Nodes {
			if !hn.ChainValid() {
				continue
			}
			for _, vn := range t.Nodes {
				if !vn.ChainValid() || vn == hn || !mgrsim.Heavier(hn, vn) {
					continue
				}
				fp := forkPoint(vn, hn)
				// the victim's attach point is the fork point only if it is among the first ten history entries
				if vn.Height-fp.Height > 9 {
					continue
				}
				if v.needInstant == 1 && fp.Height < req {
					continue
				}
				if v.needInstant == -1 && fp.Height >= req {
					continue
				}
				switch v.attack {
				case "cp-forge":
					if fp != vn {
						continue // the checkpoint is the victim's own tip
					}
				case "preseed-instant":
					if vn.Parent == nil || vn.Block.V2 == nil {
						continue
					}
				case "malformed":
					if v.field == "req-txns-of-stored-block" && vn.Parent == nil {
						continue
					}
				case "relay-header", "relay-outline", "relay-txns":
					if vn.Parent == nil {
						continue
					}
					if strings.HasPrefix(v.field, "attach") || strings.HasPrefix(v.field, "missing") || v.field == "low-work" {
						ch := validChild(vn)
						if ch == nil {
							continue
						}
						if v.attack == "relay-outline" && ch.Block.V2 == nil {
							continue
						}
						if strings.HasPrefix(v.field, "missing") && len(ch.Block.Transactions)+len(ch.Block.V2Transactions()) == 0 {
							continue
						}
					}
					if v.field == "side-known" {
						ok := false
						for _, n := range t.Nodes {
							if n.ChainValid() && n.Block.V2 != nil && n.Parent != nil && n.Parent.Parent != nil && !mgrsim.Heavier(n, vn) && n != vn && n.Height < req {
								on := false
								for x := vn; x != nil; x = x.Parent {
									if x == n || x == n.Parent {
										on = true
									}
								}
								if !on {
									ok = true
								}
							}
						}
						if !ok {
							continue
						}
					}
				case "blk-field", "blk-shape", "hdr-field", "hdr-shape":
					if hn.Height-fp.Height < 2 {
						continue
					}
					if v.field == "extend" && hn.Height-fp.Height < 4 {
						continue
					}
				}
				cands = append(cands, pair{vn.Idx, hn.Idx})
			}
		}
		if len(cands) == 0 {
			continue
		}
		p := cands[r.Intn(len(cands))]
		s.VTip, s.HTip = p.v, p.h
		if v.attack == "honest-fork" {
			s.Aux = 1 + r.Intn(len(t.Nodes)-1)
		}
		return s, true
	}
	return Scen{}, false
}

func genScens(c *hx.Ctx) []Scen {
	var out []Scen
	cat := catalogue()
	reps := c.Scale(2, 12)
	for rep := 0; rep < reps; rep++ {
		for i, v := range cat {
			if !c.Thorough && rep == 1 && i%4 != int(c.Seed%4) {
				continue // quick tier: the catalogue once in full and a quarter of it a second time
			}
			if s, ok := genOne(c, v, i+rep); ok {
				out = append(out, s)
			}
		}
	}
	// rounds of more than one request (> 100 headers), straddling the require height: the first request goes through
	// AddBlocks, the second through a checkpoint and AddValidatedV2Blocks (outside the theorems' `uniform` rounds)
	long := []Scen{{Seed: 424201, Regime: 1, Opts: chaingen.GenOpts{Blocks: 118, Branchiness: 0}, Attack: "honest", VTip: 3, HTip: 118, BDials: true}}
	if c.Thorough {
		long = append(long,
			Scen{Seed: 424202, Regime: 1, Opts: chaingen.GenOpts{Blocks: 125, Branchiness: 0, TxPerBlock: 1}, Attack: "blk-field", Field: "txn-tamper", K: 110, VTip: 5, HTip: 125},
			Scen{Seed: 424203, Regime: 1, Opts: chaingen.GenOpts{Blocks: 125, Branchiness: 0}, Attack: "blk-field", Field: "payout-value", K: 50, VTip: 5, HTip: 125, BDials: true},
			Scen{Seed: 424204, Regime: 2, Opts: chaingen.GenOpts{Blocks: 230, Branchiness: 0}, Attack: "cp-field", Field: "payout-value", K: 0, VTip: 4, HTip: 230},
			Scen{Seed: 424205, Regime: 2, Opts: chaingen.GenOpts{Blocks: 12, Branchiness: 3}, Attack: "stall", VTip: 1, HTip: 0, Mixed: true})
	}
	for _, s := range long {
		t := s.tree()
		if s.Attack == "stall" {
			// find any valid pair
			for _, hn := range t.Nodes {
				if hn.ChainValid() && mgrsim.Heavier(hn, t.Nodes[s.VTip]) {
					s.HTip = hn.Idx
				}
			}
		}
		if s.HTip < len(t.Nodes) && t.Nodes[s.HTip].ChainValid() && mgrsim.Heavier(t.Nodes[s.HTip], t.Nodes[s.VTip]) {
			out = append(out, s)
		}
	}
	// instant-sync bootstrap through RetrieveCheckpoint with mixed peer lists (bootstrap.go): every bogus-checkpoint
	// kind once, with 1..2 Byzantine and 1..2 honest peers in varying orders
	for i, f := range cpFields {
		for rep := 0; rep < c.Scale(1, 6); rep++ {
			r := c.R.Fork()
			s := Scen{Seed: r.U64(), Regime: []int{2, 5, 1}[(i+rep)%3], Attack: "bootstrap", Field: f, K: r.Intn(1000),
				Opts: chaingen.GenOpts{Blocks: 9 + r.Intn(4), Branchiness: 5, TxPerBlock: 1 + r.Intn(2)}}
			t := s.safeTree()
			if t == nil {
				continue
			}
			best := -1
			for _, n := range t.Nodes {
				if n.ChainValid() && n.Block.V2 != nil && n.Height >= t.Env.Net.HardforkV2.RequireHeight && n.Height >= 3 && (best < 0 || n.Height > t.Nodes[best].Height) {
					best = n.Idx
				}
			}
			if best >= 0 {
				s.HTip = best
				out = append(out, s)
			}
		}
	}
	// hit-and-run: a bad batch that is judged only after its sender has hung up (see hitrun.go)
	for i, regime := range []int{1, 4, 1} {
		if i == 2 && !c.Thorough {
			break
		}
		s := Scen{Seed: uint64(515100 + i), Regime: regime, Opts: chaingen.GenOpts{Blocks: 8, Branchiness: 0, TxPerBlock: 1}, Attack: "hit-and-run", VTip: 0, HTip: 8, Batch: 3}
		if i == 2 {
			s.Opts.Blocks, s.HTip, s.VTip = 7, 7, 1
		}
		if t := s.safeTree(); t != nil && len(t.Nodes) > s.HTip {
			out = append(out, s)
		}
	}
	// mixes of honest and Byzantine peers, and repeat offenders
	n := c.Scale(12, 150)
	for i := 0; i < n; i++ {
		v := cat[c.R.Intn(len(cat))]
		if v.attack == "malformed" || v.attack == "preseed-instant" || v.attack == "two-mismatch-then-honest" {
			continue
		}
		if s, ok := genOne(c, v, i); ok {
			s.Mixed = true
			out = append(out, s)
		}
	}
	for i, v := range cat {
		if (v.attack == "relay-header" && v.field == "low-work") || (v.attack == "relay-txns" && v.field == "empty") || (v.attack == "blk-field" && v.field == "payout-value" && v.needInstant == 1) {
			if s, ok := genOne(c, v, i); ok {
				s.Repeat = true
				out = append(out, s)
			}
		}
	}
	return out
}

var _ = types.BlockID{}
