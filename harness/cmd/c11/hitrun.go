package main

// Hit-and-run: misbehaviour that is only judged after the peer has hung up.
//
// parallelSync hands finished requests to the manager strictly in order, so a
// fully received bad batch k is judged only when batches 0..k-1 have arrived.
// A slow honest peer holds batch 0 for a few seconds; meanwhile the Byzantine
// peer joins the round as a worker, serves a later batch (header-matched path,
// below the require height) whose last v2 block has a replaced body — the ids
// still match the announced headers — and hangs up 200 ms later. When batch 0
// finally arrives the victim's own judgement (AddBlocks: reorg failed) rejects
// the Byzantine batch: the peer store must be told, connected or not.

import (
	"fmt"
	"sync"
	"time"

	"go.sia.tech/core/types"
	"go.sia.tech/coreutils/chain"
	"go.sia.tech/coreutils/syncer"
	"verif/harness/internal/chaingen"
	"verif/harness/internal/mgrsim"
	"verif/harness/internal/netsim"
)

// slowFirst delays the first BlocksForHistory request that starts at a given block.
type slowFirst struct {
	*chain.Manager
	at      types.BlockID
	delay   time.Duration
	once    sync.Once
	entered chan struct{}
}

func (s *slowFirst) BlocksForHistory(history []types.BlockID, max uint64) ([]types.Block, uint64, error) {
	if len(history) > 0 && history[0] == s.at {
		hit := false
		s.once.Do(func() { hit = true })
		if hit {
			close(s.entered)
			time.Sleep(s.delay)
		}
	}
	return s.Manager.BlocksForHistory(history, max)
}

func runHitAndRun(s Scen) (res result) {
	res.obs = map[string]any{}
	t := s.tree()
	ts := newTerms(t)
	v0, h := t.Nodes[s.VTip], t.Nodes[s.HTip]
	if !h.ChainValid() || !mgrsim.Heavier(h, v0) {
		res.skipped = "tips unsuitable"
		return
	}
	vs, vcm := netsim.NewChain(t.Env, t, v0)
	V, err := netsim.Start("victim", netsim.IPFor(s.Slot, 0), t.Env, vs, vcm, netsim.Options{Opts: []syncer.Option{syncer.WithMaxSendBlocks(s.Batch)}, UID: uidFor(s.Seed, 0)})
	if err != nil {
		res.skipped = err.Error()
		return
	}
	defer V.Close()
	ipB, ipH := netsim.IPFor(s.Slot, 1), netsim.IPFor(s.Slot, 2)
	V.PS.Trusted[ipH] = true

	// the slow honest peer
	hs, hcm := netsim.NewChain(t.Env, t, h)
	slow := &slowFirst{Manager: hcm, at: v0.ID, delay: 3 * time.Second, entered: make(chan struct{})}
	H, err := netsim.Start("honest-slow", ipH, t.Env, hs, hcm, netsim.Options{Wrap: func(*chain.Manager) syncer.ChainManager { return slow }, UID: uidFor(s.Seed, 2)})
	if err != nil {
		res.skipped = err.Error()
		return
	}
	defer H.Close()
	H.PS.Trusted[V.IP] = true
	if err := H.Connect(V); err != nil {
		res.skipped = "connect: " + err.Error()
		return
	}
	select {
	case <-slow.entered:
	case <-time.After(8 * time.Second):
		res.skipped = "the victim never asked the slow peer for the first batch"
		return
	}

	// the Byzantine peer joins the round in progress
	var B *netsim.Node
	var bmu sync.Mutex
	var tampered *types.BlockID
	var servedAt, closedAt time.Time
	l := &liar{chain: chainTo(t, h)}
	l.mutBlocks = func(hist []types.BlockID, bs []types.Block, rem uint64) ([]types.Block, uint64, error) {
		if len(hist) > 0 && hist[0] == v0.ID {
			// the first batch is the slow honest peer's business (parallelSync re-queues unfinished requests to
			// idle workers): sit on it until the connection is gone
			time.Sleep(1500 * time.Millisecond)
			return nil, 0, errStall
		}
		bmu.Lock()
		defer bmu.Unlock()
		if tampered != nil || len(bs) == 0 || bs[len(bs)-1].V2 == nil {
			return bs, rem, nil
		}
		last := &bs[len(bs)-1]
		id := last.ID()
		last.Transactions = append(append([]types.Transaction(nil), last.Transactions...), types.Transaction{ArbitraryData: [][]byte{[]byte("replaced body")}})
		if last.ID() != id {
			return bs, rem, nil
		}
		tampered = &id
		servedAt = time.Now()
		go func() {
			time.Sleep(200 * time.Millisecond)
			bmu.Lock()
			b := B
			bmu.Unlock()
			if b != nil {
				b.Close()
				bmu.Lock()
				closedAt = time.Now()
				bmu.Unlock()
			}
		}()
		return bs, rem, nil
	}
	bst, bcm := t.Env.NewManager()
	l.Manager = bcm
	nb, err := netsim.Start("byzantine", ipB, t.Env, bst, bcm, netsim.Options{
		Wrap: func(*chain.Manager) syncer.ChainManager { return l },
		Opts: []syncer.Option{syncer.WithSyncInterval(time.Hour)}, UID: uidFor(s.Seed, 1)})
	if err != nil {
		res.skipped = err.Error()
		return
	}
	bmu.Lock()
	B = nb
	bmu.Unlock()
	defer nb.Close()
	nb.PS.Trusted[V.IP] = true
	if err := nb.Connect(V); err != nil {
		res.obs["connect-error"] = err.Error()
	}

	// the victim must end on the honest chain
	reached := func() bool {
		tn, ok := t.ByID[V.CM.Tip().ID]
		return ok && !mgrsim.Heavier(h, tn)
	}
	okLive := netsim.WaitUntil(25*time.Second, reached)
	time.Sleep(300 * time.Millisecond)
	for _, e := range l.Log() {
		for _, b := range e.blocks {
			ts.ofBlock(b)
		}
	}
	fin := -1
	if n, ok := t.ByID[V.CM.Tip().ID]; ok {
		fin = n.Idx
	}
	res.obs["final-tip"] = fin
	res.obs["bans"] = V.PS.Bans()
	res.banned = len(V.PS.BansOf(ipB)) > 0
	bmu.Lock()
	tid := tampered
	bmu.Unlock()
	res.obs["tampered-batch-served"] = tid != nil
	bmu.Lock()
	res.obs["served-at"], res.obs["closed-at"] = servedAt.Format("15:04:05.000"), closedAt.Format("15:04:05.000")
	bmu.Unlock()
	for _, b := range V.PS.BansOf(ipB) {
		res.obs["ban-at"] = b.At.Format("15:04:05.000")
	}

	fail := func(kind, format string, a ...any) {
		if res.fail == nil {
			res.fail = &failure{kind, fmt.Sprintf(format, a...)}
		}
	}
	if ps := V.Panics(); len(ps) > 0 {
		fail("c11-handler-panic", "the victim recovered a panic in an RPC handler: %s", ps[0])
	}
	if k, d := netsim.AuditNode("c11", t, v0, V); k != "" {
		fail(k, "%s (hit-and-run)", d)
	}
	if k, d := netsim.AuditTips("c11", t, v0, V.Tips()); k != "" {
		fail(k, "%s (hit-and-run)", d)
	}
	if !okLive {
		fail("c11-stalled-below-honest-chain", "after a hit-and-run peer the victim is on tip %d although the connected honest peer offers tip %d (waited 25 s)", fin, h.Idx)
	}
	if n := len(V.PS.BansOf(ipH)); n > 0 {
		fail("c11-honest-peer-banned", "the victim banned the honest peer: %s", V.PS.BansOf(ipH)[0].Reason)
	}
	// did the victim's own judgement reject the Byzantine batch?
	rejected := false
	if tid != nil {
		for _, c := range V.Rec.Log() {
			if c.Kind != "add" || c.Err == "" {
				continue
			}
			for _, id := range c.IDs {
				if id == *tid {
					rejected = true
					res.obs["rejected-with"] = c.Err
				}
			}
		}
	}
	if rejected && !res.banned {
		fail("c11-misbehaviour-not-banned-after-disconnect", "the Byzantine peer served a batch whose last v2 block has a replaced body (ids match the announced headers) and hung up 200 ms later; when the earlier batch arrived from the slow honest peer the victim rejected it (%v) but no Ban call named the peer's address %s: misbehaviour judged after the disconnect is not reported", res.obs["rejected-with"], ipB)
	}
	if !rejected {
		res.note = "hit-and-run-not-reached"
	}
	_ = chaingen.Blocks
	return
}
