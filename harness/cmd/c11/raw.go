package main

// A raw gateway peer for malformed encodings: it performs the version/header
// handshake by hand, then opens mux streams and writes bytes that no honest
// implementation writes, and answers the victim's own requests with garbage.

import (
	"bytes"
	"encoding/binary"
	"errors"
	"io"
	"net"
	"strings"
	"time"

	"go.sia.tech/core/gateway"
	"go.sia.tech/core/types"
	"go.sia.tech/mux"
	"verif/harness/internal/chaingen"
)

func v1Write(w io.Writer, fn func(*types.Encoder)) error {
	var buf bytes.Buffer
	e := types.NewEncoder(&buf)
	e.WriteUint64(0)
	fn(e)
	e.Flush()
	b := buf.Bytes()
	binary.LittleEndian.PutUint64(b, uint64(buf.Len()-8))
	_, err := w.Write(b)
	return err
}

func v1Read(r io.Reader, maxLen int, fn func(*types.Decoder)) error {
	d := types.NewDecoder(io.LimitedReader{R: r, N: int64(8 + maxLen)})
	d.ReadUint64()
	fn(d)
	return d.Err()
}

type rawPeer struct {
	conn net.Conn
	m    *mux.Mux
}

func rawDial(ip, addr string, genesis types.BlockID, uid gateway.UniqueID) (*rawPeer, error) {
	conn, err := (&net.Dialer{LocalAddr: &net.TCPAddr{IP: net.ParseIP(ip)}, Timeout: 3 * time.Second}).Dial("tcp", addr)
	if err != nil {
		return nil, err
	}
	conn.SetDeadline(time.Now().Add(5 * time.Second))
	var version, accept string
	if err := v1Write(conn, func(e *types.Encoder) { e.WriteString("2.0.0") }); err != nil {
		return nil, err
	} else if err := v1Read(conn, 128, func(d *types.Decoder) { version = d.ReadString() }); err != nil {
		return nil, err
	}
	_ = version
	if err := v1Write(conn, func(e *types.Encoder) {
		genesis.EncodeTo(e)
		e.Write(uid[:])
		e.WriteString(ip + ":9999")
	}); err != nil {
		return nil, err
	} else if err := v1Read(conn, 128, func(d *types.Decoder) { accept = d.ReadString() }); err != nil {
		return nil, err
	} else if accept != "accept" {
		return nil, errors.New("header rejected: " + accept)
	}
	var theirs struct {
		g   types.BlockID
		uid [8]byte
		na  string
	}
	if err := v1Read(conn, 32+8+128, func(d *types.Decoder) {
		theirs.g.DecodeFrom(d)
		d.Read(theirs.uid[:])
		theirs.na = d.ReadString()
	}); err != nil {
		return nil, err
	} else if err := v1Write(conn, func(e *types.Encoder) { e.WriteString("accept") }); err != nil {
		return nil, err
	}
	conn.SetDeadline(time.Time{})
	m, err := mux.DialAnonymous(conn)
	if err != nil {
		return nil, err
	}
	return &rawPeer{conn: conn, m: m}, nil
}

func (r *rawPeer) Close() {
	r.m.Close()
	r.conn.Close()
}

// send opens a stream, writes the bytes and closes it (after an optional read).
func (r *rawPeer) send(b []byte, wait time.Duration) {
	s := r.m.DialStream()
	s.SetDeadline(time.Now().Add(2 * time.Second))
	s.Write(b)
	if wait > 0 {
		buf := make([]byte, 256)
		s.SetReadDeadline(time.Now().Add(wait))
		s.Read(buf)
	}
	s.Close()
}

// answerGarbage answers every request the victim opens with junk until closed.
func (r *rawPeer) answerGarbage(junk []byte) {
	for {
		s, err := r.m.AcceptStream()
		if err != nil {
			return
		}
		go func() {
			s.SetDeadline(time.Now().Add(2 * time.Second))
			buf := make([]byte, 4096)
			s.Read(buf)
			s.Write(junk)
			s.Close()
		}()
	}
}

func spec(name string) []byte {
	s := types.NewSpecifier(name)
	return s[:]
}

func le64(v uint64) []byte {
	b := make([]byte, 8)
	binary.LittleEndian.PutUint64(b, v)
	return b
}

var malformedKinds = []string{"unknown-id", "truncated-id", "truncated-request", "oversize-outline", "oversize-txns", "garbage-header", "flood", "garbage-answers",
	// well-formed requests with illegal or extreme arguments (the victim as server)
	"req-headers-max-huge", "req-headers-off-chain", "req-headers-height-mismatch", "req-blocks-max-huge", "req-blocks-empty-history",
	"req-blocks-unknown-history", "req-checkpoint-genesis", "req-checkpoint-unknown", "req-txns-of-stored-block", "req-txns-unknown-many"}

func encIndex(h uint64, id types.BlockID) []byte { return append(le64(h), id[:]...) }

// request sends a well-formed request and reads (and discards) up to 1 MiB of the answer.
func (r *rawPeer) request(b []byte) int {
	s := r.m.DialStream()
	defer s.Close()
	s.SetDeadline(time.Now().Add(3 * time.Second))
	s.Write(b)
	n, _ := io.Copy(io.Discard, io.LimitReader(s, 1<<20))
	return int(n)
}

// extreme sends a well-formed request with illegal or extreme arguments.
func (r *rawPeer) extreme(kind string, t *chaingen.Tree, v0 *chaingen.Node) {
	g := t.Nodes[0]
	var junk types.BlockID
	junk[0], junk[9] = 0xEE, 0x77
	switch kind {
	case "req-headers-max-huge":
		r.request(append(append(spec("SendHeaders"), encIndex(0, g.ID)...), le64(^uint64(0))...))
		r.request(append(append(spec("SendHeaders"), encIndex(0, g.ID)...), le64(0)...))
	case "req-headers-off-chain":
		r.request(append(append(spec("SendHeaders"), encIndex(3, junk)...), le64(10)...))
	case "req-headers-height-mismatch":
		r.request(append(append(spec("SendHeaders"), encIndex(v0.Height+7, g.ID)...), le64(10)...))
		r.request(append(append(spec("SendHeaders"), encIndex(^uint64(0), v0.ID)...), le64(10)...))
	case "req-blocks-max-huge":
		r.request(append(append(append(spec("SendV2Blocks"), le64(1)...), g.ID[:]...), le64(^uint64(0))...))
		r.request(append(append(append(spec("SendV2Blocks"), le64(1)...), g.ID[:]...), le64(0)...))
	case "req-blocks-empty-history":
		r.request(append(append(spec("SendV2Blocks"), le64(0)...), le64(5)...))
	case "req-blocks-unknown-history":
		b := append(spec("SendV2Blocks"), le64(32)...)
		for i := 0; i < 32; i++ {
			id := junk
			id[3] = byte(i)
			b = append(b, id[:]...)
		}
		r.request(append(b, le64(100)...))
	case "req-checkpoint-genesis":
		r.request(append(spec("SendCheckpoint"), encIndex(0, g.ID)...))
	case "req-checkpoint-unknown":
		r.request(append(spec("SendCheckpoint"), encIndex(5, junk)...))
	case "req-txns-of-stored-block":
		// every block of the victim's chain in turn, v1 and v2: all its transactions, plus an unknown hash
		for x := v0; x != nil && x.Parent != nil; x = x.Parent {
			var hs []types.Hash256
			for _, txn := range x.Block.Transactions {
				hs = append(hs, txn.MerkleLeafHash())
			}
			for _, txn := range x.Block.V2Transactions() {
				hs = append(hs, txn.MerkleLeafHash())
			}
			hs = append(hs, types.Hash256(junk))
			b := append(append(spec("SendTransactions"), encIndex(x.Height, x.ID)...), le64(uint64(len(hs)))...)
			for _, h := range hs {
				b = append(b, h[:]...)
			}
			r.request(b)
		}
	case "req-txns-unknown-many":
		b := append(append(spec("SendTransactions"), encIndex(9, junk)...), le64(100)...)
		for i := 0; i < 100; i++ {
			h := junk
			h[5] = byte(i)
			b = append(b, h[:]...)
		}
		r.request(b)
	}
}

// malform sends one kind of malformed traffic.
func (r *rawPeer) malform(kind string, t *chaingen.Tree, v0 *chaingen.Node) {
	if strings.HasPrefix(kind, "req-") {
		r.extreme(kind, t, v0)
		return
	}
	switch kind {
	case "unknown-id":
		r.send(spec("Nonsense"), 200*time.Millisecond)
	case "truncated-id":
		r.send([]byte{1, 2, 3}, 0)
	case "truncated-request":
		r.send(append(spec("SendHeaders"), 1, 2, 3, 4, 5), 200*time.Millisecond)
	case "oversize-outline":
		// height, parent id, nonce, timestamp, miner address, then a transaction count of 2^61
		b := append(spec("RelayV2Outline"), le64(5)...)
		b = append(b, make([]byte, 32)...)
		b = append(b, le64(7)...)
		b = append(b, le64(uint64(time.Now().Unix()))...)
		b = append(b, make([]byte, 32)...)
		b = append(b, le64(1<<61)...)
		r.send(b, 200*time.Millisecond)
	case "oversize-txns":
		b := append(spec("RelayV2Txns"), le64(3)...)
		b = append(b, make([]byte, 32)...)
		b = append(b, le64(1<<60)...)
		r.send(b, 200*time.Millisecond)
	case "garbage-header":
		b := append(spec("RelayV2Header"), bytes.Repeat([]byte{0xAB}, 80)...)
		r.send(b, 200*time.Millisecond)
	case "flood":
		for i := 0; i < 150; i++ {
			go r.send(spec("Nonsense"), 0)
		}
		time.Sleep(300 * time.Millisecond)
	case "garbage-answers":
		go r.answerGarbage(append(le64(1<<40), bytes.Repeat([]byte{0xCD}, 64)...))
		time.Sleep(1500 * time.Millisecond)
	}
}
